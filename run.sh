#!/bin/bash
# usage: run.sh <Cxx> [quick|thorough]
# Rebuilds the harness against /repo's current working tree (hooks on: -tags verif) and runs one check.
set -u
cd "$(dirname "$0")"
. ./env.sh
ID="$1"; TIER="${2:-${VERIF_TIER:-quick}}"
mkdir -p .build evidence replays
cp /repo/go.sum mc/go.sum 2>/dev/null || true
LOG=.build/build.$ID.log
case "$ID" in
  C04|C05|C20)
    # instrumented build: pongo2 compiled through a generated overlay (never written into /repo or /verif)
    BIN=.build/mc-inst
    OV=$(mktemp -d /tmp/verif-overlay.XXXXXX)
    cleanup() { python3 -c "import shutil,sys; shutil.rmtree(sys.argv[1], ignore_errors=True)" "$OV"; }
    trap cleanup EXIT
    built=0
    if ! (cd instr && flock ../.build/build.lock go build -o ../.build/instr .) >"$LOG" 2>&1; then
      echo "TOOL-FAILURE property=$ID: the source instrumenter does not build; see $LOG (not a violation)"; head -20 "$LOG"; exit 3
    fi
    for MODE in full stores sync; do
      mkdir -p "$OV/$MODE"
      if .build/instr -repo /repo -shim "$PWD/shim/vsched" -out "$OV/$MODE" -mode $MODE >>"$LOG" 2>&1 && \
         (cd mc && flock ../.build/build.lock go build -tags verif,verifinst -overlay "$OV/$MODE/overlay.json" -o ../$BIN ./cmd/mc) >>"$LOG" 2>&1; then
        built=1; export VERIF_INSTR_MODE=$MODE; break
      fi
    done
    if [ $built = 0 ]; then
      if (cd /repo && go build -tags verif ./... ) >>"$LOG" 2>&1; then
        echo "TOOL-FAILURE property=$ID: the instrumented build failed although /repo compiles; see $LOG (not a violation)"; head -20 "$LOG"; exit 3
      fi
      echo "BUILD-FAILED property=$ID (/repo does not compile with -tags verif); see $LOG"; head -30 "$LOG"; exit 2
    fi
    $BIN check "$ID" --tier "$TIER"; rc=$?
    # supplementary pass (C05, C20): the same scenario bodies on real goroutines in a binary built with the Go race
    # detector and without the controlled scheduler - it sees unsynchronised accesses inside the standard library and
    # on objects the scheduler's detector does not track. Sampling, therefore only an addition to the exhaustive run.
    if [ $rc = 0 ] && [ -z "${VERIF_NO_RACEPASS:-}" ] && { [ "$ID" = C05 ] || [ "$ID" = C20 ]; }; then
      mkdir -p "$OV/none"
      if .build/instr -repo /repo -shim "$PWD/shim/vsched" -out "$OV/none" -mode none >>"$LOG" 2>&1 && \
         (cd mc && CGO_ENABLED=1 flock ../.build/build.lock go build -race -tags verif,verifinst -overlay "$OV/none/overlay.json" -o ../.build/mc-race ./cmd/mc) >>"$LOG" 2>&1; then
        rm -f .build/$ID.racepass.json
        VERIF_RACEPASS=1 VERIF_EVIDENCE_SUFFIX=.racepass GORACE="halt_on_error=1 exitcode=66" .build/mc-race check "$ID" --tier "$TIER" | sed -e 's/^SUMMARY/RACEPASS-SUMMARY/'
        rc2=${PIPESTATUS[0]}
        python3 tools/merge_racepass.py "$ID" || true
        [ $rc2 != 0 ] && rc=$rc2
      else
        echo "RACEPASS-SKIPPED property=$ID: the race-detector build failed; see $LOG (tool failure, not a violation)"
      fi
    fi
    exit $rc
    ;;
esac
BIN=.build/mc
if ! (cd mc && flock ../.build/build.lock go build -tags verif -o ../$BIN ./cmd/mc) >"$LOG" 2>&1; then
  echo "BUILD-FAILED property=$ID (the harness or /repo does not compile with -tags verif); see $LOG"
  head -30 "$LOG"
  exit 2
fi
exec $BIN check "$ID" --tier "$TIER"
