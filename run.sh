#!/bin/bash
# usage: run.sh <Cxx> [quick|thorough]
# Rebuilds the harness against /repo's current working tree (hooks on: -tags verif) and runs one check.
set -u
cd "$(dirname "$0")"
. ./env.sh
ID="$1"; TIER="${2:-${VERIF_TIER:-quick}}"
mkdir -p .build evidence replays
cp /repo/go.sum mc/go.sum 2>/dev/null || true
BIN=.build/mc
LOG=.build/build.$ID.log
if ! (cd mc && flock ../.build/build.lock go build -tags verif -o ../$BIN ./cmd/mc) >"$LOG" 2>&1; then
  echo "BUILD-FAILED property=$ID (the harness or /repo does not compile with -tags verif); see $LOG"
  head -30 "$LOG"
  exit 2
fi
exec $BIN check "$ID" --tier "$TIER"
