# sourced by every script: offline Go environment
export GOFLAGS=-mod=mod GOPROXY=off GOSUMDB=off GOTOOLCHAIN=local
export CGO_ENABLED=${CGO_ENABLED:-0}
export VERIF_ROOT=${VERIF_ROOT:-/verif}
export GOCACHE=${GOCACHE:-$VERIF_ROOT/.build/gocache}
