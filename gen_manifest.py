#!/usr/bin/env python3
"""Regenerates MANIFEST.json from the table below (kept valid at all times)."""
import json, subprocess

CHECKS = {
 # id: (technique, level text, level note, design ref)
 "C06": ("bounded-exhaustive enumeration of all delimiter-free strings and all fragment sequences up to a size, executed on the real lexer/parser/renderer",
         "Every string over the lexer-significant alphabet up to the length bound and every fragment sequence up to the bound is rendered by the real code and compared with the identity / concatenation oracle; within the bound the result is a coverage statement, not a sample.",
         "Assumes the symbol alphabet represents the lexer's case distinctions (it contains every byte the lexer tests for plus control/high/multi-byte representatives); canonical spelling of verbatim delimiters.",
         "DESIGN.md §3 (C06), §4, §6"),
 "C17": ("bounded-exhaustive enumeration of inputs (every BMP scalar; all strings up to a length over special-symbol alphabets) per escaping filter, executed through ApplyFilter and the template syntax",
         "Each escaping filter is run on every BMP code point and on every string up to the bound over three alphabets of dangerous symbols, by both application routes, and judged by the statement's predicates with independent decoders; within the bounds this is exhaustive.",
         "Independent decoders (html.UnescapeString, url.QueryUnescape, own \\uXXXX decoder) are trusted; exact-value oracles for escapejs/iriencode on valid UTF-8 only. One fixture-pinned deviation of escapejs is a recorded known finding.",
         "DESIGN.md §3 (C17), §4, §6"),
 "C18": ("bounded-exhaustive sweep of each data filter's argument window (bounds, widths, counts, positions, value grids) over sequence kinds and string lengths, compared with independent reference functions",
         "For every filter the whole integer window and every input length up to the bound is executed through ApplyFilter and through the template syntax and compared with a small independent reference (exact) or shape predicate (layout filters).",
         "Reference functions are written from Django's documentation and the repository fixtures; behaviour the property leaves open (listed in the evidence assumptions) is executed but not judged.",
         "DESIGN.md §3 (C18), §4, §6"),
 "C14": ("exhaustive fault enumeration: for every small program every failing-call position and every failing/short Write position is executed on all four Execute entry points",
         "All programs up to N output nodes in 14 wrapper constructs x every fault point (k-th evaluated call fails, j-th Write of the caller's writer fails or is short) are run on Execute, ExecuteBytes, ExecuteWriter and ExecuteWriterUnbuffered with a recording writer; agreement, all-or-nothing, prefix and error hand-back are checked on each.",
         "Fault seams are the public io.Writer and a context function, both implemented by the harness; output nodes are text or one call (filters/expressions inside nodes belong to other properties).",
         "DESIGN.md §3 (C14), §4, §6", "fault_enumeration"),
 "C16": ("bounded-exhaustive enumeration of lexer inputs (all strings up to a length, structured opener/inner/closer strings) and of every single-token edit of a tag-covering corpus in every layout, positions checked against the source",
         "Every token of every enumerated input is mapped from (line, col) back to a byte offset where its spelling must be found; every error produced by every single-token edit of the corpus must name an involved template, point inside it at its token, and shift exactly with an inserted prefix.",
         "The position convention (line = 1 + LFs before, col = 1 + bytes since line start, strings at their quote) is read from the lexer; one fixture-pinned deviation (load failures) is a recorded known finding.",
         "DESIGN.md §3 (C16), §4, §6"),
 "C07": ("bounded-exhaustive enumeration of all expression trees up to an operator bound, printed in several spellings/spacings, compared with an independent typed tree evaluator",
         "Every tree with <=2 operators over the full operator set (and <=3 over a reduced set) is evaluated by a reference evaluator that never sees precedence, printed with minimal parentheses for the documented grammar, and rendered by the real engine in output and if position; values, zero-divisor errors and short-circuit call counts are compared.",
         "The judged fragment excludes what the property leaves open (listed in the evidence rule); one grammar-design deviation (sign of zero under a prefix minus) is a recorded known finding.",
         "DESIGN.md §3 (C07), §4, §6"),
 "C15": ("bounded-exhaustive enumeration of documents (whitespace runs x constructs x every subset of dash markers x all four option settings) with a metamorphic hand-stripped twin; spaceless bodies up to a length",
         "Every document of the bounded family is rendered with its markers/options and compared with the rendering of the source from which the generator deleted exactly the named whitespace by hand; spaceless is compared with a direct reference. Exhaustive within the whitespace-run alphabet and construct set.",
         "The hand-stripping rules are those of the property text (DESIGN.md Appendix A.7); first render of a fresh compile only (repeated renders are C04).",
         "DESIGN.md §3 (C15), §4, §6"),
 "C09": ("bounded-exhaustive generation of control-flow programs (all option subsets, all branch-presence combinations, all data sequences up to a length, nesting depth <=3) compared with a reference interpreter of the generated tree",
         "Every program of the generated families is rendered on a fresh compile by the real engine and compared byte for byte with an independent interpreter of the same tree written from the property text; forloop fields are printed at every iteration and nesting depth, so off-by-one and boundary faults show for some enumerated length.",
         "Reference semantics: DESIGN.md Appendix A.1/A.4. Programs the property leaves open are counted, not judged.",
         "DESIGN.md §3 (C09), §4, §6"),
 "C12": ("bounded-exhaustive generation of all nestings (depth <=3/4) and two-construct sequences of binding constructs with colliding names, probed before/inside/after, compared with a reference environment model; deep snapshot of caller Context and Globals around every execution",
         "All nestings and sequences over 11 binding constructs are rendered and compared with an independent environment model in which every binding carries a unique literal, so the output names which binding is visible at every probe; caller data is deep-compared before and after each execution of every generated program (here and in C09/C13).",
         "Reference environment: DESIGN.md Appendix A.5 (child scopes copy, set binds at its own level, globals < context < tag scope, globals visible under include only).",
         "DESIGN.md §3 (C12), §4, §6"),
 "C13": ("bounded-exhaustive generation of macro signatures x default subsets x argument counts/kinds x definition routes against a reference binding model; all base-case-free call graphs over <=3 macros x file placements executed in isolated sub-processes",
         "Every signature/call combination within the bounds is rendered through a local definition, an import and an aliased import and compared with the reference binding; every recursion graph is run in a fresh process whose death (stack overflow) or hang is a violation, and must yield an execution error.",
         "Process isolation with a 32 MB stack cap makes unbounded recursion observable within a second; reference binding: DESIGN.md Appendix A.5.",
         "DESIGN.md §3 (C13), §4, §6"),
 "C10": ("bounded-exhaustive generation of inheritance chains (depth, per-level block options absent/override/override+Super/new nested block, five base placements) rendered at every level against a reference block resolution; invalid shapes must be compile errors",
         "All chains within the bounds are served from an in-memory loader; the leaf is compiled first, then every level and finally the base again are rendered and compared with an independent resolution (most-derived wins, Super = next less-derived, empty at the bottom, junk outside blocks ignored, base unaffected by its children).",
         "Reference resolution: DESIGN.md Appendix A.6. Block bodies are marker texts, so any wrong definition or Super level shows in the output.",
         "DESIGN.md §3 (C10), §4, §6"),
 "C19": ("bounded-exhaustive enumeration of filter chains (length <=3/4) x inputs x expression positions and the filter tag, compared with the direct composition of the public ApplyFilter; every registered filter per route; unknown names at every position; double registration",
         "Every chain within the bound at every position where a filter can be written is rendered and compared with the left-to-right composition of ApplyFilter on the same values (printed form, truthiness, iteration, error-ness); arguments bound by enclosing constructs check scoping of parameters; operators around a filtered operand check binding strength.",
         "The oracle is the implementation's ApplyFilter, as the property states; the filter list comes from the registry hook, so a newly added filter is covered.",
         "DESIGN.md §3 (C19), §4, §6"),
 "C08": ("bounded-exhaustive enumeration of access paths (<=2/3 dot steps + final subscript; every call form on every callable) over a fixed object graph built twice - Go values for the engine, a model tree for a step-wise reference resolver",
         "Every path within the bound from every context root (struct pointer/value, maps with string/int keys, slices, arrays, strings, scalars, nil, funcs and methods of every accepted signature incl. variadic, *Value, implicit context, (T, error), interface-typed parameters) is rendered in three sinks and compared with the reference resolver: value, empty, or execution error - never a panic or another value. Shadowing of globals/context/tag scope is enumerated over all 16 combinations.",
         "The model tree is written by hand parallel to the Go object graph; behaviour the property leaves open is skipped and counted (see evidence assumptions).",
         "DESIGN.md §3 (C08), §4, §6"),
 "C11": ("bounded-exhaustive enumeration of loader configurations x virtual file trees x reference kinds x name forms x referrer locations, two-hop chains and inheritance+include, observed through recording in-memory loaders and a canary file on the real file system",
         "Every configuration within the bounds is compiled and rendered through recording loaders: the set of fetched paths must equal the closure of the referenced names, the first loader holding a name must serve it (later loaders not asked), missing names are errors (or nothing with if_exists, which must not swallow errors of existing files), each hop is resolved relative to the referring file, and a real file no loader serves is never read.",
         "Harness loaders follow DESIGN.md Appendix A.8; expectations are computed by the generator from its knowledge of the tree. Six recorded known findings (one per reference kind): with two LocalFilesystemLoaders that have different base directories, files of the second are unreachable from templates of the first.",
         "DESIGN.md §3 (C11), §4, §6"),
 "C02": ("bounded-exhaustive composition of data-flow routes (taint sources x carrier chains up to depth 2/3 x print sinks) plus every registered filter on tainted input/argument, judged by a marker-absence and differential-count oracle",
         "Every opt-out-free program built from 23 taint sources, all chains of up to 2 (thorough 3) of 33 carriers and 7 sinks, every registered filter (registry hook) with tainted input or argument, tags printing their arguments, inheritance/Super routes and the scope of the explicit opt-outs is rendered with a marker made of < > & ' \" in every string leaf; no raw fragment of the marker may appear and the count of raw special characters may not exceed that of the same program on a harmless twin value.",
         "Non-interference is checked on the enumerated route compositions only; transformations that hide the marker without emitting raw specials are fine by the property.",
         "DESIGN.md §3 (C02), §4, §6"),
 "C03": ("bounded-exhaustive enumeration of ban targets (every registered tag and filter, registry hook) x syntactic positions x nesting bodies x file-composition routes, and explicit-state enumeration of all API call histories up to depth 4/5 against a ban-set/frozen-flag model",
         "For each ban target a template using it by every route must be refused (at compile time; lazy includes at execution), harness-registered probe tag/filter counters must stay 0, a banned include/ssi/import/extends must fetch nothing, other sets are unaffected and a control template behaves byte-identically to a fresh set. Every history over BanTag/BanFilter/From*/Render* up to the depth bound is replayed on the real set; each return value and a final vector of six probe verdicts must equal the model's.",
         "Histories are enumerated without state merging (every path is executed on a fresh real set); the abstract state space has 16 states. Render* shortcuts panic with *Error on a compile error: counted as refusal.",
         "DESIGN.md §3 (C03), §4, §6"),
 "C01": ("bounded-exhaustive enumeration in seven layers (raw strings, token sequences per registered tag, value universe x access paths, every filter x input x argument by three routes, filter 2-chains, tag/operator schemas filled from the universe, composition cycles / deep nesting / resource caps) executed in isolated worker processes with crash and hang attribution",
         "Every case of every layer within the bounds is compiled and, if it compiles, executed against a context holding the whole value universe; workers are separate processes with a 32 MB stack cap and a progress watchdog, a dead or hung worker is attributed to the case it had announced and the case is re-run in isolation; risky families run one sub-process per case. Oracle: exactly one of template/error, Execute returns, no panic, process alive, no hang.",
         "The tag/filter lists come from the registry hooks (a newly registered tag or filter is covered). Composition cycles (include/extends/import/ssi) killed the process on the pinned tree; repaired by a nesting-depth limit, all 20 cycle shapes now return an error.",
         "DESIGN.md §3 (C01), §4, §6"),
 "C04": ("explicit-state exploration of all execution histories (length <=3/4 over a 4-context alphabet incl. a failing and a nil context) on one compiled template per program and option setting; state = canonical deep snapshot of everything reachable from the template; invariant + differential oracle",
         "For every program (every tag, all nested pairs, whitespace layouts) x option setting the template is compiled once and every history of executions is run: after each execution a reflect/unsafe deep snapshot of the whole compiled object graph (nodes, tokens, blocks, macros, set, parents, included templates) must equal the initial one, and the (output, error) pair must equal that of a freshly compiled template on the same context.",
         "Unexported package-level variables are not reachable by the snapshot (only their effect on later executions is seen); the quantifier's static clause is a different family and not covered.",
         "DESIGN.md §3 (C04), §4, §6"),
 "C05": ("stateless model checking of the real code under a hand-written controlled scheduler: preemption-bounded depth-first exploration of ALL schedules of 2-3 thread scenarios on the overlay-instrumented build, with a vector-clock race detector, solo-result oracle and deadlock detection",
         "pongo2 is rebuilt through a source instrumenter (go build -overlay; /repo untouched): sync primitives report to a cooperative scheduler, every store/load of shared-reachable memory and every method call on a foreign object (bytes.Buffer ...) is hooked. For every scenario (two or three threads executing one compiled template with different contexts, executing while another thread compiles or fetches in the same set, cache operations) all schedules up to 1 (thorough 2) preemptions are executed on freshly built shared state; each thread's result must equal its solo result, no happens-before-unordered conflicting access pair may exist, no deadlock.",
         "Sequentially consistent interleavings at the instrumented points only; accesses inside the standard library are seen only as calls on the object; the quantifier's static clause is not covered. If the instrumented build fails while /repo compiles, the check degrades (stores only, then sync shim only) and says so; it never turns a tool failure into an alarm.",
         "DESIGN.md §3 (C05), §4, §6"),
 "C20": ("explicit-state exploration of all cache operation histories (depth <=5/6, two sets) against a map model, plus preemption-bounded exploration of ALL schedules of 2-3 concurrent thread programs with a brute-force linearisability check against the same model",
         "Sequential: every history over FromCache/CleanCache/Debug/content change/failing file on two sets is replayed on real sets; error, object identity class, rendered content (version at load time, the set's own global) and fetch count of every call must match the model. Concurrent: every pair of thread programs of length <=2 (thorough: triples) under the controlled scheduler, all schedules up to 2 (3) preemptions; every schedule must be linearisable (returned identities and number of loads explained by some interleaving), race-free, deadlock-free.",
         "Runs on the overlay-instrumented build like C05; loader Get is an I/O scheduling point.",
         "DESIGN.md §3 (C20), §4, §6"),
}

NOT_YET = {}

def main():
    props = [json.loads(l) for l in open('/verif/properties.jsonl')]
    hooks_commits = subprocess.run(['git','-C','/repo','log','--format=%H','--grep=^verif:'],capture_output=True,text=True).stdout.split()
    checks = []
    na = []
    for p in props:
        pid = p['id']
        if pid in CHECKS:
            tech, text, note, ref = CHECKS[pid][:4]
            cat = CHECKS[pid][4] if len(CHECKS[pid]) > 4 else "model_checking"
            checks.append({
                "property_id": pid,
                "quick_cmd": f"./run.sh {pid} quick",
                "thorough_cmd": f"./run.sh {pid} thorough",
                "evidence_file": f"/verif/evidence/{pid}.json",
                "replay_cmd_template": ("./.build/mc-inst replay {path}" if pid in ("C04","C05","C20") else "./.build/mc replay {path}"),
                "engine": "mc",
                "level_claimed": {"category": cat, "text": text, "design_ref": ref},
                "level_note": note,
                "technique": tech,
            })
        else:
            na.append({"property_id": pid, "reason": NOT_YET.get(pid, "check not built yet in this revision of /verif (construction order in DESIGN.md §6); nothing is claimed for it")})
    m = {
        "version": 1,
        "setup_cmd": "./setup.sh",
        "hooks": {
            "guard": "verif",
            "enable": "go build -tags verif (the harness module /verif/mc replaces github.com/flosch/pongo2/v6 with /repo)",
            "baseline_off_cmd": "cd /repo && GOFLAGS=-mod=mod GOPROXY=off GOSUMDB=off GOTOOLCHAIN=local go test -vet=off -count=1 ./...",
            "source_commits": hooks_commits,
            "add_only": True,
        },
        "engines": [
            {"name": "mc", "path": "/verif/mc", "serves_properties": sorted(CHECKS),
             "kind_free_text": "hand-written bounded-exhaustive explorer in Go running the real pongo2 code: sized enumerators, explicit-state search over API histories, fault enumeration, controlled scheduler; 16 worker processes with crash/hang attribution, replay files, known-findings matching"},
        ],
        "checks": checks,
        "not_applicable": na,
        "notes": "All checks rebuild the harness against /repo's working tree with -tags verif on every invocation (./run.sh). Exit 0 = held on everything explored; exit 1 + VIOLATION lines otherwise; exit 2 + BUILD-FAILED if /repo does not compile. Known findings: /verif/KNOWN_FINDINGS.txt.",
    }
    json.dump(m, open('/verif/MANIFEST.json','w'), indent=1)
    print("MANIFEST.json written:", len(checks), "checks,", len(na), "not_applicable")

if __name__ == '__main__':
    main()
