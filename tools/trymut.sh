#!/bin/bash
# usage: tools/trymut.sh <patch.diff> <Cxx> [Cxx...]
# Applies a property-breaking patch to /repo, confirms the repository's own tests still pass,
# runs the given checks (quick tier), and reverts /repo. Prints one line per check.
set -u
cd /verif; . ./env.sh
# runs against a changed tree must not leave their evidence behind
rm -rf .build/evidence.keep; cp -r evidence .build/evidence.keep 2>/dev/null
restore_evidence() { if [ -d .build/evidence.keep ]; then rm -rf evidence; mv .build/evidence.keep evidence; fi; }
P="$1"; shift
git -C /repo diff --quiet || { echo "repo dirty"; exit 2; }
git -C /repo apply "$P" || { echo "patch does not apply"; exit 2; }
trap 'git -C /repo checkout -- . ; git -C /repo clean -fdq; restore_evidence' EXIT
if (cd /repo && go build ./... && go test -vet=off -count=1 ./... >/tmp/trymut.test 2>&1); then echo "baseline tests: PASS (mutant survives the suite)"; else echo "baseline tests: FAIL (mutant is caught by the suite)"; tail -5 /tmp/trymut.test; fi
for c in "$@"; do
  out=$(VERIF_TIER=${VERIF_TIER:-quick} ./run.sh $c ${VERIF_TIER:-quick} 2>&1); rc=$?
  echo "$c rc=$rc $(echo "$out" | grep -c '^VIOLATION') violation line(s); first: $(echo "$out" | grep '^VIOLATION' | head -1 | cut -c1-260)"
  echo "$out" | grep -E "BUILD-FAILED|SUMMARY" | cut -c1-200
done
