#!/usr/bin/env python3
"""Merges the report of the supplementary race-detector pass (.build/<id>.racepass.json) into evidence/<id>.json."""
import json, sys, os
cid = sys.argv[1]
root = os.environ.get("VERIF_ROOT", os.path.dirname(os.path.dirname(os.path.abspath(__file__))))
src = os.path.join(root, ".build", cid + ".racepass.json")
dst = os.path.join(root, "evidence", cid + ".json")
if not (os.path.exists(src) and os.path.exists(dst)):
    sys.exit(0)
rp = json.load(open(src)); ev = json.load(open(dst))
cov = rp.get("coverage", {})
ev.setdefault("coverage", {})["supplementary_race_detector_pass"] = {
    "what": "the scenario bodies of this check on real goroutines (free-running, 150 repetitions per scenario) in a binary built with -race and without the controlled scheduler; a detector report ends the worker and is confirmed by re-running the scenario in isolation; sampling - an addition to the exhaustive exploration, not part of its coverage statement",
    "scenarios": cov.get("evaluations"), "free_running_executions": rp.get("states_explored", cov.get("states")),
    "violations": rp.get("violations", cov.get("violations")), "result": rp.get("result"),
}
json.dump(ev, open(dst, "w"), indent=1); open(dst, "a").write("\n")
