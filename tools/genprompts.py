#!/usr/bin/env python3
"""usage: tools/genprompts.py <first-number> <Cxx> [<Cxx> ...]
Writes /tmp/seed-Cxx/prompt<first>.txt (and property.txt) for a seeding sub-agent that shall produce the mutants
m<first> and m<first+1> of property Cxx. The prompt holds ONLY the property text, the working rules and one-line
descriptions of the changes earlier agents made for that property (so that the new ones differ); nothing of /verif.
The template is tools/agent_prompt.txt."""
import json, os, sys, glob
first = int(sys.argv[1]); ids = sys.argv[2:]
here = os.path.dirname(os.path.abspath(__file__))
tmpl = open(os.path.join(here, 'agent_prompt.txt')).read()
props = {}
for l in open(os.path.join(here, '..', 'properties.jsonl')):
    d = json.loads(l); props[d['id']] = d
for pid in ids:
    p = props[pid]
    text = f"{pid} — {p['title']}\n\nStatement: {p['statement']}\n\nQuantifier: {p['quantifier']['text']}\n"
    sd = f"/tmp/seed-{pid}"; os.makedirs(sd, exist_ok=True)
    open(f"{sd}/property.txt", 'w').write(text)
    s = tmpl.replace('PROPERTY_TEXT', text).replace('demo_cXX_', 'demo_' + pid.lower() + '_').replace('CXX', pid)
    s = s.replace('{1,2}', '{%d,%d}' % (first, first + 1))
    avoid = []
    for mdir in sorted(glob.glob(os.path.join(here, '..', 'seeded', pid + '-m*')), key=lambda x: int(x.rsplit('-m', 1)[1])):
        try:
            avoid.append(json.load(open(os.path.join(mdir, 'meta.json')))['summary'][:220])
        except Exception:
            pass
    s += f"\n\nName the two mutants m{first} and m{first+1} (directories {sd}/m{first} and {sd}/m{first+1}, tests TestDemo{pid}m{first} and TestDemo{pid}m{first+1}). Lower-numbered directories hold earlier work: do not read or change them.\n\n"
    s += ("These changes were already made by others for this property (descriptions shortened); do NOT repeat them or close variants. "
          "Choose different mechanisms, different files and functions, and parts of the property statement (read every clause of it, and the quantifier) "
          "that these earlier changes did not touch. Prefer rarely exercised API entry points, option combinations, value kinds (named types, pointers, "
          "interfaces, []any, typed nils) and construct combinations. If while reading the code you notice behaviour of the UNCHANGED library that already "
          "contradicts the property, mention it at the end of your report (one line each, with the input):\n")
    for a in avoid:
        s += " - " + a.replace('\n', ' ') + "\n"
    open(f"{sd}/prompt{first}.txt", 'w').write(s)
    print(pid, len(avoid), 'earlier changes listed')
