#!/bin/bash
# usage: tools/evalseed.sh <Cxx> <mN> [check ids to run, default Cxx]
# Confirms a sub-agent's seeded change in a scratch worktree (suite passes with it, demo fails with it and passes
# without it), runs the given checks against it in /repo (applied, then reverted) and files it under /verif/seeded/.
set -u
cd /verif; . ./env.sh
# runs against a changed tree must not leave their evidence behind
rm -rf .build/evidence.keep; cp -r evidence .build/evidence.keep 2>/dev/null
restore_evidence() { if [ -d .build/evidence.keep ]; then rm -rf evidence; mv .build/evidence.keep evidence; fi; }
P=$1; M=$2; shift 2
CHECKS="${*:-$P}"
SRC=/tmp/seed-$P/$M
ID=$P-$M
[ -f $SRC/patch.diff ] || { echo "no patch in $SRC"; exit 2; }
WT=$(mktemp -d /tmp/evalwt.XXXXXX); rmdir $WT
git -C /repo worktree add -q --detach $WT HEAD || exit 2
cleanup() { git -C /repo worktree remove --force $WT 2>/dev/null; rm -rf $WT; }
trap cleanup EXIT
lc=$(echo $P | tr 'A-Z' 'a-z'); demo=demo_${lc}_${M}_test.go
cp $SRC/demo_test.go $WT/$demo
res_clean=$(cd $WT && go test -vet=off -count=1 -run "TestDemo${P}${M}" . 2>&1 | tail -1)
if ! git -C $WT apply $SRC/patch.diff 2>/tmp/evalseed.err; then echo "$ID: patch does not apply: $(cat /tmp/evalseed.err | head -2)"; exit 3; fi
res_demo=$(cd $WT && go test -vet=off -count=1 -run "TestDemo${P}${M}" . 2>&1 | tail -1)
rm $WT/$demo
res_suite=$(cd $WT && go test -vet=off -count=1 ./... 2>&1 | tail -1)
echo "$ID: demo on clean tree: $res_clean"
echo "$ID: demo with patch:    $res_demo"
echo "$ID: suite with patch:   $res_suite"
ok=1
case "$res_clean" in ok*) ;; *) ok=0;; esac
case "$res_demo" in FAIL*|*FAIL*) ;; *) ok=0;; esac
case "$res_suite" in ok*) ;; *) ok=0;; esac
cleanup; trap - EXIT
if [ $ok = 0 ]; then echo "$ID: NOT CONFIRMED (not kept)"; exit 4; fi
# run the checks against it
git -C /repo diff --quiet || { echo "repo dirty"; exit 2; }
git -C /repo apply $SRC/patch.diff || exit 3
trap 'git -C /repo checkout -- . ; git -C /repo clean -fdq; restore_evidence' EXIT
results=""
for c in $CHECKS; do
  out=$(./run.sh $c quick 2>&1); rc=$?
  nv=$(echo "$out" | grep -c '^VIOLATION')
  first=$(echo "$out" | grep '^VIOLATION' | head -1 | cut -c1-400)
  echo "$ID: check $c rc=$rc violations=$nv :: $first"
  results="$results{\"check\":\"$c\",\"tier\":\"quick\",\"exit\":$rc,\"violation_lines\":$nv},"
done
git -C /repo checkout -- . ; git -C /repo clean -fdq; restore_evidence; trap - EXIT
mkdir -p seeded/$ID
cp $SRC/patch.diff seeded/$ID/patch.diff
cp $SRC/demo_test.go seeded/$ID/demo_test.go
python3 - "$SRC/meta.json" "seeded/$ID/meta.json" "$ID" "$res_clean" "$res_demo" "$res_suite" "[${results%,}]" <<'PY'
import json,sys
src,dst,idv,rc,rd,rs,res=sys.argv[1:8]
try: m=json.load(open(src))
except Exception as e: m={"note":"agent meta unreadable: %s"%e}
m["id"]=idv
m["confirmed_by_me"]={"demo_on_clean_tree":rc,"demo_with_patch":rd,"repository_suite_with_patch":rs,
  "how":"scratch git worktree of /repo HEAD under /tmp (removed afterwards): go test -run TestDemo... before and after `git apply patch.diff`, then the full suite with the patch"}
m["checks_run"]=json.loads(res)
json.dump(m,open(dst,"w"),indent=1)
PY
echo "$ID: kept in /verif/seeded/$ID"
