#!/bin/bash
# setup_cmd: warm the Go build cache offline and build the harness once.
set -u
cd "$(dirname "$0")"
. ./env.sh
mkdir -p .build evidence replays
cp /repo/go.sum mc/go.sum 2>/dev/null || true
(cd mc && go build -tags verif -o ../.build/mc ./cmd/mc) || { echo "setup: harness build failed"; exit 1; }
# instrumenter + instrumented harness (C04/C05/C20): warms the cache for the overlay build as well
(cd instr && go build -o ../.build/instr .) || { echo "setup: instrumenter build failed"; exit 1; }
OV=$(mktemp -d /tmp/verif-overlay.XXXXXX)
.build/instr -repo /repo -shim "$PWD/shim/vsched" -out "$OV" -mode full >/dev/null && \
  (cd mc && go build -tags verif,verifinst -overlay "$OV/overlay.json" -o ../.build/mc-inst ./cmd/mc) || echo "setup: instrumented build failed (checks will retry/degrade)"
# race-detector build of the harness (supplementary pass of C05/C20): warms the cache; needs cgo
mkdir -p "$OV/none" && .build/instr -repo /repo -shim "$PWD/shim/vsched" -out "$OV/none" -mode none >/dev/null && \
  (cd mc && CGO_ENABLED=1 go build -race -tags verif,verifinst -overlay "$OV/none/overlay.json" -o ../.build/mc-race ./cmd/mc) || echo "setup: race-detector build failed (the supplementary pass will be skipped)"
python3 -c "import shutil,sys; shutil.rmtree(sys.argv[1], ignore_errors=True)" "$OV"
echo "setup ok"
