#!/bin/bash
# setup_cmd: warm the Go build cache offline and build the harness once.
set -u
cd "$(dirname "$0")"
. ./env.sh
mkdir -p .build evidence replays
cp /repo/go.sum mc/go.sum 2>/dev/null || true
(cd mc && go build -tags verif -o ../.build/mc ./cmd/mc) || { echo "setup: harness build failed"; exit 1; }
echo "setup ok"
