#!/bin/bash
# usage: runall.sh [quick|thorough] : runs every check, prints one summary line each
cd "$(dirname "$0")"
T=${1:-quick}
for c in C01 C02 C03 C04 C05 C06 C07 C08 C09 C10 C11 C12 C13 C14 C15 C16 C17 C18 C19 C20; do
  s=$(date +%s.%N)
  out=$(./run.sh $c $T 2>&1); rc=$?
  e=$(date +%s.%N)
  printf "%s rc=%d %.0fs %s\n" $c $rc $(echo "$e - $s" | bc) "$(echo "$out" | grep -E '^SUMMARY|BUILD-FAILED|TOOL-FAILURE' | cut -c1-230)"
  echo "$out" | grep -E '^VIOLATION' | head -3 | cut -c1-300
done
