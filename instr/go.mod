module verifinstr

go 1.23
