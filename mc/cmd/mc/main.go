// Command mc is the model-checking harness for the pongo2 properties.
package main

import (
	"flag"
	"fmt"
	"os"
	"strconv"
	"strings"
	"time"

	_ "verifmc/checks"
	"verifmc/internal/eng"
)

func main() {
	if len(os.Args) < 2 {
		fmt.Fprintln(os.Stderr, "usage: mc check <id> [--tier quick|thorough] | worker ... | replay <file> | isolated | list")
		os.Exit(2)
	}
	exe, _ := os.Executable()
	switch os.Args[1] {
	case "list":
		for _, id := range eng.CheckIDs() {
			fmt.Println(id, eng.Lookup(id).Title)
		}
	case "check":
		fs := flag.NewFlagSet("check", flag.ExitOnError)
		tier := fs.String("tier", envOr("VERIF_TIER", "quick"), "")
		seed := fs.Int64("seed", envInt("VERIF_SEED", 0), "")
		workers := fs.Int("workers", int(envInt("VERIF_WORKERS", 0)), "")
		id := os.Args[2]
		fs.Parse(os.Args[3:])
		os.Exit(eng.RunParent(eng.ParentOpts{CheckID: id, Tier: *tier, Seed: *seed, Workers: *workers, Exe: exe}))
	case "worker":
		fs := flag.NewFlagSet("worker", flag.ExitOnError)
		tier := fs.String("tier", "quick", "")
		seed := fs.Int64("seed", 0, "")
		shard := fs.Int("shard", 0, "")
		of := fs.Int("of", 1, "")
		status := fs.String("status", "", "")
		deadline := fs.Int64("deadline", 0, "")
		only := fs.Uint64("only", 0, "")
		skip := fs.String("skip", "", "")
		id := os.Args[2]
		fs.Parse(os.Args[3:])
		chk := eng.Lookup(id)
		if chk == nil {
			fmt.Fprintln(os.Stderr, "unknown check", id)
			os.Exit(2)
		}
		r := eng.NewRunner(*tier, *seed, *shard, *of)
		r.Exe = exe
		if *deadline > 0 {
			r.SetDeadline(time.Unix(*deadline, 0))
		}
		if *only > 0 {
			r.OnlySet, r.Only = true, *only
		}
		if *skip != "" {
			r.SkipSet = map[uint64]bool{}
			for _, s := range strings.Split(*skip, ",") {
				n, _ := strconv.ParseUint(s, 10, 64)
				r.SkipSet[n] = true
			}
		}
		os.Exit(eng.RunWorker(chk, r, *status))
	case "replay":
		os.Exit(eng.RunReplayCmd(os.Args[2]))
	case "isolated":
		os.Exit(eng.RunIsolated())
	default:
		fmt.Fprintln(os.Stderr, "unknown command", os.Args[1])
		os.Exit(2)
	}
}

func envOr(k, d string) string {
	if v := os.Getenv(k); v != "" {
		return v
	}
	return d
}

func envInt(k string, d int64) int64 {
	if v := os.Getenv(k); v != "" {
		if n, err := strconv.ParseInt(v, 10, 64); err == nil {
			return n
		}
	}
	return d
}
