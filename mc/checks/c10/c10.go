// Package c10: inheritance - the most-derived block wins, Super reaches the parent.
package c10

import (
	"bytes"
	"fmt"
	"sort"
	"strings"

	"github.com/flosch/pongo2/v6"

	"verifmc/internal/eng"
	"verifmc/internal/px"
)

type Render struct {
	Name string `json:"name"`
	Want eng.Q  `json:"want"`
}

type Case struct {
	Files   map[string]string `json:"files"`
	Renders []Render          `json:"renders"` // compiled and rendered in this order, in one set
	Label   string            `json:"label"`
}

func (c *Case) ID() string {
	var names []string
	for k := range c.Files {
		names = append(names, k)
	}
	sort.Strings(names)
	var b strings.Builder
	for _, n := range names {
		fmt.Fprintf(&b, "%s=%q ", n, c.Files[n])
	}
	for _, r := range c.Renders {
		b.WriteString(r.Name + ",")
	}
	return b.String()
}

func ctx() pongo2.Context { return pongo2.Context{"yes": true, "no": false, "l": []int{1, 2}} }

func (c *Case) Exec(t *eng.T) {
	t.Nontrivial()
	set, _ := px.NewSet(c.Files)
	var outs []string
	for i, r := range c.Renders {
		tpl, out := px.CompileFile(set, r.Name)
		if tpl == nil {
			t.Fail("inherit:compile", "%s: %s does not compile: %s [%s]", c.Label, r.Name, out, c.ID())
			return
		}
		o := px.Exec(tpl, ctx())
		outs = append(outs, o.String())
		if o.Failed() {
			t.Fail("inherit:error", "%s: rendering %s fails: %s [%s]", c.Label, r.Name, o, c.ID())
			return
		}
		if o.S != string(r.Want) {
			cls := "output"
			if i > 0 && r.Name == "/t0" {
				cls = "parent-affected-by-children"
			}
			t.Fail("inherit:"+cls+":"+c.Label, "%s: rendering %s (step %d of %v) gives %q, reference %q [%s]", c.Label, r.Name, i+1, c.renderNames(), o.S, string(r.Want), c.ID())
			return
		}
		if i > 0 {
			continue
		}
		// the other ways of rendering the same template: the unbuffered variant into a writer that takes strings,
		// and pulled into another template by include / ssi parsed
		var buf bytes.Buffer
		var uerr error
		if site, msg, pan := eng.Protect(func() { uerr = tpl.ExecuteWriterUnbuffered(ctx(), &buf) }); pan || uerr != nil || buf.String() != o.S {
			t.Fail("inherit:route-unbuffered:"+c.Label, "%s: ExecuteWriterUnbuffered of %s gives %q (error %v, panic %s %s); Execute gives %q [%s]", c.Label, r.Name, buf.String(), uerr, site, msg, o.S, c.ID())
			return
		}
		via := "<{% include \"" + r.Name + "\" %}|{% ssi \"" + r.Name + "\" parsed %}|{% include name %}>"
		wt, wout := px.Compile(set, via)
		if wt == nil {
			t.Fail("inherit:route-compile:"+c.Label, "%s: %s does not compile: %s [%s]", c.Label, via, wout, c.ID())
			return
		}
		wc := ctx()
		wc["name"] = r.Name
		if wo := px.Exec(wt, wc); wo.Failed() || wo.S != "<"+o.S+"|"+o.S+"|"+o.S+">" {
			t.Fail("inherit:route-pulled-in:"+c.Label, "%s: %s renders %s; Execute of %s gives %q [%s]", c.Label, via, wo, r.Name, o.S, c.ID())
			return
		}
	}
	t.Outcome(strings.Join(outs, "|"))
}

func (c *Case) renderNames() []string {
	var n []string
	for _, r := range c.Renders {
		n = append(n, r.Name)
	}
	return n
}

// ---- ExecuteBlocks: the most-derived definition of each requested block ----

type BlocksCase struct {
	Files  map[string]string `json:"files"`
	Leaf   string            `json:"leaf"`
	Blocks []string          `json:"blocks"`
	Want   map[string]string `json:"want"`
	Label  string            `json:"label"`
}

func (c *BlocksCase) ID() string {
	return fmt.Sprintf("ExecuteBlocks %s %v %v", c.Label, c.Blocks, c.Files)
}

func (c *BlocksCase) Exec(t *eng.T) {
	t.Nontrivial()
	set, _ := px.NewSet(c.Files)
	tpl, out := px.CompileFile(set, c.Leaf)
	if tpl == nil {
		t.Fail("blocks:harness", "%s does not compile: %s", c.ID(), out)
		return
	}
	var res map[string]string
	var err error
	site, msg, pan := eng.Protect(func() { res, err = tpl.ExecuteBlocks(ctx(), c.Blocks) })
	t.Outcome(fmt.Sprint(res, err, pan))
	if pan {
		t.Fail("blocks:panic", "%s panics: %s (%s)", c.ID(), msg, site)
		return
	}
	if err != nil {
		t.Fail("blocks:error", "%s fails: %v", c.ID(), err)
		return
	}
	for _, b := range c.Blocks {
		if _, wanted := c.Want[b]; !wanted {
			if got, ok := res[b]; ok {
				t.Fail("blocks:unknown-block-rendered:"+c.Label, "%s: block %q, which no template of the chain defines, is in the result (%q)", c.ID(), b, got)
				return
			}
			continue
		}
		if got, ok := res[b]; !ok || got != c.Want[b] {
			t.Fail("blocks:most-derived:"+c.Label, "%s: block %q renders %q (present %v), the most-derived definition renders %q", c.ID(), b, got, ok, c.Want[b])
			return
		}
	}
	// the full rendering still follows the same resolution
	if o := px.Exec(tpl, ctx()); o.Failed() {
		t.Fail("blocks:error", "%s: Execute after ExecuteBlocks fails: %s", c.ID(), o)
	}
}

// ---- invalid shapes ----

// SuperCtxCase: what a definition renders does not depend on whether it is the most-derived one or reached through
// block.Super of a more-derived one: a leaf that only wraps Super renders exactly the middle template's output.
type SuperCtxCase struct {
	Mid   string `json:"mid"`   // body of the middle template's definition of block c (uses block.Super)
	Depth int    `json:"depth"` // number of wrapping levels above the middle template (1..3)
	// Want: what the middle template renders (the parent's definition is rendered where Super is written: in the
	// escaping mode and with the variables in force there); "" = only the comparison between the depths
	Want string `json:"want,omitempty"`
}

func (c *SuperCtxCase) ID() string {
	return fmt.Sprintf("super-context depth=%d mid=%q", c.Depth, c.Mid)
}

func (c *SuperCtxCase) Exec(t *eng.T) {
	t.Nontrivial()
	files := map[string]string{
		"/base": `{% block c %}<p>{{ v }}{{ w }}</p>{% endblock %}`,
		"/mid":  `{% extends "base" %}{% block c %}` + c.Mid + `{% endblock %}`,
	}
	prev := "mid"
	for i := 1; i <= c.Depth; i++ {
		name := fmt.Sprintf("leaf%d", i)
		files["/"+name] = `{% extends "` + prev + `" %}{% block c %}[{{ block.Super }}]{% endblock %}`
		prev = name
	}
	cx := func() pongo2.Context {
		return pongo2.Context{"v": "<b>&", "w": "'w'", "l": []string{"<1>", "<2>"}, "yes": true}
	}
	set, _ := px.NewSet(files)
	midT, o1 := px.CompileFile(set, "/mid")
	leafT, o2 := px.CompileFile(set, "/"+prev)
	if midT == nil || leafT == nil {
		t.Fail("super-context:compile", "%s does not compile: %s %s", c.ID(), o1, o2)
		return
	}
	m, l := px.Exec(midT, cx()), px.Exec(leafT, cx())
	t.Outcome(m.String())
	if c.Want != "" && (m.Failed() || m.S != c.Want) {
		t.Fail("super-context:output", "%s: the middle template renders %s, want %q", c.ID(), m, c.Want)
		return
	}
	want := strings.Repeat("[", c.Depth) + m.S + strings.Repeat("]", c.Depth)
	if m.Failed() || l.Failed() || l.S != want {
		t.Fail("super-context:depends-on-depth", "%s: the middle template renders %s; wrapped %d time(s) by [{{ block.Super }}] it renders %s, want %q", c.ID(), m, c.Depth, l, want)
	}
}

type BadCase struct {
	Files map[string]string `json:"files"`
	Label string            `json:"label"`
}

func (c *BadCase) ID() string { return c.Label + " " + c.Files["/main"] }

func (c *BadCase) Exec(t *eng.T) {
	t.Nontrivial()
	set, _ := px.NewSet(c.Files)
	tpl, out := px.CompileFile(set, "/main")
	t.Outcome(out.Kind())
	if out.Panic != "" {
		t.Fail("inherit-invalid:panic:"+c.Label, "%s panics: %s", c.ID(), out.PanicMsg)
		return
	}
	if tpl != nil {
		o := px.Exec(tpl, ctx())
		t.Fail("inherit-invalid:accepted:"+c.Label, "%s compiles (and renders %s); the property requires a compile error", c.ID(), o)
	}
}

// ---- model ----

type def struct {
	empty  bool // a definition with a completely empty body: it still is the definition that counts
	super  bool
	nested string // name of a NEW block introduced inside this definition ("" = none)
	loopI  bool   // prints {{ i }} (block lives in a for body)
}

type level struct {
	defs map[string]*def
	junk bool
}

type chain struct {
	// superForm: how a definition "with Super" spells it: 0 <{{ block.Super }}>, 1 twice in one definition,
	// 2 tested in an if before it is printed
	superForm int
	// blocksFirst: child templates write their block definitions BEFORE the extends tag (extends only has to be at
	// root level, not first)
	blocksFirst bool
	// superAfter: a definition that both nests a new block and uses Super writes the nested block FIRST
	superAfter bool
	shape      string
	levels     []*level // levels[0] = base
}

func superSrc(form int) string {
	switch form {
	case 1:
		return "<{{ block.Super }}+{{ block.Super }}>"
	case 2:
		return "{% if block.Super %}<{{ block.Super }}>{% else %}<>{% endif %}"
	}
	return "<{{ block.Super }}>"
}

func superRef(form int, parent string) string {
	if form == 1 {
		return "<" + parent + "+" + parent + ">"
	}
	return "<" + parent + ">"
}

func (d *def) src(name string, lv int, form int, nestedBody func(string) string) string {
	return d.srcOrd(name, lv, form, false, nestedBody)
}

func (d *def) srcOrd(name string, lv int, form int, superAfter bool, nestedBody func(string) string) string {
	if superAfter && d.super && d.nested != "" && !d.empty {
		var b strings.Builder
		fmt.Fprintf(&b, "{%% block %s %%}%s%d", name, name, lv)
		if d.loopI {
			b.WriteString("{{ i }}")
		}
		b.WriteString("(" + nestedBody(d.nested) + ")")
		b.WriteString(superSrc(form))
		fmt.Fprintf(&b, "{%% endblock %%}")
		return b.String()
	}
	var b strings.Builder
	if d.empty {
		return fmt.Sprintf("{%% block %s %%}{%% endblock %%}", name)
	}
	fmt.Fprintf(&b, "{%% block %s %%}%s%d", name, name, lv)
	if d.loopI {
		b.WriteString("{{ i }}")
	}
	if d.super {
		b.WriteString(superSrc(form))
	}
	if d.nested != "" {
		b.WriteString("(" + nestedBody(d.nested) + ")")
	}
	fmt.Fprintf(&b, "{%% endblock %%}")
	return b.String()
}

// source of every file of the chain
func (c *chain) files() map[string]string {
	files := map[string]string{}
	for lv, L := range c.levels {
		// blocks defined at this level that are nested inside another definition of the same level
		nestedIn := map[string]bool{}
		for _, d := range L.defs {
			if d.nested != "" {
				nestedIn[d.nested] = true
			}
		}
		var defSrc func(name string) string
		defSrc = func(name string) string {
			return L.defs[name].srcOrd(name, lv, c.superForm, c.superAfter, defSrc)
		}
		var b strings.Builder
		if lv == 0 {
			a := defSrc("a")
			switch c.shape {
			case "top":
				b.WriteString("[" + a + "|")
			case "nested":
				// block o contains block a
				b.WriteString("[{% block o %}o0:" + a + ";{% endblock %}|")
			case "if":
				b.WriteString("[{% if yes %}" + a + "{% else %}NO{% endif %}|")
			case "if-false":
				b.WriteString("[{% if no %}" + a + "{% else %}NO{% endif %}|")
			case "for":
				b.WriteString("[{% for i in l %}" + a + ";{% endfor %}|")
			}
			b.WriteString(defSrc("b") + "]")
		} else {
			if !c.blocksFirst {
				fmt.Fprintf(&b, "{%% extends \"t%d\" %%}", lv-1)
			}
			if L.junk {
				b.WriteString("JUNK{% set z = 1 %}{{ 7 }}")
			}
			var names []string
			for n := range L.defs {
				names = append(names, n)
			}
			sort.Strings(names)
			for _, n := range names {
				if nestedIn[n] {
					continue
				}
				b.WriteString(defSrc(n))
				if L.junk {
					b.WriteString("\n")
				}
			}
			if c.blocksFirst {
				fmt.Fprintf(&b, "{%% extends \"t%d\" %%}", lv-1)
			}
		}
		files[fmt.Sprintf("/t%d", lv)] = b.String()
	}
	return files
}

// reference rendering of the template at level j
func (c *chain) render(j int) string {
	var renderBlock func(name string, k int, i string) string
	definers := func(name string) []int {
		var ls []int
		for lv := 0; lv <= j; lv++ {
			if c.levels[lv].defs[name] != nil {
				ls = append(ls, lv)
			}
		}
		return ls
	}
	renderBlock = func(name string, k int, i string) string {
		ds := definers(name)
		if k < 0 {
			k = len(ds) - 1
		}
		if len(ds) == 0 || k >= len(ds) {
			return ""
		}
		lv := ds[k]
		d := c.levels[lv].defs[name]
		var b strings.Builder
		if d.empty {
			return ""
		}
		fmt.Fprintf(&b, "%s%d", name, lv)
		if d.loopI {
			b.WriteString(i)
		}
		superPart := ""
		if d.super {
			parent := ""
			if k > 0 {
				parent = renderBlock(name, k-1, i)
			}
			superPart = superRef(c.superForm, parent)
		}
		if c.superAfter && d.super && d.nested != "" {
			b.WriteString("(" + renderBlock(d.nested, -1, i) + ")" + superPart)
		} else {
			b.WriteString(superPart)
			if d.nested != "" {
				b.WriteString("(" + renderBlock(d.nested, -1, i) + ")")
			}
		}
		return b.String()
	}
	var b strings.Builder
	switch c.shape {
	case "top":
		b.WriteString("[" + renderBlock("a", -1, "") + "|")
	case "nested":
		// o is a block too (may be overridden); its base body contains a
		ds := definers("o")
		_ = ds
		b.WriteString("[" + c.renderO(j, renderBlock) + "|")
	case "if":
		b.WriteString("[" + renderBlock("a", -1, "") + "|")
	case "if-false":
		b.WriteString("[NO|")
	case "for":
		b.WriteString("[" + renderBlock("a", -1, "1") + ";" + renderBlock("a", -1, "2") + ";|")
	}
	b.WriteString(renderBlock("b", -1, "") + "]")
	return b.String()
}

// block o of the "nested" shape: base body "o0{" + a + "}", children may override o (def/super only)
func (c *chain) renderO(j int, renderBlock func(string, int, string) string) string {
	var ls []int
	for lv := 0; lv <= j; lv++ {
		if lv == 0 || c.levels[lv].defs["o"] != nil {
			ls = append(ls, lv)
		}
	}
	var rec func(k int) string
	rec = func(k int) string {
		lv := ls[k]
		if lv == 0 {
			return "o0:" + renderBlock("a", -1, "") + ";"
		}
		d := c.levels[lv].defs["o"]
		s := fmt.Sprintf("o%d", lv)
		if d.super {
			s += superRef(c.superForm, rec(k-1))
		}
		return s
	}
	return rec(len(ls) - 1)
}

func run(r *eng.Runner) {
	// up to wide children every known block takes every option; deeper levels only vary block a (and a nested block, if any)
	wide, maxChildren := 2, 4
	if !r.Quick() {
		wide, maxChildren = 3, 4
	}
	formDepth := 3 // chains of up to this many templates are also run with block.Super used twice / tested in an if
	if !r.Quick() {
		formDepth = 4
	}
	shapes := []string{"top", "nested", "if", "if-false", "for"}
	r.Group("chains", "c10.case", fmt.Sprintf("all inheritance chains with 0..%d children (every option for every block up to depth %d, deeper levels vary block a and nested blocks only) over 5 base shapes (block at top level, nested in a block, in a true/false if branch, in a for body); per level every known block is absent / redefined / redefined with block.Super (block b also: redefined with an empty body) (chains of <=%d templates also with Super printed twice in one definition and with Super tested by an if), block a may introduce a new nested block; junk outside blocks; every template of the chain rendered, the base again after its children were compiled", maxChildren, wide, formDepth))
	type opt struct {
		present, super bool
		nested         bool
		empty          bool
	}
	wide0 := wide
	for _, shape := range shapes {
		wide = wide0
		if r.Quick() && shape != "top" && shape != "nested" {
			wide = 1 // the placement shapes differ in the base only: vary everything one level deep, then block a only
		}
		var rec func(c *chain, known []string)
		var emitForm func(c *chain)
		emit := func(c *chain) {
			files := c.files()
			n := len(c.levels)
			var renders []Render
			// leaf first (compiles the parents as private instances), then every level, then the base once more
			order := []int{n - 1}
			for j := 0; j < n; j++ {
				order = append(order, j)
			}
			order = append(order, 0)
			for _, j := range order {
				renders = append(renders, Render{Name: fmt.Sprintf("/t%d", j), Want: eng.Q(c.render(j))})
			}
			r.Do(&Case{Files: files, Renders: renders, Label: shape})
			// the same chain with Super written after the nested block of the same definition
			if c.superForm == 0 && !c.blocksFirst && !c.superAfter {
				both := false
				for _, L := range c.levels {
					for _, d := range L.defs {
						both = both || (d.super && d.nested != "" && !d.empty)
					}
				}
				if both {
					c2 := *c
					c2.superAfter = true
					emitForm(&c2)
				}
			}
			// the same chain with the block definitions written in front of the extends tags
			if c.superForm == 0 && !c.blocksFirst && !c.superAfter && n >= 2 && n <= formDepth {
				c2 := *c
				c2.blocksFirst = true
				emitForm(&c2)
			}
			// the same chain with the other spellings of Super (only where some definition uses it)
			if c.superForm == 0 && !c.blocksFirst && !c.superAfter && n <= formDepth {
				uses := false
				for _, L := range c.levels {
					for _, d := range L.defs {
						uses = uses || d.super
					}
				}
				if uses {
					for form := 1; form <= 2; form++ {
						c2 := *c
						c2.superForm = form
						emitForm(&c2)
					}
				}
			}
		}
		emitForm = emit
		rec = func(c *chain, known []string) {
			emit(c)
			if len(c.levels)-1 == maxChildren || r.Stopped() {
				return
			}
			lv := len(c.levels)
			// options per known name: absent / def / def+super ; for "a": additionally def + new nested block
			opts := make([][]opt, len(known))
			for i, n := range known {
				opts[i] = []opt{{}, {present: true}, {present: true, super: true}}
				if n == "b" && lv <= wide {
					opts[i] = append(opts[i], opt{present: true, empty: true}) // blanking an inherited block
				}
				if lv > wide {
					if n == "a" {
						opts[i] = []opt{{present: true}, {present: true, super: true}}
					} else if strings.HasPrefix(n, "n") {
						opts[i] = []opt{{}, {present: true, super: true}}
					} else {
						opts[i] = []opt{{}}
					}
					continue
				}
				if n == "a" && lv <= 2 {
					opts[i] = append(opts[i], opt{present: true, nested: true}, opt{present: true, super: true, nested: true})
				}
			}
			idx := make([]int, len(known))
			var loop func(p int)
			loop = func(p int) {
				if p == len(known) {
					L := &level{defs: map[string]*def{}, junk: lv%2 == 1}
					nk := append([]string{}, known...)
					any := false
					for i, n := range known {
						o := opts[i][idx[i]]
						if !o.present {
							continue
						}
						any = true
						d := &def{empty: o.empty, super: o.super, loopI: shape == "for" && (n == "a" || strings.HasPrefix(n, "n"))}
						if o.nested {
							nn := fmt.Sprintf("n%d", lv)
							d.nested = nn
							L.defs[nn] = &def{loopI: shape == "for", super: lv == 2} // a brand-new block using Super: nothing below it
							nk = append(nk, nn)
						}
						L.defs[n] = d
					}
					if !any && lv > 1 {
						return // an empty intermediate level adds nothing new beyond the first
					}
					c2 := &chain{shape: c.shape, levels: append(append([]*level{}, c.levels...), L)}
					rec(c2, nk)
					return
				}
				for i := range opts[p] {
					idx[p] = i
					loop(p + 1)
				}
			}
			loop(0)
		}
		// the base's own definitions may use block.Super as well (empty at the bottom)
		for baseSuper := 0; baseSuper < 4; baseSuper++ {
			if baseSuper > 0 && r.Quick() && shape != "top" && shape != "for" {
				continue
			}
			base := &level{defs: map[string]*def{"a": {loopI: shape == "for", super: baseSuper&1 != 0}, "b": {super: baseSuper&2 != 0}}}
			known := []string{"a", "b"}
			if shape == "nested" {
				known = append(known, "o")
			}
			if baseSuper > 0 {
				save := maxChildren
				maxChildren = 2
				rec(&chain{shape: shape, levels: []*level{base}}, known)
				maxChildren = save
				continue
			}
			rec(&chain{shape: shape, levels: []*level{base}}, known)
		}
	}

	r.Group("execute-blocks", "c10.blocks", "ExecuteBlocks on the leaf of 2- and 3-level chains, the requested blocks spread over the levels (also when the executed template defines none of them itself): a block whose most-derived definition renders nothing stays empty, an inherited block comes from the nearest ancestor that defines it")
	{
		base3 := "[{% block note %}N0{% endblock %}|{% block title %}T0{% endblock %}|{% block foot %}F0{% endblock %}]"
		cases := []BlocksCase{
			{Label: "empty-override", Leaf: "/leaf", Blocks: []string{"note", "title"}, Want: map[string]string{"note": "", "title": "T0"},
				Files: map[string]string{"/base": base3, "/leaf": `{% extends "base" %}{% block note %}{% if no %}x{% endif %}{% endblock %}`}},
			{Label: "empty-override-first", Leaf: "/leaf", Blocks: []string{"title", "note"}, Want: map[string]string{"note": "", "title": "T0"},
				Files: map[string]string{"/base": base3, "/leaf": `{% extends "base" %}{% block note %}{% endblock %}`}},
			{Label: "three-levels", Leaf: "/leaf", Blocks: []string{"note", "title", "foot"}, Want: map[string]string{"note": "N2", "title": "T1", "foot": "F0"},
				Files: map[string]string{"/base": base3, "/mid": `{% extends "base" %}{% block title %}T1{% endblock %}{% block note %}N1{% endblock %}`, "/leaf": `{% extends "mid" %}{% block note %}N2{% endblock %}`}},
			{Label: "three-levels-empty-middle", Leaf: "/leaf", Blocks: []string{"note", "title", "foot"}, Want: map[string]string{"note": "N2", "title": "", "foot": "F0"},
				Files: map[string]string{"/base": base3, "/mid": `{% extends "base" %}{% block title %}{% if no %}t{% endif %}{% endblock %}`, "/leaf": `{% extends "mid" %}{% block note %}N2{% endblock %}`}},
			// the executed template defines none of the requested blocks itself
			{Label: "none-in-leaf", Leaf: "/leaf", Blocks: []string{"title", "foot"}, Want: map[string]string{"title": "T0", "foot": "F0"},
				Files: map[string]string{"/base": base3, "/leaf": `{% extends "base" %}{% block note %}n{% endblock %}`}},
			{Label: "leaf-without-blocks", Leaf: "/leaf", Blocks: []string{"note"}, Want: map[string]string{"note": "N1"},
				Files: map[string]string{"/base": base3, "/mid": `{% extends "base" %}{% block note %}N1{% endblock %}`, "/leaf": `{% extends "mid" %}`}},
			{Label: "only-in-base", Leaf: "/leaf", Blocks: []string{"foot", "nosuch"}, Want: map[string]string{"foot": "F0"},
				Files: map[string]string{"/base": base3, "/mid": `{% extends "base" %}{% block note %}N1{% endblock %}`, "/leaf": `{% extends "mid" %}{% block title %}t{% endblock %}`}},
			// Super inside the definitions that ExecuteBlocks renders
			{Label: "super-two-levels", Leaf: "/leaf", Blocks: []string{"note", "foot"}, Want: map[string]string{"note": "L(N0)", "foot": "F0"},
				Files: map[string]string{"/base": base3, "/leaf": `{% extends "base" %}{% block note %}L({{ block.Super }}){% endblock %}`}},
			{Label: "super-three-levels", Leaf: "/leaf", Blocks: []string{"title", "note"}, Want: map[string]string{"note": "L(M[N0])", "title": "T{T0}"},
				Files: map[string]string{"/base": base3, "/mid": `{% extends "base" %}{% block note %}M[{{ block.Super }}]{% endblock %}{% block title %}T{{ "{" }}{{ block.Super }}{{ "}" }}{% endblock %}`, "/leaf": `{% extends "mid" %}{% block note %}L({{ block.Super }}){% endblock %}`}},
			{Label: "super-at-the-base", Leaf: "/leaf", Blocks: []string{"foot"}, Want: map[string]string{"foot": "<>F0"},
				Files: map[string]string{"/base": "[{% block foot %}<{{ block.Super }}>F0{% endblock %}]", "/leaf": `{% extends "base" %}`}},
			{Label: "all-in-leaf", Leaf: "/leaf", Blocks: []string{"note", "title"}, Want: map[string]string{"note": "n", "title": "t"},
				Files: map[string]string{"/base": base3, "/leaf": `{% extends "base" %}{% block note %}n{% endblock %}{% block title %}t{% endblock %}`}},
		}
		for i := range cases {
			r.Do(&cases[i])
		}
		// every distribution of three blocks over a 3-level chain (the base defines all, the middle template and the
		// leaf any subset) x every non-empty set of requested blocks, in both orders
		names := []string{"note", "title", "foot"}
		for midMask := 0; midMask < 8; midMask++ {
			for leafMask := 0; leafMask < 8; leafMask++ {
				mid, leaf := `{% extends "base" %}`, `{% extends "mid" %}`
				want := map[string]string{"note": "N0", "title": "T0", "foot": "F0"}
				for i, n := range names {
					if midMask&(1<<i) != 0 {
						mid += "{% block " + n + " %}M" + n + "{% endblock %}"
						want[n] = "M" + n
					}
				}
				for i, n := range names {
					if leafMask&(1<<i) != 0 {
						leaf += "{% block " + n + " %}L" + n + "{% endblock %}"
						want[n] = "L" + n
					}
				}
				for req := 1; req < 8; req++ {
					var asked []string
					w := map[string]string{}
					for i, n := range names {
						if req&(1<<i) != 0 {
							asked = append(asked, n)
							w[n] = want[n]
						}
					}
					r.Do(&BlocksCase{Label: fmt.Sprintf("distribution-%d-%d", midMask, leafMask), Leaf: "/leaf", Blocks: asked, Want: w, Files: map[string]string{"/base": base3, "/mid": mid, "/leaf": leaf}})
					if len(asked) > 1 {
						rev := append([]string{}, asked...)
						for a, b := 0, len(rev)-1; a < b; a, b = a+1, b-1 {
							rev[a], rev[b] = rev[b], rev[a]
						}
						r.Do(&BlocksCase{Label: fmt.Sprintf("distribution-%d-%d", midMask, leafMask), Leaf: "/leaf", Blocks: rev, Want: w, Files: map[string]string{"/base": base3, "/mid": mid, "/leaf": leaf}})
					}
				}
			}
		}
	}

	r.Group("super-context", "c10.superctx", "a middle definition that uses block.Super inside / after constructs that change what the parent's definition sees (autoescape on/off, set before Super, with, for, if, macro, nested blocks), wrapped 1..3 times by definitions that only print [Super]: every wrapped rendering equals the middle template's own rendering in brackets")
	for _, mid := range []string{
		`{{ block.Super }}`, `{% autoescape off %}{{ block.Super }}{% endautoescape %}|{{ v }}`, `{% autoescape off %}{% autoescape on %}{{ block.Super }}{% endautoescape %}{{ block.Super }}{% endautoescape %}`,
		`{% set v = "<S>" %}{{ block.Super }}`, `{{ block.Super }}{% set v = "<S>" %}{{ block.Super }}|{{ v }}`, `{% with v="<W>" %}{{ block.Super }}{% endwith %}`, `{% for v in l %}{{ block.Super }}{% endfor %}`,
		`{% if yes %}{% set w = 1 %}{% endif %}{{ block.Super }}{{ w }}`, `{% macro mm() %}{{ block.Super }}{% endmacro %}{{ mm() }}`, `{% set s = block.Super %}{{ s }}{{ s }}`, `{% filter upper %}{{ block.Super }}{% endfilter %}`,
		`{% autoescape off %}{% set v = "<A>" %}{% endautoescape %}{{ block.Super }}`, `{% spaceless %}{{ block.Super }} {{ block.Super }}{% endspaceless %}`,
	} {
		want := map[string]string{
			`{{ block.Super }}`: `<p>&lt;b&gt;&amp;&#39;w&#39;</p>`,
			`{% autoescape off %}{{ block.Super }}{% endautoescape %}|{{ v }}`:                                                `<p><b>&'w'</p>|&lt;b&gt;&amp;`,
			`{% autoescape off %}{% autoescape on %}{{ block.Super }}{% endautoescape %}{{ block.Super }}{% endautoescape %}`: `<p>&lt;b&gt;&amp;&#39;w&#39;</p><p><b>&'w'</p>`,
			`{% set v = "<S>" %}{{ block.Super }}`:                                                                            `<p>&lt;S&gt;&#39;w&#39;</p>`,
			`{% autoescape off %}{% set v = "<A>" %}{% endautoescape %}{{ block.Super }}`:                                     `<p>&lt;A&gt;&#39;w&#39;</p>`,
		}[mid]
		for depth := 1; depth <= 3; depth++ {
			r.Do(&SuperCtxCase{Mid: mid, Depth: depth, Want: want})
		}
	}
	r.Group("invalid", "c10.bad", "invalid shapes: second extends, extends inside a block / if / for, duplicate block names (same level, nested, in a child), extends of a missing file, extends with a non-string argument")
	base := "B{% block a %}a0{% endblock %}"
	bads := map[string]string{
		"second-extends":            `{% extends "base" %}{% extends "base" %}`,
		"second-extends-other":      `{% extends "base" %}{% block a %}x{% endblock %}{% extends "base2" %}`,
		"extends-in-block":          `{% block a %}{% extends "base" %}{% endblock %}`,
		"extends-in-if":             `{% if yes %}{% extends "base" %}{% endif %}`,
		"extends-in-for":            `{% for i in l %}{% extends "base" %}{% endfor %}`,
		"duplicate-block":           `{% block a %}1{% endblock %}{% block a %}2{% endblock %}`,
		"duplicate-block-child":     `{% extends "base" %}{% block a %}1{% endblock %}{% block a %}2{% endblock %}`,
		"duplicate-nested":          `{% block a %}1{% block a %}2{% endblock %}{% endblock %}`,
		"duplicate-nested-deep":     `{% block a %}{% if yes %}{% block b %}{% endblock %}{% endif %}{% endblock %}{% block b %}{% endblock %}`,
		"extends-in-else":           `{% if no %}x{% else %}{% extends "base" %}{% endif %}`,
		"extends-in-elif":           `{% if no %}x{% elif yes %}{% extends "base" %}{% endif %}`,
		"extends-in-empty":          `{% for i in l %}x{% empty %}{% extends "base" %}{% endfor %}`,
		"extends-in-with":           `{% with z=1 %}{% extends "base" %}{% endwith %}`,
		"extends-in-macro":          `{% macro m() %}{% extends "base" %}{% endmacro %}`,
		"extends-in-filter":         `{% filter upper %}{% extends "base" %}{% endfilter %}`,
		"extends-in-autoescape":     `{% autoescape off %}{% extends "base" %}{% endautoescape %}`,
		"extends-in-spaceless":      `{% spaceless %}{% extends "base" %}{% endspaceless %}`,
		"extends-in-ifequal-else":   `{% ifequal 1 2 %}x{% else %}{% extends "base" %}{% endifequal %}`,
		"extends-in-ifchanged-else": `{% ifchanged 1 %}x{% else %}{% extends "base" %}{% endifchanged %}`,
		"extends-after-if":          `{% if yes %}x{% else %}y{% endif %}{% extends "base" %}{% extends "base" %}`,
		"extends-in-child-block":    `{% extends "base" %}{% block a %}{% extends "base2" %}{% endblock %}`,
		"duplicate-block-in-else":   `{% if yes %}{% block a %}1{% endblock %}{% else %}{% block a %}2{% endblock %}{% endif %}`,
		"extends-missing":           `{% extends "nofile" %}`,
		"extends-nonstring":         `{% extends base %}`,
		"extends-two-args":          `{% extends "base" "base2" %}`,
		"extends-no-arg":            `{% extends %}`,
	}
	var labels []string
	for k := range bads {
		labels = append(labels, k)
	}
	sort.Strings(labels)
	for _, l := range labels {
		r.Do(&BadCase{Files: map[string]string{"/main": bads[l], "/base": base, "/base2": base}, Label: l})
	}
}

func init() {
	eng.RegisterCase("c10.case", func() eng.Case { return &Case{} })
	eng.RegisterCase("c10.bad", func() eng.Case { return &BadCase{} })
	eng.RegisterCase("c10.superctx", func() eng.Case { return &SuperCtxCase{} })
	eng.RegisterCase("c10.blocks", func() eng.Case { return &BlocksCase{} })
	eng.Register(&eng.Check{
		ID:    "C10",
		Title: "Inheritance: the most-derived block wins, Super reaches the parent",
		Rule:  "bounded-exhaustive: every inheritance chain up to the depth bound in which each level leaves each known block absent, redefines it, or redefines it with block.Super (block a may also introduce a new nested block that later levels may override), over five placements of the block in the base document, served from an in-memory loader; every template of the chain is rendered (leaf first, then each level, then the base again) and compared with the reference resolution (most-derived definition, Super = next less-derived, empty at the bottom, junk outside blocks ignored). Plus the invalid shapes, which must be compile errors. All cases non-trivial.",
		Assumptions: []string{
			"reference resolution of DESIGN.md Appendix A.6",
		},
		Run: run,
	})
}
