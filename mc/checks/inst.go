//go:build verifinst

package checks

import (
	_ "verifmc/checks/c05"
	_ "verifmc/checks/c20"
)
