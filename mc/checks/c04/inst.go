//go:build verifinst

package c04

import "github.com/flosch/pongo2/v6"

// In the instrumented build the generated VerifPkgVars() exposes every package-level variable:
// they become part of the snapshotted state (a scratch buffer hoisted to package scope is then visible).
func init() {
	extraRoots = func() map[string]any {
		m := map[string]any{}
		for _, v := range pongo2.VerifPkgVars() {
			switch v.Name {
			case "logger", "DefaultLoader", "DefaultSet", "Globals", "FromString", "FromBytes", "FromFile", "FromCache", "RenderTemplateString", "RenderTemplateFile":
				continue // the default set and its bound methods: not touched by the harness' own sets
			}
			m["pkg."+v.Name] = v.Ptr
		}
		return m
	}
}
