// Package c04: compile once, render many - execution never alters the compiled template.
package c04

import (
	"errors"
	"fmt"
	"sort"
	"strings"
	"sync"

	"github.com/flosch/pongo2/v6"

	"verifmc/internal/deep"
	"verifmc/internal/eng"
	"verifmc/internal/enum"
	"verifmc/internal/px"
)

type Case struct {
	Files     map[string]string `json:"files"`
	Trim      bool              `json:"trim_blocks"`
	LStrip    bool              `json:"lstrip_blocks"`
	OptsAfter bool              `json:"opts_after_compile"` // options set on the compiled template instead of on the set
	History   []int             `json:"history"`            // indices into the context alphabet
	Label     string            `json:"label"`
}

func (c *Case) ID() string {
	var ks []string
	for k := range c.Files {
		ks = append(ks, k)
	}
	sort.Strings(ks)
	var b strings.Builder
	for _, k := range ks {
		fmt.Fprintf(&b, "%s=%q ", k, c.Files[k])
	}
	fmt.Fprintf(&b, "trim=%v lstrip=%v after=%v history=%v", c.Trim, c.LStrip, c.OptsAfter, c.History)
	return b.String()
}

var ctxNames = []string{"A", "B", "FAIL", "nil"}

// context functions with an implicit *ExecutionContext and 1..7 explicit arguments
func cf1(ctx *pongo2.ExecutionContext, a int) string { return fmt.Sprint("cf1:", a) }
func cf3(ctx *pongo2.ExecutionContext, a int, b string, c int) string {
	return fmt.Sprint("cf3:", a, b, c)
}
func cf5(ctx *pongo2.ExecutionContext, a, b, c, d, e int) string {
	return fmt.Sprint("cf5:", a, b, c, d, e)
}
func cf7(ctx *pongo2.ExecutionContext, a, b, c, d, e, f, g int) string {
	return fmt.Sprint("cf7:", a, b, c, d, e, f, g)
}
func cfv(ctx *pongo2.ExecutionContext, xs ...int) string { return fmt.Sprint("cfv:", xs) }

func withFuncs(c pongo2.Context) pongo2.Context {
	c["cf1"], c["cf3"], c["cf5"], c["cf7"], c["cfv"] = cf1, cf3, cf5, cf7, cfv
	c["f2"] = func(a, b int) int { return a + b }
	return c
}

func mkCtx(i int) pongo2.Context {
	if i < 3 {
		return withFuncs(mkCtxData(i))
	}
	return nil
}

func mkCtxData(i int) pongo2.Context {
	boom := func() (string, error) { return "", errors.New("injected failure") }
	switch i {
	case 0:
		return pongo2.Context{"l": []int{1, 2, 3}, "n": 1, "s": "a", "flag": true, "name": "inc", "failnow": false, "boom": boom}
	case 1:
		return pongo2.Context{"l": []int{5}, "n": 2, "s": "bb", "flag": false, "name": "inc2", "failnow": false, "boom": boom}
	case 2:
		return pongo2.Context{"l": []int{1, 2}, "n": 1, "s": "a", "flag": true, "name": "inc", "failnow": true, "boom": boom}
	}
	return nil
}

// vshared: a custom tag that uses ExecutionContext.Shared the way a tag may ("all ExecutionContexts share this
// context"): it records there what it has seen and prints what it finds. Shared is per execution (nil unless the
// execution was given one), so nothing of one execution may be found there by another.
type vsharedNode struct{}

func (vsharedNode) Execute(ctx *pongo2.ExecutionContext, w pongo2.TemplateWriter) *pongo2.Error {
	if ctx.Shared == nil {
		w.WriteString("[shared:nil]")
		return nil
	}
	k := fmt.Sprint("seen-", ctx.Public["n"])
	_, had := ctx.Shared[k]
	ctx.Shared[k] = true
	w.WriteString(fmt.Sprintf("[shared:%d %v]", len(ctx.Shared), had))
	return nil
}

var sharedFilterError = &pongo2.Error{Sender: "filter:vsharederr", OrigError: errors.New("text too short")}

func resetSharedError() {
	*sharedFilterError = pongo2.Error{Sender: "filter:vsharederr", OrigError: sharedFilterError.OrigError}
	*sharedTagError = pongo2.Error{Sender: "tag:vboom", OrigError: sharedTagError.OrigError}
}

var sharedTagError = &pongo2.Error{Sender: "tag:vboom", OrigError: errors.New("boom")}

type vboomNode struct{}

func (vboomNode) Execute(ctx *pongo2.ExecutionContext, w pongo2.TemplateWriter) *pongo2.Error {
	return sharedTagError
}

var regOnce sync.Once

func register() {
	regOnce.Do(func() {
		// a filter of the application that hands out ONE error object for all its failures
		pongo2.RegisterFilter("vsharederr", func(in, p *pongo2.Value) (*pongo2.Value, *pongo2.Error) {
			if in.Len() < 2 {
				return nil, sharedFilterError
			}
			return in, nil
		})
		// a tag of the application that fails with ONE error object
		pongo2.RegisterTag("vboom", func(doc *pongo2.Parser, start *pongo2.Token, args *pongo2.Parser) (pongo2.INodeTag, *pongo2.Error) {
			return vboomNode{}, nil
		})
		pongo2.RegisterTag("vshared", func(doc *pongo2.Parser, start *pongo2.Token, args *pongo2.Parser) (pongo2.INodeTag, *pongo2.Error) {
			return vsharedNode{}, nil
		})
	})
}

func (c *Case) compile() (*pongo2.Template, px.Out) {
	register()
	// two loaders: files whose name ends in "2" live behind the second one only, which also holds a shadow of every
	// other file (never served while the first loader is asked first)
	first, second := map[string]string{}, map[string]string{}
	for k, v := range c.Files {
		if strings.HasSuffix(k, "2") {
			second[k] = v
		} else {
			first[k] = v
			second[k] = "SHADOW-OF-" + k
		}
	}
	set := pongo2.NewSet("verif", px.NewMemLoader(first), px.NewMemLoader(second))
	SetGlobals(set)
	if !c.OptsAfter {
		set.Options.TrimBlocks = c.Trim
		set.Options.LStripBlocks = c.LStrip
	}
	tpl, out := px.CompileFile(set, "/main")
	if tpl != nil && c.OptsAfter {
		tpl.Options.TrimBlocks = c.Trim
		tpl.Options.LStripBlocks = c.LStrip
	}
	return tpl, out
}

// extraRoots is set by the instrumented build (package-level variables of pongo2).
var extraRoots func() map[string]any

func roots(tpl *pongo2.Template) map[string]any {
	return map[string]any{"tpl": tpl}
}

// package-level variables are snapshotted once before and once after the whole history
func pkgSnapshot() *deep.Snapshot {
	if extraRoots == nil {
		return nil
	}
	return deep.Take(extraRoots())
}

// blockNames are asked for by the ExecuteBlocks operations of a history (blocks that exist in some programs only)
var blockNames = []string{"c", "d", "b", "bb", "nosuch"}

// run performs one history entry: 0..3 = Execute with that context, 10..13 = ExecuteBlocks with context entry-10
func run1(tpl *pongo2.Template, entry int) string {
	if entry < 10 {
		return px.Exec(tpl, mkCtx(entry)).String()
	}
	var res map[string]string
	var err error
	site, msg, pan := eng.Protect(func() { res, err = tpl.ExecuteBlocks(mkCtx(entry-10), blockNames) })
	if pan {
		return "panic " + site + " " + msg
	}
	if err != nil {
		return "blocks-error " + err.Error()
	}
	var ks []string
	for k := range res {
		ks = append(ks, k)
	}
	sort.Strings(ks)
	var b strings.Builder
	b.WriteString("blocks")
	for _, k := range ks {
		fmt.Fprintf(&b, " %s=%q", k, res[k])
	}
	return b.String()
}

func entryName(e int) string {
	if e >= 10 {
		return "ExecuteBlocks(" + ctxNames[e-10] + ")"
	}
	return ctxNames[e]
}

func (c *Case) Exec(t *eng.T) {
	// package-level variables are compared from before the first execution of this case (a warm-up compilation
	// comes first: compiling may legitimately initialise process-wide state once)
	if warm, _ := c.compile(); warm == nil {
		t.Skip()
		return
	}
	pkgBefore := pkgSnapshot()
	// reference: a freshly compiled template per context
	fresh := map[int]string{}
	for _, e := range c.History {
		if _, ok := fresh[e]; ok {
			continue
		}
		tpl, out := c.compile()
		if tpl == nil {
			t.Skip() // the program does not compile: nothing to execute
			_ = out
			return
		}
		resetSharedError() // every reference run starts with the application's error object as the application made it
		fresh[e] = run1(tpl, e)
	}
	resetSharedError()
	t.Nontrivial()
	tpl, _ := c.compile()
	before := deep.Take(roots(tpl))
	t.AddStates(1)
	for step, ci := range c.History {
		got := run1(tpl, ci)
		t.AddTransitions(1)
		if got != fresh[ci] {
			hist := make([]string, step+1)
			for k := 0; k <= step; k++ {
				hist[k] = entryName(c.History[k])
			}
			t.Fail("differs:"+c.Label, "%s: after the history %v the execution %s gives %s; a freshly compiled template gives %s", c.ID(), hist[:step], entryName(ci), got, fresh[ci])
			return
		}
		after := deep.Take(roots(tpl))
		if after.Hash() != before.Hash() {
			d := deep.Diff(before, after, 3)
			field := "?"
			if len(d) > 0 {
				field = deep.FieldOf(d[0])
			}
			t.Fail("mutates:"+field, "%s: execution %d (%s) changed the compiled template: %s", c.ID(), step+1, entryName(ci), strings.Join(d, " ; "))
			return
		}
	}
	if pkgBefore != nil {
		if pkgAfter := pkgSnapshot(); pkgAfter.Hash() != pkgBefore.Hash() {
			d := deep.Diff(pkgBefore, pkgAfter, 3)
			field := "?"
			if len(d) > 0 {
				field = deep.FieldOf(d[0])
				if i := strings.Index(d[0], "<"); i > 0 && strings.HasPrefix(d[0], "pkg.") {
					field = d[0][:i] + ":" + field
				}
			}
			t.Fail("mutates-package-variable:"+field, "%s: executing the history changed a package-level variable of pongo2: %s", c.ID(), strings.Join(d, " ; "))
			return
		}
	}
	var fo []string
	for _, e := range c.History {
		fo = append(fo, fresh[e])
	}
	t.Outcome(strings.Join(fo, "|"))
	t.AddExtra("snapshot_leaves", int64(before.Size()))
}

// ---- programs ----

type prog struct {
	name  string
	src   string
	files map[string]string
	body  func(inner string) string // non-nil: the construct can carry a body
	// once: the source cannot be written twice in one file (extends, block names); @FAIL@ marks where the failure
	// point goes; such programs also get ExecuteBlocks operations in their histories
	once bool
}

// mainOf builds the entry file of a program of the single group
func mainOf(p prog) string {
	if p.once {
		return strings.ReplaceAll(p.src, "@FAIL@", failPoint)
	}
	return p.src + failPoint + "\ntail\n" + p.src
}

func programs() []prog {
	lib := map[string]string{"/lib": "{% macro lm(p) export %}<{{ p }}>{% endmacro %}"}
	inc := map[string]string{"/inc": "I{{ n }}{% cycle \"p\" \"q\" %}", "/inc2": "J{{ s }}"}
	base := map[string]string{"/base": "B[{% block c %}base{% cycle \"u\" \"v\" %}{% endblock %}]{% block d %}d{% endblock %}"}
	return []prog{
		{name: "text", src: "plain text\n"},
		{name: "var", src: "{{ n }}{{ s|upper }}{{ l.0 }}"},
		{name: "cycle", src: `{% for i in l %}{% cycle "a" "b" "c" %}{% endfor %}`},
		{name: "cycle-top", src: `{% cycle "a" "b" %}{% cycle "x" "y" "z" %}`},
		{name: "cycle-as", src: `{% for i in l %}{% cycle "a" "b" as c silent %}{{ c }}{% endfor %}{% cycle "x" "y" as d %}{% cycle d %}{{ d }}`},
		{name: "ifchanged-content", src: `{% for i in l %}{% ifchanged %}{{ n }}{% endifchanged %}{% endfor %}`},
		{name: "ifchanged-top", src: `{% ifchanged %}x{{ n }}{% endifchanged %}`},
		{name: "ifchanged-watch", src: `{% for i in l %}{% ifchanged n %}c{% else %}s{% endifchanged %}{% endfor %}`},
		{name: "ifchanged-watch-top", src: `{% ifchanged s n %}c{% else %}s{% endifchanged %}`},
		{name: "for", src: `{% for i in l %}{{ i }}{{ forloop.Last }}{% empty %}e{% endfor %}`, body: func(in string) string { return "{% for i in l %}" + in + "{% endfor %}" }},
		{name: "if", src: `{% if flag %}y{% else %}n{% endif %}`, body: func(in string) string { return "{% if flag %}" + in + "{% else %}" + in + "{% endif %}" }},
		{name: "with", src: `{% with z=n %}{{ z }}{% endwith %}`, body: func(in string) string { return "{% with z=n %}" + in + "{% endwith %}" }},
		{name: "with-rotation", src: `{% with n=s s=flag flag=n %}{{ n }}{{ s }}{{ flag }}{% endwith %}{% with s as n n as s %}{{ n }}{{ s }}{% endwith %}`},
		{name: "set", src: `{% set z = n + 1 %}{{ z }}`},
		{name: "macro", src: `{% macro m(p, q=n) %}<{{ p }}{{ q }}>{% endmacro %}{{ m(s) }}{{ m(1, 2) }}`, body: func(in string) string { return "{% macro mb() %}" + in + "{% endmacro %}{{ mb() }}{{ mb() }}" }},
		{name: "import", src: `{% import "lib" lm %}{{ lm(s) }}`, files: lib},
		{name: "filter-tag", src: `{% filter upper|cut:"A" %}{{ s }}x{% endfilter %}`, body: func(in string) string { return "{% filter lower %}" + in + "{% endfilter %}" }},
		{name: "spaceless", src: `{% spaceless %}<a> </a>{% endspaceless %}`, body: func(in string) string { return "{% spaceless %}" + in + "{% endspaceless %}" }},
		{name: "autoescape", src: `{% autoescape off %}{{ s }}{% endautoescape %}`, body: func(in string) string { return "{% autoescape off %}" + in + "{% endautoescape %}" }},
		{name: "include", src: `{% include "inc" %}{% include "inc" with n=7 only %}`, files: inc},
		{name: "include-lazy", src: `{% for i in l %}{% include name %}{% endfor %}`, files: inc},
		{name: "ssi", src: `{% ssi "inc" %}{% ssi "inc" parsed %}`, files: inc},
		{name: "ssi-in-autoescape-off", src: `{% autoescape off %}[{% ssi "inc" parsed %}{{ s }}]{% include "inc" %}{% endautoescape %}{{ s }}`, files: inc},
		{name: "extends", src: `{% extends "base" %}{% block c %}child{{ block.Super }}{% cycle "1" "2" %}@FAIL@{% endblock %}`, files: base, once: true},
		{name: "extends3", once: true, src: `{% extends "mid" %}{% block d %}Cd{{ n }}@FAIL@{% endblock %}`, files: map[string]string{"/mid": `{% extends "base3" %}{% block c %}M({{ block.Super }}){% endblock %}`, "/base3": `[{% block c %}G{{ s }}{% endblock %}|{% block d %}d{% endblock %}]`}},
		{name: "block-twice", once: true, src: `{% block b %}blk{{ n }}{% endblock %}@FAIL@|{% block bb %}{{ s }}{% endblock %}`},
		{name: "block", src: `{% block b %}blk{{ n }}{% endblock %}`, body: func(in string) string { return "{% block bb %}" + in + "{% endblock %}" }},
		{name: "firstof", src: `{% firstof missing s n %}`},
		{name: "widthratio", src: `{% widthratio n 3 100 %}{% widthratio n 3 100 as w %}{{ w }}`},
		{name: "ifequal", src: `{% ifequal n 1 %}e{% else %}ne{% endifequal %}{% ifnotequal s "a" %}x{% endifnotequal %}`, body: func(in string) string { return "{% ifequal n 1 %}" + in + "{% else %}" + in + "{% endifequal %}" }},
		{name: "ifchanged-body", src: ``, body: func(in string) string {
			return "{% for i in l %}{% ifchanged %}" + in + "{% endifchanged %}{% endfor %}"
		}},
		{name: "templatetag", src: `{% templatetag openblock %}`},
		{name: "now", src: `{% now "2006-01-02" fake %}`},
		{name: "lorem", src: `{% lorem 3 w %}`},
		{name: "comment", src: `{% comment %}{% cycle "a" %}{% endcomment %}{# c #}x`},
		{name: "verbatim", src: `{% verbatim %}{{ n }}{% endverbatim %}`},
		{name: "expr", src: `{{ n + 1 }}{{ s + "x" }}{{ n in l }}{{ not flag }}{{ (n * 2) ^ 2 }}{{ [n, s]|join:"," }}`},
		{name: "filters", src: `{{ s|center:5 }}{{ l|join:"-" }}{{ l|slice:"1:" }}{{ s|default:"d"|capfirst }}{{ n|add:l.0 }}`},
		{name: "calls", src: `{{ cf1(n) }}{{ cf3(n, s, 3) }}{{ cf5(1, 2, 3, 4, n) }}{{ cf7(1, 2, 3, 4, 5, 6, n) }}{{ cfv(1, n, 3) }}{{ f2(n, 2) }}{{ cf3(1, "x", n) }}`},
		{name: "whitespace", src: "\n\nX\n{% if flag %}\nY\n{% endif %}\n  {% set z = 1 %}  \nZ\n\t{% for i in l %}\n i{{ i }} \n\t{% endfor %}\n"},
		{name: "filter-error-pluralize", src: "{% if flag %}{{ s|pluralize }}{% else %}\n\n   {{ s|pluralize }}{% endif %}"},
		{name: "filter-error-date", src: "{% if flag %}{{ n|date:\"2006\" }}{% else %}\n {{ s|date:\"2006\" }}{% endif %}"},
		{name: "filter-error-slice", src: "{% if flag %}{{ l|slice:\"x\" }}{% else %}\n\n\n{{ l|slice:\"1:2:3\" }}{% endif %}"},
		{name: "filter-error-pluralize-args", src: "{% if flag %}{{ n|pluralize:\"a,b,c\" }}{% else %}\n\n {{ n|pluralize:\"a,b,c\" }}{% endif %}"},
		{name: "filter-error-shared-object", src: "{% if flag %}{{ s|vsharederr }}{% else %}\n\n   {{ s|vsharederr }}x{{ \"y\"|vsharederr }}{% endif %}"},
		{name: "tag-error-shared-object", src: "{% macro mb2() %}{% vboom %}{% endmacro %}{% if flag %}{{ mb2() }}{% else %}\n\n {% vboom %}{% endif %}"},
		{name: "macro-deep", src: "{% macro r(k) %}{% if k > 0 %}{{ r(k - 1) }}{% endif %}{% endmacro %}{{ r(600) }}{{ n }}"},
		{name: "import-deep", src: "{% import \"deeplib\" r %}{{ r(600) }}{{ n }}", files: map[string]string{"/deeplib": "{% macro r(k) export %}{% if k > 0 %}{{ r(k - 1) }}{% endif %}{% endmacro %}"}},
		{name: "slice-negative", src: `{{ l|slice:"-2:"|join:"," }}|{{ l|slice:":-1"|join:"," }}|{{ l|slice:"2:"|join:"," }}|{{ s|slice:"-1:" }}|{{ s|slice:"1:5" }}|{{ l|slice:"-5:-1"|join:"," }}`},
		{name: "filter-param-list", src: `{{ e|default:[n, s, "end"]|join:"/" }}{% for x in e|default:[s, n] %}{{ x }}{% endfor %}{{ [n, s]|join:"-"|upper }}{% if [n]|first > 1 %}big{% endif %}`},
		{name: "globals-sorted", src: `{% for i in gl sorted %}{{ i }}{% endfor %}|{% for i in gl %}{{ i }}{% endfor %}|{% for x in gs reversed sorted %}{{ x }}{% endfor %}{{ gs|join:"," }}|{% for k, v in gm sorted %}{{ k }}{{ v }}{% endfor %}{{ gl|slice:"1:" }}{{ gl|first }}{{ gs|last }}`},
		{name: "custom-tag-shared", src: `{% vshared %}{{ n }}{% for i in l %}{% vshared %}{% endfor %}`},
		{name: "whitespace-dash", src: " a \n{%- if flag -%}\n b \n{%- endif %}\n{{- n -}}\n c "},
	}
}

const failPoint = "{% if failnow %}{{ boom() }}{% endif %}"

func run(r *eng.Runner) {
	ps := programs()
	hl := 3
	if !r.Quick() {
		hl = 4
	}
	var hists [][]int
	enum.Seqs(len(ctxNames), hl, func(idx []int) bool {
		if len(idx) > 0 {
			hists = append(hists, append([]int{}, idx...))
		}
		return true
	})
	// histories that also call ExecuteBlocks (entries 10, 11 = ExecuteBlocks with context A, B)
	var blockHists [][]int
	balpha := []int{0, 1, 2, 10, 11}
	enum.Seqs(len(balpha), hl, func(idx []int) bool {
		if len(idx) > 0 {
			h := make([]int, len(idx))
			for i, x := range idx {
				h[i] = balpha[x]
			}
			blockHists = append(blockHists, h)
		}
		return true
	})
	useBlockHists := false
	emit := func(label string, files map[string]string, histSel func(h []int) bool) {
		hs := hists
		if useBlockHists {
			hs = blockHists
		}
		for opt := 0; opt < 5; opt++ {
			if histSel != nil && r.Quick() && (opt == 1 || opt == 2) {
				continue // nested pairs in the quick tier: options off, both on the set, both on the template
			}
			for _, h := range hs {
				if histSel != nil && !histSel(h) {
					continue
				}
				c := &Case{Files: files, Trim: opt&1 != 0, LStrip: opt&2 != 0, History: h, Label: label}
				if opt == 4 {
					c.Trim, c.LStrip, c.OptsAfter = true, true, true
				}
				r.Do(c)
			}
		}
	}
	mkFiles := func(main string, extra ...map[string]string) map[string]string {
		f := map[string]string{"/main": main}
		for _, e := range extra {
			for k, v := range e {
				f[k] = v
			}
		}
		return f
	}
	r.Group("single", "c04.case", fmt.Sprintf("%d programs (every tag in a minimal use, expressions, filters, whitespace layouts) with a failure point in the middle x 5 option settings (TrimBlocks x LStripBlocks on the set; both on the compiled template) x ALL execution histories of length 1..%d over the contexts {A, B, failing, nil}; the inheritance / block programs over {Execute A, B, failing, ExecuteBlocks A, B}", len(ps), hl))
	for _, p := range ps {
		if p.src == "" {
			continue
		}
		useBlockHists = p.once
		emit(p.name, mkFiles(mainOf(p), p.files), nil)
		useBlockHists = false
		if r.Stopped() {
			return
		}
	}
	r.Group("nested", "c04.case", "every body-carrying construct containing every program (pairs), in the quick tier: 3 option settings and all histories of length <=2; thorough: all 5 settings and all histories")
	for _, outer := range ps {
		if outer.body == nil {
			continue
		}
		for _, in := range ps {
			if in.src == "" || in.once || (outer.name == "block" && (in.name == "block" || in.name == "extends")) || (outer.name == "macro" && in.name == "block") {
				continue
			}
			src := outer.body(in.src + failPoint)
			emit(outer.name+">"+in.name, mkFiles(src+"\n"+in.src, in.files, outer.files), func(h []int) bool {
				return len(h) <= 2 || !r.Quick()
			})
		}
		if r.Stopped() {
			return
		}
	}
}

func init() {
	eng.RegisterCase("c04.case", func() eng.Case { return &Case{} })
	eng.Register(&eng.Check{
		ID:    "C04",
		Title: "Compile once, render many: execution never alters the compiled template",
		Rule:  "explicit-state exploration of execution histories: for every generated program and option setting the template is compiled once and EVERY history of executions up to the length bound over a 4-context alphabet (two succeeding contexts driving different branches and lengths, one failing mid-way, nil) is run on it. State = canonical deep snapshot (reflect+unsafe walk of everything reachable from the *Template: nodes, tokens, blocks, macros, set, parents, children, included templates). Invariant: the state after every execution equals the state before the first; differential oracle from non-initial states: (output, error) of each execution equals that of a freshly compiled template on the same context. states = compiled templates explored, transitions = executions. Non-trivial: the program compiles.",
		Assumptions: []string{
			"constructs documented to depend on clock, randomness or map order are used only in deterministic forms (now fake, lorem without random, no multi-key unsorted maps)",
			"the quantifier's clause 'statically: all functions reachable from Execute' is static analysis (another family): not covered",
			"package-level variables of pongo2 are part of the snapshot (the check runs on the overlay-instrumented build, which generates pointers to all of them)",
			"internals of sync, regexp, log, os, io values are compared by identity",
		},
		Run: run,
	})
}

// SetGlobals gives the set data that every execution shares (unsorted lists of the plain slice types)
// BlockNames returns a fresh copy of the names the ExecuteBlocks operations ask for.
func BlockNames() []string { return append([]string{}, blockNames...) }

func SetGlobals(set *pongo2.TemplateSet) {
	register()
	set.Globals["gl"] = []int{3, 1, 2}
	set.Globals["gs"] = []string{"b", "c", "a"}
	set.Globals["gm"] = map[string]int{"z": 1, "y": 2}
}

// ProgramList exposes the program corpus (single constructs with a failure point) to other checks (C05).
func ProgramList() (names []string, files []map[string]string) {
	for _, p := range programs() {
		if p.src == "" {
			continue
		}
		f := map[string]string{"/main": mainOf(p)}
		for k, v := range p.files {
			f[k] = v
		}
		names = append(names, p.name)
		files = append(files, f)
	}
	return
}

// MkCtx exposes the context alphabet.
func MkCtx(i int) pongo2.Context { return mkCtx(i) }
