// Package c03: sandbox - a banned tag or filter cannot be used by any route.
package c03

import (
	"fmt"
	"sort"
	"strings"
	"sync"

	"github.com/flosch/pongo2/v6"

	"verifmc/internal/eng"
	"verifmc/internal/enum"
	"verifmc/internal/px"
)

// ---- probes registered once per process ----

var (
	regOnce      sync.Once
	vtagParsed   int
	vtagExecuted int
	vfilterCalls int
)

type vtagNode struct{}

func (vtagNode) Execute(ctx *pongo2.ExecutionContext, w pongo2.TemplateWriter) *pongo2.Error {
	vtagExecuted++
	w.WriteString("VTAG")
	return nil
}

func vtagParser(doc *pongo2.Parser, start *pongo2.Token, args *pongo2.Parser) (pongo2.INodeTag, *pongo2.Error) {
	vtagParsed++
	return vtagNode{}, nil
}

func vfilterFn(in, p *pongo2.Value) (*pongo2.Value, *pongo2.Error) {
	vfilterCalls++
	return pongo2.AsValue("VFILTER"), nil
}

func register() {
	regOnce.Do(func() {
		pongo2.RegisterTag("vtag", vtagParser)
		pongo2.RegisterTag("vtag2", func(doc *pongo2.Parser, start *pongo2.Token, args *pongo2.Parser) (pongo2.INodeTag, *pongo2.Error) {
			return vtagNode{}, nil
		})
		pongo2.RegisterFilter("vfilter", vfilterFn)
		// a tag and a filter registered under the SAME name: banning one must not touch the other
		pongo2.RegisterTag("vboth", func(doc *pongo2.Parser, start *pongo2.Token, args *pongo2.Parser) (pongo2.INodeTag, *pongo2.Error) {
			return vtagNode{}, nil
		})
		pongo2.RegisterFilter("vboth", func(in, p *pongo2.Value) (*pongo2.Value, *pongo2.Error) { return pongo2.AsValue("VBOTH"), nil })
		pongo2.RegisterFilter("vfilter2", func(in, p *pongo2.Value) (*pongo2.Value, *pongo2.Error) {
			return pongo2.AsValue("VFILTER2"), nil
		})
	})
}

func ctx() pongo2.Context {
	return pongo2.Context{"x": "ab cd", "l": []int{1, 2}, "n": 3, "y": "d", "name": "sub", "leafname": "leaf", "fn": func(s any) string { return fmt.Sprint(s) }}
}

// ---- usage snippets ----

// canonical valid use of every built-in tag
var tagUse = map[string]string{
	"autoescape":  "{% autoescape on %}a{% endautoescape %}",
	"block":       "{% block bq %}a{% endblock %}",
	"comment":     "{% comment %}a{% endcomment %}",
	"cycle":       "{% cycle \"a\" \"b\" %}",
	"extends":     "",
	"filter":      "{% filter upper %}a{% endfilter %}",
	"firstof":     "{% firstof x %}",
	"for":         "{% for i in l %}a{% endfor %}",
	"if":          "{% if n %}a{% endif %}",
	"ifchanged":   "{% ifchanged n %}a{% endifchanged %}",
	"ifequal":     "{% ifequal n 3 %}a{% endifequal %}",
	"ifnotequal":  "{% ifnotequal n 3 %}a{% endifnotequal %}",
	"import":      "{% import \"lib\" libmac %}",
	"include":     "{% include \"leaf\" %}",
	"lorem":       "{% lorem 2 w %}",
	"macro":       "{% macro mq() %}a{% endmacro %}",
	"now":         "{% now \"2006\" fake %}",
	"set":         "{% set z = 1 %}",
	"spaceless":   "{% spaceless %}<a> </a>{% endspaceless %}",
	"ssi":         "{% ssi \"leaf\" %}",
	"templatetag": "{% templatetag openblock %}",
	"widthratio":  "{% widthratio n 4 100 %}",
	"with":        "{% with z=1 %}a{% endwith %}",
	"vtag":        "{% vtag %}",
	"vtag2":       "{% vtag2 %}",
}

func useOfTag(t string) string {
	if u, ok := tagUse[t]; ok {
		return u
	}
	return "{% " + t + " %}"
}

// every syntactic position in which a filter can be written
func filterPositions(f string, avoid ...string) []string {
	F := "x|" + f
	// helper filters that appear next to the target must not be the (banned) target themselves
	bad := map[string]bool{f: true}
	for _, a := range avoid {
		bad[a] = true
	}
	h := "lower"
	if bad[h] {
		h = "capfirst"
	}
	hp := "cut"
	if bad[hp] {
		hp = "add"
	}
	ps := filterPositionsRaw("@F@", "x|@F@")
	for i := range ps {
		ps[i] = strings.ReplaceAll(strings.ReplaceAll(ps[i], "upper", h), "default:y", hp+":y")
		ps[i] = strings.ReplaceAll(ps[i], "@F@", f)
	}
	_ = F
	return ps
}

func filterPositionsRaw(f, F string) []string {
	return []string{
		"{{ " + F + " }}",
		"{{ x|upper|" + f + " }}",
		"{{ " + F + "|upper }}",
		"{{ x|default:y|" + f + " }}",
		"{{ \"lit\"|" + f + " }}",
		"{{ 1 + " + F + " }}",
		"{{ not " + F + " }}",
		"{{ (" + F + ") }}",
		"{% if " + F + " %}a{% endif %}",
		"{% if n %}a{% elif " + F + " %}b{% endif %}",
		"{% for i in " + F + " %}a{% endfor %}",
		"{% with z=" + F + " %}a{% endwith %}",
		"{% with " + F + " as z %}a{% endwith %}",
		"{% set z = " + F + " %}",
		"{% firstof y " + F + " %}",
		"{% cycle y " + F + " %}",
		"{% widthratio " + F + " 2 3 %}",
		"{% ifequal " + F + " 1 %}a{% endifequal %}",
		"{% ifnotequal 1 " + F + " %}a{% endifnotequal %}",
		"{% ifchanged " + F + " %}a{% endifchanged %}",
		"{% include \"leaf\" with z=" + F + " %}",
		"{% include leafname|" + f + " %}",
		"{% macro mq(p=" + F + ") %}a{% endmacro %}",
		"{% macro mq(p) %}a{% endmacro %}{{ mq(" + F + ") }}",
		"{{ fn(" + F + ") }}",
		"{{ l[" + F + "] }}",
		"{{ [" + F + "] }}",
		"{% filter " + f + " %}a{% endfilter %}",
		"{% filter upper|" + f + " %}a{% endfilter %}",
		"{% filter " + f + "|upper %}a{% endfilter %}",
	}
}

// bodies in which a snippet can be nested
func bodies(s string) map[string]string {
	return map[string]string{
		"top":            s,
		"if-true":        "{% if n %}" + s + "{% endif %}",
		"if-false":       "{% if 0 %}" + s + "{% endif %}",
		"else":           "{% if n %}a{% else %}" + s + "{% endif %}",
		"elif":           "{% if 0 %}a{% elif n %}" + s + "{% endif %}",
		"for":            "{% for i in l %}" + s + "{% endfor %}",
		"empty":          "{% for i in l %}a{% empty %}" + s + "{% endfor %}",
		"with":           "{% with q=1 %}" + s + "{% endwith %}",
		"macro-body":     "{% macro mb() %}" + s + "{% endmacro %}",
		"block":          "{% block bb %}" + s + "{% endblock %}",
		"spaceless":      "{% spaceless %}" + s + "{% endspaceless %}",
		"autoescape":     "{% autoescape off %}" + s + "{% endautoescape %}",
		"filter-body":    "{% filter vfilter2 %}" + s + "{% endfilter %}",
		"ifchanged":      "{% ifchanged %}" + s + "{% endifchanged %}",
		"ifchanged-else": "{% ifchanged n %}a{% else %}" + s + "{% endifchanged %}",
		"ifequal-else":   "{% ifequal n 1 %}a{% else %}" + s + "{% endifequal %}",
	}
}

// file routes: where the snippet lives relative to the compiled entry template
type fileRoute struct {
	name  string
	files func(s string) map[string]string
	lazy  bool // the refusal may come at execution time
}

func fileRoutes() []fileRoute {
	base := map[string]string{"/leaf": "LEAF", "/lib": "{% macro libmac() export %}L{% endmacro %}"}
	mk := func(m map[string]string) map[string]string {
		out := map[string]string{}
		for k, v := range base {
			out[k] = v
		}
		for k, v := range m {
			out[k] = v
		}
		return out
	}
	return []fileRoute{
		{"same-file", func(s string) map[string]string { return mk(map[string]string{"/main": s}) }, false},
		{"included", func(s string) map[string]string {
			return mk(map[string]string{"/main": `A{% include "sub" %}B`, "/sub": s})
		}, false},
		{"included-if-exists", func(s string) map[string]string {
			return mk(map[string]string{"/main": `A{% include "sub" if_exists %}B`, "/sub": s})
		}, false},
		{"included-lazy", func(s string) map[string]string {
			return mk(map[string]string{"/main": `A{% include name %}B`, "/sub": s})
		}, true},
		{"included-lazy-if-exists", func(s string) map[string]string {
			return mk(map[string]string{"/main": `A{% include name if_exists %}B`, "/sub": s})
		}, true},
		{"extended-parent", func(s string) map[string]string {
			return mk(map[string]string{"/main": `{% extends "sub" %}`, "/sub": "P" + s})
		}, false},
		{"child-block", func(s string) map[string]string {
			return mk(map[string]string{"/main": `{% extends "sub" %}{% block cb %}` + s + `{% endblock %}`, "/sub": "P{% block cb %}{% endblock %}"})
		}, false},
		{"imported", func(s string) map[string]string {
			return mk(map[string]string{"/main": `{% import "sub" im %}{{ im() }}`, "/sub": "{% macro im() export %}" + s + "{% endmacro %}"})
		}, false},
		{"ssi-parsed", func(s string) map[string]string {
			return mk(map[string]string{"/main": `A{% ssi "sub" parsed %}B`, "/sub": s})
		}, false},
		{"two-levels", func(s string) map[string]string {
			return mk(map[string]string{"/main": `A{% include "mid" %}B`, "/mid": `{% include "sub" %}`, "/sub": s})
		}, false},
	}
}

// ---- route case ----

type RouteCase struct {
	Kind   string            `json:"kind"`   // tag | filter
	Target string            `json:"target"` // banned name
	Files  map[string]string `json:"files"`
	Lazy   bool              `json:"lazy"`
	Uses   bool              `json:"uses"` // the template uses the banned name (false: control using another name)
	Label  string            `json:"label"`
}

func (c *RouteCase) ID() string {
	var ks []string
	for k := range c.Files {
		if k == "/leaf" || k == "/lib" {
			continue
		}
		ks = append(ks, k)
	}
	sort.Strings(ks)
	var b strings.Builder
	fmt.Fprintf(&b, "ban %s %s uses=%v ", c.Kind, c.Target, c.Uses)
	for _, k := range ks {
		fmt.Fprintf(&b, "%s=%q ", k, c.Files[k])
	}
	return b.String()
}

func (c *RouteCase) Exec(t *eng.T) {
	register()
	if !c.Uses && c.Kind == "filter" {
		// a control must really be free of the banned filter (wrappers such as the filter-tag body use filters themselves)
		m := &model{tags: map[string]bool{}, filters: map[string]bool{c.Target: true}}
		for name, src := range c.Files {
			if name == "/leaf" || name == "/lib" {
				continue
			}
			if !m.usesOK(src) {
				t.Skip()
				return
			}
		}
	}
	if !c.Uses && c.Kind == "tag" {
		// a control must really be free of the banned tag (the wrappers and file routes use tags themselves)
		for name, src := range c.Files {
			if name == "/leaf" || name == "/lib" {
				continue
			}
			if strings.Contains(src, "{% "+c.Target+" ") {
				t.Skip()
				return
			}
		}
	}
	// a fresh set without bans: is the route itself valid?
	fresh, _ := px.NewSet(c.Files)
	ft, fo := px.CompileFile(fresh, "/main")
	if ft != nil {
		fo = px.Exec(ft, ctx())
	}
	if fo.Panic != "" || (fo.Failed() && fo.Compile) {
		// the route does not compile even without a ban (e.g. a filter needing another position): nothing to learn
		t.Skip()
		return
	}
	t.Nontrivial()
	set, loader := px.NewSet(c.Files)
	var err error
	if c.Kind == "tag" {
		err = set.BanTag(c.Target)
	} else {
		err = set.BanFilter(c.Target)
	}
	if err != nil {
		t.Fail("ban:refused", "%s: banning on a fresh set is refused: %v", c.ID(), err)
		return
	}
	other, _ := px.NewSet(c.Files) // a second set created after the ban
	vtagParsed, vtagExecuted, vfilterCalls = 0, 0, 0
	loader.ResetLog()
	tpl, out := px.CompileFile(set, "/main")
	if tpl != nil {
		out = px.Exec(tpl, ctx())
	}
	t.Outcome(out.Kind())
	key := "ban-" + c.Kind + ":" + c.Label
	if c.Uses {
		if out.Panic != "" {
			t.Fail(key+":panic", "%s panics: %s", c.ID(), out.PanicMsg)
			return
		}
		if !out.Failed() {
			t.Fail(key+":bypassed", "%s: the template uses the banned %s %q and renders %q", c.ID(), c.Kind, c.Target, out.S)
			return
		}
		if !c.Lazy && !out.Compile {
			t.Fail(key+":only-at-execution", "%s: the banned %s %q is only refused at execution: %s", c.ID(), c.Kind, c.Target, out.Err)
		}
		if c.Target == "vtag" && (vtagParsed != 0 || vtagExecuted != 0) {
			t.Fail(key+":banned-code-ran", "%s: the banned tag's parser ran %d times, its node %d times", c.ID(), vtagParsed, vtagExecuted)
		}
		if c.Target == "vfilter" && vfilterCalls != 0 {
			t.Fail(key+":banned-code-ran", "%s: the banned filter ran %d times", c.ID(), vfilterCalls)
		}
		if c.Kind == "tag" && (c.Target == "include" || c.Target == "ssi" || c.Target == "import" || c.Target == "extends") {
			for _, f := range []string{"/leaf", "/lib"} {
				if loader.Gets[f] > 0 {
					t.Fail(key+":banned-tag-fetched", "%s: the banned tag %q still fetched %s", c.ID(), c.Target, f)
				}
			}
		}
		// other sets are unaffected
		ot, oo := px.CompileFile(other, "/main")
		if ot != nil {
			oo = px.Exec(ot, ctx())
		}
		if oo.Kind() != fo.Kind() || (c.Target != "random" && oo.String() != fo.String()) {
			t.Fail(key+":other-set-affected", "%s: in a second set without the ban the template gives %s, in a fresh set %s", c.ID(), oo, fo)
		}
		return
	}
	// control: a template that does not use the banned name keeps working, byte for byte
	if out.String() != fo.String() {
		t.Fail(key+":unbanned-affected", "%s: the template does not use the banned %s %q but gives %s in the banning set and %s in a fresh set", c.ID(), c.Kind, c.Target, out, fo)
	}
}

// ---- history case ----

type HistCase struct {
	Ops []string `json:"ops"`
}

func (c *HistCase) ID() string { return strings.Join(c.Ops, " ") }

var histOps = []string{"BanTag(vboth)", "BanFilter(vboth)", "FromString(bothtag)", "FromString(bothfilter)", "BanTag(vtag)", "BanTag(if)", "BanTag(nosuch)", "BanFilter(vfilter)", "BanFilter(nosuch)", "ReplaceTag(vtag)", "ReplaceFilter(vfilter)",
	"FromString(plain)", "FromString(uses)", "FromBytes(plain)", "FromFile(plain)", "FromFile(uses)", "FromCache(plain)", "FromCache(uses)",
	"RenderTemplateString(plain)", "RenderTemplateString(uses)", "RenderTemplateBytes(plain)", "RenderTemplateFile(plain)"}

type model struct {
	tags, filters map[string]bool
	frozen        bool
}

func (m *model) usesOK(src string) bool {
	for tg := range m.tags {
		if strings.Contains(src, "{% "+tg+" ") {
			return false
		}
	}
	for f := range m.filters {
		for _, pre := range []string{"|" + f, "filter " + f} {
			for i := strings.Index(src, pre); i >= 0; {
				end := i + len(pre)
				if end >= len(src) || !(src[end] >= 'a' && src[end] <= 'z' || src[end] >= '0' && src[end] <= '9' || src[end] == '_') {
					return false
				}
				j := strings.Index(src[end:], pre)
				if j < 0 {
					break
				}
				i = end + j
			}
		}
	}
	return true
}

const usesSrc = "{% vtag %}{{ 1|vfilter }}"
const plainSrc = "plain{{ 1|vfilter2 }}"

var histFiles = map[string]string{"/plain": plainSrc, "/uses": usesSrc, "/incl": `{% include "uses" %}`}

var probes = []string{"{% vboth %}", "{{ 1|vboth }}", "{% filter vboth %}x{% endfilter %}", "{% vtag %}", "{{ 1|vfilter }}", "{% if 1 %}x{% endif %}", "{% filter vfilter %}x{% endfilter %}", "x{% vtag2 %}{{ 1|vfilter2 }}", `{% include "uses" %}`}

// callRefuses runs f and reports whether it refused (error, or a panic carrying a *pongo2.Error as the Render* shortcuts do)
func callRefuses(f func() error) (refused bool, bad string) {
	defer func() {
		if p := recover(); p != nil {
			// every operation of the alphabet returns an error: a refusal is that error, not a panic
			bad = fmt.Sprint("panic instead of the returned error: ", p)
		}
	}()
	return f() != nil, ""
}

func (c *HistCase) Exec(t *eng.T) {
	register()
	t.Nontrivial()
	t.AddTransitions(int64(len(c.Ops)))
	set, _ := px.NewSet(histFiles)
	m := &model{tags: map[string]bool{}, filters: map[string]bool{}}
	var trace []string
	for i, op := range c.Ops {
		name := op[:strings.Index(op, "(")]
		arg := strings.TrimSuffix(op[strings.Index(op, "(")+1:], ")")
		var wantRefused bool
		var f func() error
		src := map[string]string{"plain": plainSrc, "uses": usesSrc, "bothtag": "{% vboth %}", "bothfilter": "{{ 1|vboth }}"}[arg]
		switch name {
		case "BanTag":
			wantRefused = arg == "nosuch" || m.frozen || m.tags[arg]
			if !wantRefused {
				m.tags[arg] = true
			}
			f = func() error { return set.BanTag(arg) }
		case "BanFilter":
			wantRefused = arg == "nosuch" || m.frozen || m.filters[arg]
			if !wantRefused {
				m.filters[arg] = true
			}
			f = func() error { return set.BanFilter(arg) }
		case "ReplaceTag":
			// the application replaces the implementation registered under a name (process-wide registry, same
			// behaviour): what a set has banned stays banned, nothing is frozen by it
			f = func() error { return pongo2.ReplaceTag(arg, vtagParser) }
		case "ReplaceFilter":
			f = func() error { return pongo2.ReplaceFilter(arg, vfilterFn) }
		case "FromString":
			m.frozen = true
			wantRefused = !m.usesOK(src)
			f = func() error { _, e := set.FromString(src); return e }
		case "FromBytes":
			m.frozen = true
			wantRefused = !m.usesOK(src)
			f = func() error { _, e := set.FromBytes([]byte(src)); return e }
		case "FromFile":
			m.frozen = true
			wantRefused = !m.usesOK(src)
			f = func() error { _, e := set.FromFile("/" + arg); return e }
		case "FromCache":
			m.frozen = true
			wantRefused = !m.usesOK(src)
			f = func() error { _, e := set.FromCache("/" + arg); return e }
		case "RenderTemplateString":
			m.frozen = true
			wantRefused = !m.usesOK(src)
			f = func() error { _, e := set.RenderTemplateString(src, nil); return e }
		case "RenderTemplateBytes":
			m.frozen = true
			wantRefused = !m.usesOK(src)
			f = func() error { _, e := set.RenderTemplateBytes([]byte(src), nil); return e }
		case "RenderTemplateFile":
			m.frozen = true
			wantRefused = !m.usesOK(src)
			f = func() error { _, e := set.RenderTemplateFile("/"+arg, nil); return e }
		}
		refused, bad := callRefuses(f)
		trace = append(trace, fmt.Sprintf("%s=%v", op, refused))
		if bad != "" {
			t.Fail("history:panic:"+name, "history %v: step %d %s: %s", c.Ops, i+1, op, bad)
			return
		}
		if refused != wantRefused {
			t.Fail("history:"+name+":"+map[bool]string{true: "wrongly-refused", false: "wrongly-accepted"}[refused], "history %v: step %d %s returned refused=%v, the ban/freeze model says %v (banned tags %v filters %v frozen %v)", c.Ops, i+1, op, refused, wantRefused, keys(m.tags), keys(m.filters), m.frozen)
			return
		}
	}
	// verdict vector of the final state
	var verdict []string
	for _, p := range probes {
		want := m.usesOK(p)
		if strings.Contains(p, "include") {
			want = m.usesOK(usesSrc)
		}
		vtagParsed, vfilterCalls = 0, 0
		o := px.RenderIn(set, p, nil)
		ok := !o.Failed()
		verdict = append(verdict, fmt.Sprint(ok))
		if ok != want {
			t.Fail("history:probe", "after history %v the probe %q %s, the model says %s (banned tags %v filters %v)", c.Ops, p, map[bool]string{true: "is accepted", false: "is refused"}[ok], map[bool]string{true: "accepted", false: "refused"}[want], keys(m.tags), keys(m.filters))
			return
		}
		if !want && (vtagParsed+vfilterCalls) > 0 && (m.tags["vtag"] && strings.Contains(p, "vtag ") || m.filters["vfilter"] && strings.Contains(p, "vfilter") && !strings.Contains(p, "vfilter2")) {
			t.Fail("history:banned-code-ran", "after history %v the probe %q is refused but banned code ran", c.Ops, p)
		}
	}
	// a second set never sees the first one's bans
	set2, _ := px.NewSet(histFiles)
	if o := px.RenderIn(set2, usesSrc, nil); o.Failed() {
		t.Fail("history:other-set-affected", "after history %v a fresh second set refuses %q: %s", c.Ops, usesSrc, o)
	}
	t.Outcome(fmt.Sprintf("%v|%v|%v|%s", keys(m.tags), keys(m.filters), m.frozen, strings.Join(verdict, ",")))
}

func keys(m map[string]bool) []string {
	var k []string
	for x := range m {
		k = append(k, x)
	}
	sort.Strings(k)
	return k
}

func run(r *eng.Runner) {
	register()
	tags := pongo2.VerifRegisteredTags()
	filters := pongo2.VerifRegisteredFilters()
	frs := fileRoutes()

	fullTargetsF := map[string]bool{"vfilter": true, "upper": true, "escape": true, "safe": true, "length": true, "default": true}
	r.Group("filter-routes", "c03.route", fmt.Sprintf("ban target = every registered filter (%d, registry hook): every syntactic position (30) in the same file; for 6 targets additionally x every nesting body (16) x every file route (10); each with a control template using another filter", len(filters)))
	for _, f := range filters {
		alt := "vfilter2"
		if f == alt {
			alt = "lower"
		}
		pos := filterPositions(f)
		posAlt := filterPositions(alt, f)
		for i, p := range pos {
			if fullTargetsF[f] || !r.Quick() {
				bs := bodies(p)
				bsAlt := bodies(posAlt[i])
				var bn []string
				for k := range bs {
					bn = append(bn, k)
				}
				sort.Strings(bn)
				for _, b := range bn {
					for _, fr := range frs {
						if b != "top" && fr.name != "same-file" && i%5 != 0 {
							continue // nesting x file route: every fifth position
						}
						label := fmt.Sprintf("%s/%s", b, fr.name)
						r.Do(&RouteCase{Kind: "filter", Target: f, Files: fr.files(bs[b]), Lazy: fr.lazy, Uses: true, Label: label})
						r.Do(&RouteCase{Kind: "filter", Target: f, Files: fr.files(bsAlt[b]), Lazy: fr.lazy, Uses: false, Label: label})
					}
				}
			} else {
				r.Do(&RouteCase{Kind: "filter", Target: f, Files: frs[0].files(p), Uses: true, Label: "top/same-file"})
				r.Do(&RouteCase{Kind: "filter", Target: f, Files: frs[1].files(p), Uses: true, Label: "top/included"})
				r.Do(&RouteCase{Kind: "filter", Target: f, Files: frs[0].files(posAlt[i]), Uses: false, Label: "top/same-file"})
			}
		}
		// spellings that may or may not be part of the grammar: with the filter banned they do not compile either way
		for _, p := range []string{"{{ (x)|" + f + " }}", "{% if (x)|" + f + " %}a{% endif %}", "{{ (x + 1)|" + f + " }}", "{% macro mq(p=(x)|" + f + ") %}a{% endmacro %}{{ mq() }}", "{{ x | " + f + " }}", "{{ [x]|" + f + " }}", "{{ l.0|" + f + " }}", "{{ fn(x)|" + f + " }}", "{{ \"a\" \"b\"|" + f + " }}"} {
			r.Do(&RouteCase{Kind: "filter", Target: f, Files: frs[0].files(p), Uses: true, Label: "top/same-file/unusual-spelling"})
		}
		if r.Stopped() {
			return
		}
	}

	r.Group("tag-routes", "c03.route", fmt.Sprintf("ban target = every registered tag (%d): its canonical use in every nesting body (16) x every file route (10), with a control template using another tag; banned include/ssi/import/extends must not fetch", len(tags)))
	for _, tg := range tags {
		use := useOfTag(tg)
		alt := "{% vtag2 %}"
		if tg == "vtag2" {
			alt = "{% now \"2006\" fake %}"
		}
		if tg == "extends" {
			// extends is only legal at the root of a file
			for _, files := range []map[string]string{
				{"/main": `{% extends "sub" %}`, "/sub": "P"},
				{"/main": `A{% include "mid" %}B`, "/mid": `{% extends "sub" %}`, "/sub": "P"},
				{"/main": `{% extends "mid" %}`, "/mid": `{% extends "sub" %}`, "/sub": "P"},
			} {
				files["/leaf"], files["/lib"] = "LEAF", "x"
				r.Do(&RouteCase{Kind: "tag", Target: tg, Files: files, Uses: true, Label: "extends"})
			}
			continue
		}
		bs := bodies(use)
		bsAlt := bodies(alt)
		var bn []string
		for k := range bs {
			bn = append(bn, k)
		}
		sort.Strings(bn)
		for _, b := range bn {
			if tg == "block" && (b == "block" || b == "macro-body") {
				continue
			}
			for _, fr := range frs {
				label := fmt.Sprintf("%s/%s", b, fr.name)
				if tg == "block" && (fr.name == "child-block" || fr.name == "imported") {
					continue
				}
				r.Do(&RouteCase{Kind: "tag", Target: tg, Files: fr.files(bs[b]), Lazy: fr.lazy, Uses: true, Label: label})
				r.Do(&RouteCase{Kind: "tag", Target: tg, Files: fr.files(bsAlt[b]), Lazy: fr.lazy, Uses: false, Label: label})
			}
		}
		// the banned name inside a comment is not a use
		r.Do(&RouteCase{Kind: "tag", Target: tg, Files: frs[0].files("{% comment %}" + use + "{% endcomment %}ok{# " + use + " #}"), Uses: false, Label: "in-comment"})
	}

	depth := 4
	if !r.Quick() {
		depth = 5
	}
	r.Group("histories", "c03.hist", fmt.Sprintf("every call history of length 0..%d over %d operations {BanTag, BanFilter (known, second known, unknown; duplicates arise), ReplaceTag / ReplaceFilter of a banned-able name, FromString/FromBytes/FromFile/FromCache/RenderTemplate* (plain, using banned names)} on a fresh set, every return value compared with the ban-set/frozen-flag model, followed by 6 probe templates and a second set", depth, len(histOps)))
	enum.Seqs(len(histOps), depth, func(idx []int) bool {
		ops := make([]string, len(idx))
		for i, x := range idx {
			ops[i] = histOps[x]
		}
		r.Do(&HistCase{Ops: ops})
		return !r.Stopped()
	})
	if r.Shard == 0 {
		// number of abstract states (banned tags, banned filters, frozen) reachable in the model
		type ms struct {
			vtag, ifTag, vfilter, frozen bool
		}
		seen := map[ms]bool{{}: true}
		queue := []ms{{}}
		for len(queue) > 0 {
			s := queue[0]
			queue = queue[1:]
			for _, op := range histOps {
				n := s
				switch {
				case op == "BanTag(vtag)" && !s.frozen:
					n.vtag = true
				case op == "BanTag(if)" && !s.frozen:
					n.ifTag = true
				case op == "BanFilter(vfilter)" && !s.frozen:
					n.vfilter = true
				case strings.HasPrefix(op, "From") || strings.HasPrefix(op, "Render"):
					n.frozen = true
				}
				if !seen[n] {
					seen[n] = true
					queue = append(queue, n)
				}
			}
		}
		r.AddStates(int64(len(seen)))
	}
}

func init() {
	eng.RegisterCase("c03.route", func() eng.Case { return &RouteCase{} })
	eng.RegisterCase("c03.hist", func() eng.Case { return &HistCase{} })
	eng.Register(&eng.Check{
		ID:    "C03",
		Title: "Sandbox: a banned tag or filter cannot be used by any route",
		Rule:  "bounded-exhaustive: (routes) for every registered tag and filter as ban target, a template using it at every syntactic position / nesting body / file-composition route is compiled (lazy routes: executed) in a set that banned it: it must be refused, invocation counters of harness-registered probe tag/filter must stay 0, a banned include/ssi/import/extends must fetch nothing, a second set must be unaffected; a control template using another name must behave byte-identically to a fresh set. (histories) every call history up to the depth bound on a fresh set is replayed on the real set and every return value and a final vector of probe verdicts is compared with the ban-set/frozen-flag model. Non-trivial: the route compiles without the ban.",
		Assumptions: []string{
			"the Render* shortcuts wrap compile errors in Must: a panic carrying a *pongo2.Error counts as the refusal the property asks for",
			"a From* call that fails to load its file is not part of the history alphabet (whether it freezes the set is left open)",
		},
		Run: run,
	})
}
