// Package c06: literal text, verbatim blocks and comments are reproduced exactly.
package c06

import (
	"fmt"
	"io"
	"sort"
	"strings"
	"testing/iotest"

	"github.com/flosch/pongo2/v6"

	"verifmc/internal/eng"
	"verifmc/internal/enum"
	"verifmc/internal/px"
)

// ---- (a) delimiter-free text ----

type TextCase struct {
	Src  eng.Q `json:"src"`
	Trim bool  `json:"trim_lstrip"` // render with TrimBlocks+LStripBlocks on (no block tag present: no effect allowed)
}

func (c *TextCase) ID() string { return fmt.Sprintf("%q trim=%v", string(c.Src), c.Trim) }

func byteClass(b byte) string {
	switch {
	case b == '\n':
		return "LF"
	case b == '\r':
		return "CR"
	case b == '\t':
		return "TAB"
	case b == ' ':
		return "SP"
	case b < 0x20 || b == 0x7f:
		return fmt.Sprintf("0x%02x", b)
	case b >= 0x80:
		return "high"
	case b == '{' || b == '}' || b == '%' || b == '#' || b == '-' || b == '"' || b == '\'' || b == '\\':
		return "sym" + string(b)
	}
	return "plain"
}

func firstDiffClass(want, got string) string {
	i := 0
	for i < len(want) && i < len(got) && want[i] == got[i] {
		i++
	}
	if i < len(want) {
		return byteClass(want[i])
	}
	return "extra-output"
}

func (c *TextCase) Exec(t *eng.T) {
	src := string(c.Src)
	if strings.ContainsAny(src, "{}%#-\"'\\") || !isPlainASCII(src) {
		t.Nontrivial()
	}
	set, _ := px.NewSet(nil)
	if c.Trim {
		set.Options.TrimBlocks = true
		set.Options.LStripBlocks = true
	}
	out := px.RenderIn(set, src, nil)
	t.Outcome(out.Kind())
	if out.Failed() {
		t.Fail("text-error:"+firstSpecial(src), "delimiter-free source %q does not render: %s", src, out)
		return
	}
	if out.S != src {
		t.Fail("text:"+firstDiffClass(src, out.S), "delimiter-free source %q renders to %q", src, out.S)
		return
	}
	if label, o, ok := viaReaders(src, nil); !ok {
		t.Fail("text-reader:"+firstDiffClass(src, o.S), "delimiter-free source %q loaded with %s renders to %s", src, label, o)
	}
	// rendered bytes belong to the caller: they still read the same after other renderings happened
	if tpl, o := px.Compile(set, src); tpl != nil {
		kept, err := tpl.ExecuteBytes(nil)
		// a rendering of the same size (fits into whatever buffer the first one used) and a much longer one
		for _, osrc := range []string{strings.Repeat("#", len(src)), "another template, longer than the text under test: 0123456789 0123456789 {{ 1 }}"} {
			if other, _ := px.Compile(set, osrc); other != nil {
				other.Execute(nil)
				other.ExecuteBytes(nil)
			}
		}
		tpl.Execute(nil)
		if err == nil && string(kept) != src {
			t.Fail("text-bytes-overwritten", "delimiter-free source %q: the bytes returned by ExecuteBytes read %q after later renderings", src, string(kept))
		}
	} else {
		_ = o
	}
	// the same source handed over as a byte slice the caller overwrites after the compilation
	if o2 := px.RenderBytesScribbled(set, src, nil); o2.Failed() || o2.S != src {
		t.Fail("text-frombytes:"+firstDiffClass(src, o2.S), "delimiter-free source %q compiled with FromBytes renders to %s after the caller reused its buffer", src, o2)
	}
}

func isPlainASCII(s string) bool {
	for i := 0; i < len(s); i++ {
		if s[i] < 0x20 && s[i] != '\n' || s[i] >= 0x7f {
			return false
		}
	}
	return true
}

func firstSpecial(s string) string {
	for i := 0; i < len(s); i++ {
		if cl := byteClass(s[i]); cl != "plain" && cl != "SP" {
			return cl
		}
	}
	return "plain"
}

// ---- (b) fragment sequences ----

type Frag struct {
	Kind string
	Src  string
	Out  string
}

var probeCalls int

var bigLiteral = "BIG<" + strings.Repeat("0123456789abcdef", 320) + ">" // 5125 bytes

// readerLoader serves one file through readers with legal but unusual Read behaviour
type readerLoader struct {
	src  string
	mode string // data-with-eof | one-byte | half
}

func (l *readerLoader) Abs(base, name string) string { return name }
func (l *readerLoader) Get(p string) (io.Reader, error) {
	switch l.mode {
	case "data-with-eof":
		return iotest.DataErrReader(strings.NewReader(l.src)), nil // the last data comes together with io.EOF
	case "one-byte":
		return iotest.OneByteReader(strings.NewReader(l.src)), nil
	}
	return iotest.HalfReader(strings.NewReader(l.src)), nil
}

// viaReaders renders src loaded through FromFile, through an include and through ssi from each reader kind
func viaReaders(src string, ctx pongo2.Context) (label string, got px.Out, ok bool) {
	for _, mode := range []string{"data-with-eof", "one-byte", "half"} {
		set := pongo2.NewSet("c06-readers", &readerLoader{src: src, mode: mode})
		tpl, o := px.CompileFile(set, "file")
		if tpl != nil {
			o = px.Exec(tpl, ctx)
		}
		if ref := px.Render(nil, src, ctx); o.String() != ref.String() {
			return "FromFile through a " + mode + " reader", o, false
		}
	}
	return "", px.Out{}, true
}

type sinkWriter struct{ b []byte }

func (w *sinkWriter) Write(p []byte) (int, error) { w.b = append(w.b, p...); return len(p), nil }

func frags() []Frag {
	f := []Frag{
		{"text", "x", "x"},
		{"text", " ", " "},
		{"text", "\n", "\n"},
		{"text-ctl", "\x01", "\x01"},
		{"text-brace", "{", "{"},
		{"text-brace", "}", "}"},
		{"text-close", "%}", "%}"},
		{"text-close", "#}", "#}"},
		{"text-high", "\xc3\xa9\xff", "\xc3\xa9\xff"},
		{"text-bom", "\xef\xbb\xbf", "\xef\xbb\xbf"}, // a byte order mark is three bytes of text like any other, also at the very start

		{"verbatim-empty", "{% verbatim %}{% endverbatim %}", ""},
		{"verbatim", "{% verbatim %}a{% endverbatim %}", "a"},
		{"verbatim-var", "{% verbatim %}{{ 1 }}{% endverbatim %}", "{{ 1 }}"},
		{"verbatim-tag", "{% verbatim %}{% if %}{% endverbatim %}", "{% if %}"},
		{"verbatim-comment", "{% verbatim %}{# c #}{% endverbatim %}", "{# c #}"},
		{"verbatim-lookalike", "{% verbatim %}endverbatim {% endverbati %}{% endverbatim %}", "endverbatim {% endverbati %}"},
		// the end tag's NAME used as an ordinary identifier inside the comment, followed by more constructs
		{"commenttag-endname-var", "{% comment %}{{ endcomment }}{% if 1 %}S1{% endif %}{% endcomment %}", ""},
		{"commenttag-endname-path", "{% comment %}{{ a.endcomment }}{{ 1 }}{% if 1 %}S2{% endif %}{% endcomment %}", ""},
		{"commenttag-endname-expr", "{% comment %}{% if 1 == endcomment %}S3{% endif %}{{ 2 }}{% endcomment %}", ""},
		{"commenttag-nested-open", "{% comment %}{% comment %}S4{% endcomment %}", ""},
		// literal bytes that are white space for Unicode but not for the template language, next to trimming delimiters
		{"text-between-dashes", "{{ 1 -}}\f\u00a0X\u0085\v{{- 1 }}", "1\f\u00a0X\u0085\v1"},
		{"text-between-dash-tags", "{% if 1 -%}\vY\u2028{%- endif %}", "\vY\u2028"},
		// a piece larger than any internal buffer is likely to be
		{"text-big", bigLiteral, bigLiteral},
		{"verbatim-big", "{% verbatim %}" + bigLiteral + "{% endverbatim %}", bigLiteral},
		{"verbatim-in-verbatim", "{% verbatim %}a{% verbatim %}b{% endverbatim %}", "a{% verbatim %}b"},
		{"verbatim-commenttag", "{% verbatim %}{% comment %}x{% endcomment %}{% endverbatim %}", "{% comment %}x{% endcomment %}"},
		{"verbatim-nl", "{% verbatim %}\n{{\n{% endverbatim %}", "\n{{\n"},
		{"comment", "{# #}", ""},
		{"comment", "{##}", ""},
		{"comment-probe", "{# {{ probe() }} {% bogus %} #}", ""},
		{"commenttag-empty", "{% comment %}{% endcomment %}", ""},
		// the tags of a comment block in other valid spellings
		{"commenttag-spelling", "{% comment %}one{%- endcomment %}", ""},
		{"commenttag-spelling", "{%comment%}two{{ probe() }}{%endcomment%}", ""},
		{"commenttag-spelling", "{%  comment  -%}three{%-  endcomment  %}", ""},
		{"commenttag-probe", "{% comment %}x{{ probe() }}{% bogus 1 %}{% if %}{% endcomment %}", ""},
		{"templatetag", "{% templatetag openblock %}", "{%"},
		{"templatetag", "{% templatetag openvariable %}", "{{"},
		{"templatetag", "{% templatetag opencomment %}", "{#"},
		{"var", "{{ 1 }}", "1"},
		{"iftag", "{% if 1 %}y{% endif %}", "y"},
	}
	return f
}

var templatetags = map[string]string{
	"openblock": "{%", "closeblock": "%}", "openvariable": "{{", "closevariable": "}}",
	"openbrace": "{", "closebrace": "}", "opencomment": "{#", "closecomment": "#}",
}

type SeqCase struct {
	Srcs  []eng.Q  `json:"srcs"`
	Outs  []eng.Q  `json:"outs"`
	Kinds []string `json:"kinds"`
	// Opts: rendered in a set with TrimBlocks and LStripBlocks on (what is literal stays literal)
	Opts bool `json:"opts,omitempty"`
}

func (c *SeqCase) ID() string {
	var b strings.Builder
	for _, s := range c.Srcs {
		fmt.Fprintf(&b, "%q+", string(s))
	}
	if c.Opts {
		b.WriteString(" TrimBlocks+LStripBlocks")
	}
	return b.String()
}

func joinForms(a, b string) bool {
	// would the concatenation create an opening delimiter across the boundary?
	if a == "" || b == "" {
		return false
	}
	if a[len(a)-1] == '{' && (b[0] == '{' || b[0] == '%' || b[0] == '#') {
		return true
	}
	return false
}

func (c *SeqCase) Exec(t *eng.T) {
	var src, want strings.Builder
	for i := range c.Srcs {
		if i > 0 && joinForms(src.String(), string(c.Srcs[i])) {
			t.Skip()
			return
		}
		src.WriteString(string(c.Srcs[i]))
		want.WriteString(string(c.Outs[i]))
	}
	kinds := map[string]bool{}
	nontext := false
	for _, k := range c.Kinds {
		kinds[k] = true
		if !strings.HasPrefix(k, "text") {
			nontext = true
		}
	}
	if nontext {
		t.Nontrivial()
	}
	var ks []string
	for k := range kinds {
		ks = append(ks, k)
	}
	sort.Strings(ks)
	kindKey := strings.Join(ks, "+")

	probeCalls = 0
	ctx := pongo2.Context{"probe": func() string { probeCalls++; return "PROBE" }}
	out := px.Render(nil, src.String(), ctx)
	if c.Opts {
		oset, _ := px.NewSet(nil)
		oset.Options.TrimBlocks, oset.Options.LStripBlocks = true, true
		out = px.RenderIn(oset, src.String(), ctx)
	}
	t.Outcome(out.Kind() + out.S)
	if out.Failed() {
		t.Fail("concat-error:"+kindKey, "fragments %s: source %q does not render: %s", c.ID(), src.String(), out)
		return
	}
	if out.S != want.String() {
		t.Fail("concat:"+kindKey, "fragments %s: source %q renders to %q, want the concatenation of the parts %q", c.ID(), src.String(), out.S, want.String())
	}
	if o2 := px.RenderBytesScribbled(pongo2.NewSet("c06-bytes", pongo2.MustNewLocalFileSystemLoader("")), src.String(), ctx); !o2.Failed() && o2.S != want.String() {
		t.Fail("concat-frombytes:"+kindKey, "fragments %s: source %q compiled with FromBytes renders to %q after the caller reused its buffer, want %q", c.ID(), src.String(), o2.S, want.String())
	}
	if label, o, ok := viaReaders(src.String(), ctx); !ok && !out.Failed() {
		t.Fail("concat-reader:"+kindKey, "fragments %s loaded with %s render to %s, want %s", c.ID(), label, clip(o.String()), clip(want.String()))
	}
	// the unbuffered entry point writes the same bytes in the same order
	if tpl, _ := px.Compile(pongo2.NewSet("c06-unbuffered", pongo2.MustNewLocalFileSystemLoader("")), src.String()); tpl != nil {
		w := &sinkWriter{}
		site, msg, pan := eng.Protect(func() { tpl.ExecuteWriterUnbuffered(ctx, w) })
		if pan {
			t.Fail("concat-unbuffered-panic:"+kindKey, "fragments %s: ExecuteWriterUnbuffered panics: %s (%s)", c.ID(), msg, site)
		} else if string(w.b) != want.String() {
			t.Fail("concat-unbuffered:"+kindKey, "fragments %s: ExecuteWriterUnbuffered writes %s, want %s", c.ID(), clip(string(w.b)), clip(want.String()))
		}
	}
	if probeCalls != 0 {
		t.Fail("comment-evaluated:"+kindKey, "fragments %s: a function inside a comment was called %d times", c.ID(), probeCalls)
	}
}

func run(r *eng.Runner) {
	alpha := []string{"a", "b", " ", "\n", "\r", "\t", "{", "}", "%", "#", "-", "\"", "'", "\\", "\x00", "\x01", "\x7f", "\x80", "\xff", "\xc3\xa9", "\xe2\x82\xac"}
	L := 4
	if !r.Quick() {
		L = 5
	}
	r.Group("text", "c06.text", fmt.Sprintf("all delimiter-free strings of <=%d symbols over %d lexer-significant symbols", L, len(alpha)))
	r.NoDedup()
	enum.Strings(alpha, L, func(s string, _ []int) bool {
		if strings.Contains(s, "{{") || strings.Contains(s, "{%") || strings.Contains(s, "{#") {
			return true
		}
		r.Do(&TextCase{Src: eng.Q(s)})
		return !r.Stopped()
	})
	r.Group("text-options", "c06.text", fmt.Sprintf("same, <=%d symbols, with TrimBlocks+LStripBlocks on", L-1))
	r.NoDedup()
	enum.Strings(alpha, L-1, func(s string, _ []int) bool {
		if strings.Contains(s, "{{") || strings.Contains(s, "{%") || strings.Contains(s, "{#") {
			return true
		}
		r.Do(&TextCase{Src: eng.Q(s), Trim: true})
		return !r.Stopped()
	})

	fr := frags()
	n := 3
	if !r.Quick() {
		n = 4
	}
	r.Group("fragments", "c06.seq", fmt.Sprintf("all sequences of <=%d fragments over a %d-fragment alphabet (text, verbatim, comments, comment tag, templatetag, variable, if)", n, len(fr)))
	enum.Seqs(len(fr), n, func(idx []int) bool {
		c := &SeqCase{}
		for _, i := range idx {
			c.Srcs = append(c.Srcs, eng.Q(fr[i].Src))
			c.Outs = append(c.Outs, eng.Q(fr[i].Out))
			c.Kinds = append(c.Kinds, fr[i].Kind)
		}
		r.Do(c)
		return !r.Stopped()
	})

	// verbatim bodies made of delimiter characters only
	vb := []string{"{", "}", "%", "#", "-", " ", "a", "\n"}
	r.Group("verbatim-bodies", "c06.seq", fmt.Sprintf("every string of <=4 symbols over %d delimiter characters as the whole body of a verbatim block: alone, between texts, and as the two halves around a variable", len(vb)))
	enum.Strings(vb, 4, func(body string, _ []int) bool {
		v := eng.Q("{% verbatim %}" + body + "{% endverbatim %}")
		r.Do(&SeqCase{Srcs: []eng.Q{v}, Outs: []eng.Q{eng.Q(body)}, Kinds: []string{"verbatim"}})
		r.Do(&SeqCase{Srcs: []eng.Q{"x", v, "y"}, Outs: []eng.Q{"x", eng.Q(body), "y"}, Kinds: []string{"text", "verbatim", "text"}})
		r.Do(&SeqCase{Srcs: []eng.Q{v, " {{ 1 }} ", v}, Outs: []eng.Q{eng.Q(body), " 1 ", eng.Q(body)}, Kinds: []string{"verbatim", "var", "verbatim"}})
		return !r.Stopped()
	})

	// what surrounds a verbatim block does not reach into it: dash markers of the neighbours, the whitespace options
	vws := []string{"", " ", "\n", " \t", "\n ", "\r\n"}
	r.Group("verbatim-neighbours", "c06.seq", fmt.Sprintf("a verbatim block whose body starts and ends with one of %d whitespace runs, between variables / block tags that carry dash markers on the sides facing it, plain and with TrimBlocks+LStripBlocks on: the body is emitted literally", len(vws)))
	for _, a := range vws {
		for _, b := range vws {
			body := a + "v" + b
			vb := "{% verbatim %}" + body + "{% endverbatim %}"
			for _, opts := range []bool{false, true} {
				r.Do(&SeqCase{Srcs: []eng.Q{eng.Q("{{ 1 -}}" + vb + "{{- 1 }}")}, Outs: []eng.Q{eng.Q("1" + body + "1")}, Kinds: []string{"verbatim-neighbours"}, Opts: opts})
				r.Do(&SeqCase{Srcs: []eng.Q{eng.Q("{% if 1 -%}" + vb + "{%- endif %}")}, Outs: []eng.Q{eng.Q(body)}, Kinds: []string{"verbatim-neighbours"}, Opts: opts})
				r.Do(&SeqCase{Srcs: []eng.Q{eng.Q("{% if 1 %}" + vb + "{% endif %}")}, Outs: []eng.Q{eng.Q(body)}, Kinds: []string{"verbatim-neighbours"}, Opts: opts})
				r.Do(&SeqCase{Srcs: []eng.Q{eng.Q("x{{ 1 }}" + vb + "{% if 1 %}y{% endif %}")}, Outs: []eng.Q{eng.Q("x1" + body + "y")}, Kinds: []string{"verbatim-neighbours"}, Opts: opts})
				// blank text between the block and the trimming neighbour: the blank text goes, the body stays
				r.Do(&SeqCase{Srcs: []eng.Q{eng.Q("[{{ 1 -}} \n" + vb + " \t{{- 1 }}]")}, Outs: []eng.Q{eng.Q("[1" + body + "1]")}, Kinds: []string{"verbatim-neighbours"}, Opts: opts})
				r.Do(&SeqCase{Srcs: []eng.Q{eng.Q("[{# c #}" + vb + "{# c #} {{- 1 }}{{ 1 -}} {# c #}" + vb + "]")}, Outs: []eng.Q{eng.Q("[" + body + "11" + body + "]")}, Kinds: []string{"verbatim-neighbours"}, Opts: opts})
			}
		}
	}

	// every templatetag argument, alone and surrounded by text and a second templatetag
	r.Group("templatetag", "c06.seq", "all 8 templatetag arguments x 3 contexts")
	var names []string
	for k := range templatetags {
		names = append(names, k)
	}
	sort.Strings(names)
	for _, a := range names {
		tt := fmt.Sprintf("{%% templatetag %s %%}", a)
		r.Do(&SeqCase{Srcs: []eng.Q{eng.Q(tt)}, Outs: []eng.Q{eng.Q(templatetags[a])}, Kinds: []string{"templatetag"}})
		r.Do(&SeqCase{Srcs: []eng.Q{"x", eng.Q(tt), "y"}, Outs: []eng.Q{"x", eng.Q(templatetags[a]), "y"}, Kinds: []string{"text", "templatetag", "text"}})
		for _, b := range names {
			tb := fmt.Sprintf("{%% templatetag %s %%}", b)
			r.Do(&SeqCase{Srcs: []eng.Q{eng.Q(tt), eng.Q(tb)}, Outs: []eng.Q{eng.Q(templatetags[a]), eng.Q(templatetags[b])}, Kinds: []string{"templatetag", "templatetag"}})
		}
	}
}

func init() {
	eng.RegisterCase("c06.text", func() eng.Case { return &TextCase{} })
	eng.RegisterCase("c06.seq", func() eng.Case { return &SeqCase{} })
	eng.Register(&eng.Check{
		ID:    "C06",
		Title: "Literal text, verbatim blocks and comments are reproduced exactly",
		Rule: "bounded-exhaustive: (a) every string without an opening delimiter up to the length bound over the lexer-significant symbol alphabet must render to itself; " +
			"(b) every sequence of fragments up to the bound must render to the concatenation of the fragments' individual renderings, and functions inside comments are never called. " +
			"Non-trivial: (a) the string contains a lexer-significant, control or non-ASCII byte; (b) the sequence contains a non-text fragment. Cases are distinct by construction (a) / deduplicated by source (b).",
		Assumptions: []string{
			"verbatim delimiters are written in their canonical spelling ({% verbatim %}, {% endverbatim %}): the lexer recognises no other",
			"joins of two fragments that would form a new opening delimiter are skipped and counted",
			"content of comment tags is lexable (lexing is not evaluation)",
		},
		Run: run,
	})
}

func clip(s string) string {
	if len(s) > 160 {
		return fmt.Sprintf("%q...(%d bytes)", s[:160], len(s))
	}
	return fmt.Sprintf("%q", s)
}
