//go:build verifinst

// Package c20: template cache - one compile per name, coherent under concurrency.
package c20

import (
	"fmt"
	"io"
	"net/http"
	"os"
	"path"
	"path/filepath"
	"runtime"
	"sort"
	"strings"
	"sync"
	"testing/fstest"
	"time"

	"github.com/flosch/pongo2/v6"
	"github.com/flosch/pongo2/v6/vsched"

	"verifmc/internal/deep"
	"verifmc/internal/eng"
	"verifmc/internal/enum"
	"verifmc/internal/px"
	"verifmc/internal/xplore"
)

// ---------- the world: two sets over versioned in-memory files ----------

type world struct {
	sets    [2]*pongo2.TemplateSet
	loaders [2]*px.MemLoader
	version map[string]int
}

// the text after the if tag is where the sets' different TrimBlocks options show
func fileSrc(name string, ver int) string {
	return fmt.Sprintf("%s-v%d{{ g }}{%% if 1 %%}\n{%% endif %%}", name, ver)
}

// what a template compiled from fileSrc(name, ver) renders in set si (set 2 has TrimBlocks on, set 1 has not)
func renderOf(name string, ver, si int) string {
	nl := "\n"
	if si == 1 {
		nl = ""
	}
	return fmt.Sprintf("%s-v%dG%d%s", name, ver, si+1, nl)
}

func newWorld(seamed bool) *world {
	w := &world{version: map[string]int{"/a": 1, "/b": 1, "/c": 1}}
	for i := 0; i < 2; i++ {
		files := map[string]string{}
		for n, v := range w.version {
			files[n] = fileSrc(n, v)
		}
		set, l := px.NewSet(files)
		l.Fail = map[string]bool{}
		if seamed {
			l.OnGet = func(p string) { vsched.PointHere("loader.Get " + p) }
		}
		w.sets[i], w.loaders[i] = set, l
	}
	w.sets[0].Globals["g"] = "G1"
	w.sets[1].Globals["g"] = "G2"
	w.sets[1].Options.TrimBlocks = true
	return w
}

// ---------- sequential histories against the map model ----------

type HistCase struct {
	Ops []string `json:"ops"`
	// Loader: "" = the harness' in-memory loader (rooted names), "fs" = pongo2's FSLoader over an in-memory fs.FS
	// behind a counting wrapper (unrooted names: the cache key is what FSLoader.Abs makes of the name)
	Loader string `json:"loader,omitempty"`
}

func (c *HistCase) ID() string {
	if c.Loader != "" {
		return c.Loader + ": " + strings.Join(c.Ops, " ")
	}
	return strings.Join(c.Ops, " ")
}

// the files of the histories also pull in an included file and an imported macro library of their OWN set
// ... print a global that only the first set has, and the file a pulls in the file c through a name computed at run time
func richSrc(name string, ver int) string {
	s := fileSrc(name, ver) + `{% include "inc" %}{% import "lib" lm %}{{ lm() }}<{{ only1 }}>`
	if strings.HasSuffix(name, "a") {
		s += `{% include lz %}`
	}
	return s
}

func richRender(name string, ver, si int) string {
	only := ""
	if si == 0 {
		only = "X1"
	}
	s := renderOf(name, ver, si) + fmt.Sprintf("I%dL%d<%s>", si+1, si+1, only)
	if strings.HasSuffix(name, "a") {
		c := "c"
		if strings.HasPrefix(name, "/") {
			c = "/c"
		}
		s += richRender(c, 1, si)
	}
	return s
}

// hworld: two sets over one of the loader kinds, with the handles the history needs
type hworld struct {
	sets    [2]*pongo2.TemplateSet
	keyOf   func(raw string) string
	gets    func(si int, key string) int
	setFile func(key, content string)
	setFail func(key string, fail bool)
	close   func() // removes what the world put on disk (nil: nothing)
}

// fixedTime: every file of the "local" worlds carries this modification time, before and after a change of its
// content (what cp -p, rsync -t or a coarse file-system clock produce); a change also keeps the size
var fixedTime = time.Date(2020, 1, 2, 3, 4, 5, 0, time.UTC)

type countingLoader struct {
	inner pongo2.TemplateLoader
	gets  map[string]int
	fail  map[string]bool
}

func (l *countingLoader) Abs(base, name string) string { return l.inner.Abs(base, name) }
func (l *countingLoader) Get(p string) (io.Reader, error) {
	l.gets[p]++
	if l.fail[p] {
		return nil, fmt.Errorf("countingLoader: %s is made to fail", p)
	}
	return l.inner.Get(p)
}

func newHistWorld(kind string) *hworld {
	w := &hworld{}
	if kind == "local" {
		// pongo2's LocalFilesystemLoader over a scratch directory per set (exists while the case runs)
		var ls [2]*countingLoader
		var dirs [2]string
		write := func(i int, name, content string) {
			p := filepath.Join(dirs[i], name)
			if err := os.WriteFile(p, []byte(content), 0o644); err != nil {
				panic("c20: cannot write " + p + ": " + err.Error())
			}
			os.Chtimes(p, fixedTime, fixedTime)
		}
		for i := 0; i < 2; i++ {
			d, err := os.MkdirTemp("", "verif-c20-")
			if err != nil {
				panic("c20: no scratch directory: " + err.Error())
			}
			dirs[i] = d
			for _, n := range []string{"a", "b", "c"} {
				write(i, n, richSrc(n, 1))
			}
			write(i, "inc", fmt.Sprintf("I%d", i+1))
			write(i, "lib", fmt.Sprintf("{%% macro lm() export %%}L%d{%% endmacro %%}", i+1))
			ls[i] = &countingLoader{inner: pongo2.MustNewLocalFileSystemLoader(d), gets: map[string]int{}, fail: map[string]bool{}}
			w.sets[i] = pongo2.NewSet(fmt.Sprint("c20-local-", i), ls[i])
		}
		w.keyOf = func(raw string) string { return path.Clean(raw) }
		w.gets = func(si int, key string) int { return ls[si].gets[filepath.Join(dirs[si], key)] }
		w.setFile = func(key, content string) {
			for i := 0; i < 2; i++ {
				write(i, key, content)
			}
		}
		w.setFail = func(key string, fail bool) {
			for i := 0; i < 2; i++ {
				ls[i].fail[filepath.Join(dirs[i], key)] = fail
			}
		}
		w.close = func() {
			os.RemoveAll(dirs[0])
			os.RemoveAll(dirs[1])
		}
	} else if kind == "fs" {
		var ls [2]*countingLoader
		var fss [2]fstest.MapFS
		for i := 0; i < 2; i++ {
			m := fstest.MapFS{}
			for _, n := range []string{"a", "b", "c"} {
				m[n] = &fstest.MapFile{Data: []byte(richSrc(n, 1))}
			}
			m["inc"] = &fstest.MapFile{Data: []byte(fmt.Sprintf("I%d", i+1))}
			m["lib"] = &fstest.MapFile{Data: []byte(fmt.Sprintf("{%% macro lm() export %%}L%d{%% endmacro %%}", i+1))}
			fss[i] = m
			ls[i] = &countingLoader{inner: pongo2.NewFSLoader(m), gets: map[string]int{}, fail: map[string]bool{}}
			w.sets[i] = pongo2.NewSet(fmt.Sprint("c20-fs-", i), ls[i])
		}
		w.keyOf = func(raw string) string { return path.Clean(raw) }
		w.gets = func(si int, key string) int { return ls[si].gets[key] }
		w.setFile = func(key, content string) {
			for i := 0; i < 2; i++ {
				fss[i][key] = &fstest.MapFile{Data: []byte(content)}
			}
		}
		w.setFail = func(key string, fail bool) {
			for i := 0; i < 2; i++ {
				ls[i].fail[key] = fail
			}
		}
	} else {
		var ls [2]*px.MemLoader
		for i := 0; i < 2; i++ {
			files := map[string]string{}
			for _, n := range []string{"/a", "/b", "/c"} {
				files[n] = richSrc(n, 1)
			}
			files["/inc"] = fmt.Sprintf("I%d", i+1)
			files["/lib"] = fmt.Sprintf("{%% macro lm() export %%}L%d{%% endmacro %%}", i+1)
			set, l := px.NewSet(files)
			l.Fail = map[string]bool{}
			w.sets[i], ls[i] = set, l
		}
		w.keyOf = func(raw string) string { return px.AbsRule("", raw) }
		w.gets = func(si int, key string) int { return ls[si].Gets[key] }
		w.setFile = func(key, content string) {
			for i := 0; i < 2; i++ {
				ls[i].Files[key] = content
			}
		}
		w.setFail = func(key string, fail bool) {
			for i := 0; i < 2; i++ {
				ls[i].Fail[key] = fail
			}
		}
	}
	w.sets[0].Globals["g"] = "G1"
	w.sets[1].Globals["g"] = "G2"
	w.sets[0].Globals["only1"] = "X1" // a global of the first set only
	w.sets[0].Globals["lz"], w.sets[1].Globals["lz"] = "c", "c"
	w.sets[1].Options.TrimBlocks = true
	return w
}

var seqOps = []string{"FC(1,a)", "FC(1,b)", "FC(2,a)", "FC(1,c)", "FC(1,./a)", "CC(1)", "CC(1,a)", "CC(1,b)", "CC(1,a,b)", "CC(1,c,b)", "CC(1,b,a)", "CC(2)", "DBG(1)", "CHG(a)", "FAIL(a)", "OK(a)"}

type mEntry struct {
	id  int // identity class of the cached template
	ver int // content version it was compiled from
}

type model struct {
	cache   [2]map[string]mEntry
	debug   [2]bool
	version map[string]int
	failing map[string]bool
	nextID  int
}

func (c *HistCase) Exec(t *eng.T) {
	if os.Getenv("VERIF_RACEPASS") != "" {
		t.Skip() // sequential histories have nothing to offer to the race detector
		return
	}
	t.Nontrivial()
	w := newHistWorld(c.Loader)
	if w.close != nil {
		defer w.close()
	}
	m := &model{version: map[string]int{}, failing: map[string]bool{}}
	for _, n := range []string{"a", "b", "c"} {
		m.version[w.keyOf(n)] = 1
	}
	m.cache[0], m.cache[1] = map[string]mEntry{}, map[string]mEntry{}
	ids := map[*pongo2.Template]int{} // identity classes observed in the implementation
	implID := func(tp *pongo2.Template, modelID int) (int, bool) {
		if id, ok := ids[tp]; ok {
			return id, true
		}
		ids[tp] = modelID
		return modelID, false
	}
	var trace []string
	for step, op := range c.Ops {
		t.AddTransitions(1)
		name := op[:strings.Index(op, "(")]
		args := strings.Split(strings.TrimSuffix(op[strings.Index(op, "(")+1:], ")"), ",")
		fail := func(kind, format string, a ...any) {
			t.Fail("cache:"+kind, "history %v, step %d %s: %s (trace %v)", c.Ops, step+1, op, fmt.Sprintf(format, a...), trace)
		}
		switch name {
		case "FC":
			si := int(args[0][0] - '1')
			raw := args[1]
			key := w.keyOf(raw)
			set := w.sets[si]
			before := w.gets(si, key)
			tp, err := set.FromCache(raw)
			fetched := w.gets(si, key) - before
			// model
			var wantErr bool
			var want mEntry
			wantFetch := 0
			if m.debug[si] {
				wantFetch = 1
				if m.failing[key] {
					wantErr = true
				} else {
					m.nextID++
					want = mEntry{m.nextID, m.version[key]}
				}
			} else if e, ok := m.cache[si][key]; ok {
				want = e
			} else {
				wantFetch = 1
				if m.failing[key] {
					wantErr = true
				} else {
					m.nextID++
					want = mEntry{m.nextID, m.version[key]}
					m.cache[si][key] = want
				}
			}
			trace = append(trace, fmt.Sprintf("%s->err=%v fetch=%d", op, err != nil, fetched))
			if (err != nil) != wantErr {
				fail("error-mismatch", "returned error=%v, the cache model says error=%v", err, wantErr)
				return
			}
			if fetched != wantFetch {
				kind := "extra-fetch"
				if fetched < wantFetch {
					kind = "missing-fetch"
				}
				fail(kind, "fetched the file %d times, the cache model says %d (debug=%v cached=%v)", fetched, wantFetch, m.debug[si], m.cache[si])
				return
			}
			if err != nil {
				continue
			}
			got, seen := implID(tp, want.id)
			if got != want.id {
				fail("wrong-object", "returned the template object #%d, the model expects #%d (seen before: %v)", got, want.id, seen)
				return
			}
			out := px.Exec(tp, nil)
			wantOut := richRender(key, want.ver, si)
			if out.Failed() || out.S != wantOut {
				fail("wrong-content", "the returned template renders %s, want %q", out, wantOut)
				return
			}
		case "CC":
			si := int(args[0][0] - '1')
			if len(args) == 1 {
				w.sets[si].CleanCache()
				m.cache[si] = map[string]mEntry{}
			} else {
				w.sets[si].CleanCache(args[1:]...)
				for _, n := range args[1:] {
					delete(m.cache[si], w.keyOf(n))
				}
			}
			trace = append(trace, op)
		case "DBG":
			si := int(args[0][0] - '1')
			w.sets[si].Debug = !w.sets[si].Debug
			m.debug[si] = !m.debug[si]
			trace = append(trace, op)
		case "CHG":
			key := w.keyOf(args[0])
			m.version[key]++
			w.setFile(key, richSrc(key, m.version[key]))
			trace = append(trace, op)
		case "FAIL", "OK":
			key := w.keyOf(args[0])
			m.failing[key] = name == "FAIL"
			w.setFail(key, name == "FAIL")
			trace = append(trace, op)
		}
	}
	// final state: the abstract state is (cache contents per set, debug flags); count distinct ones via the outcome
	var st []string
	for i := 0; i < 2; i++ {
		var ks []string
		for k, e := range m.cache[i] {
			ks = append(ks, fmt.Sprintf("%s:v%d", k, e.ver))
		}
		sort.Strings(ks)
		st = append(st, fmt.Sprintf("%v/%v", ks, m.debug[i]))
	}
	t.Outcome(strings.Join(st, "|") + fmt.Sprint(m.failing[w.keyOf("a")], m.version[w.keyOf("a")]))
}

// ---------- concurrent scenarios ----------

type ConcCase struct {
	Progs [][]string `json:"progs"` // one operation list per thread; ops: FC(a) FC(b) CC() CC(a) on set 1
	Bound int        `json:"bound"`
	Max   int        `json:"max_schedules"`
}

func (c *ConcCase) ID() string {
	var p []string
	for _, pr := range c.Progs {
		p = append(p, strings.Join(pr, ","))
	}
	return strings.Join(p, " || ") + fmt.Sprintf(" bound=%d", c.Bound)
}

type opResult struct {
	op  string
	tp  *pongo2.Template
	err bool
}

// linearizable: is there an interleaving of the threads' operations (program order kept) for which the
// sequential cache model yields the same identities (as equivalence classes), errors and total fetch counts?
func linearizable(progs [][]string, res [][]opResult, fetches map[string]int) (bool, string) {
	type st struct {
		cache   map[string]int
		nextID  int
		fetched map[string]int
	}
	idx := make([]int, len(progs))
	var try func(s st, classes map[*pongo2.Template]int) bool
	try = func(s st, classes map[*pongo2.Template]int) bool {
		done := true
		for ti := range progs {
			if idx[ti] < len(progs[ti]) {
				done = false
				op := progs[ti][idx[ti]]
				r := res[ti][idx[ti]]
				// apply op to a copy of the model
				ns := st{cache: map[string]int{}, nextID: s.nextID, fetched: map[string]int{}}
				for k, v := range s.cache {
					ns.cache[k] = v
				}
				for k, v := range s.fetched {
					ns.fetched[k] = v
				}
				nc := map[*pongo2.Template]int{}
				for k, v := range classes {
					nc[k] = v
				}
				ok := true
				switch {
				case strings.HasPrefix(op, "FC("):
					key := "/" + op[3:len(op)-1]
					id, hit := ns.cache[key]
					if !hit {
						ns.nextID++
						id = ns.nextID
						ns.cache[key] = id
						ns.fetched[key]++
					}
					if r.err {
						ok = false
					} else if prev, seen := nc[r.tp]; seen {
						ok = prev == id
					} else {
						// a new object must correspond to a new model id
						for _, v := range nc {
							if v == id {
								ok = false
							}
						}
						nc[r.tp] = id
					}
				case op == "CC()":
					ns.cache = map[string]int{}
				case strings.HasPrefix(op, "CC("):
					delete(ns.cache, "/"+op[3:len(op)-1])
				}
				if ok {
					idx[ti]++
					if try(ns, nc) {
						idx[ti]--
						return true
					}
					idx[ti]--
				}
			}
		}
		if done {
			for k, n := range fetches {
				if s.fetched[k] != n {
					return false
				}
			}
			for k, n := range s.fetched {
				if fetches[k] != n {
					return false
				}
			}
			return true
		}
		return false
	}
	ok := try(st{cache: map[string]int{}, fetched: map[string]int{}}, map[*pongo2.Template]int{})
	return ok, ""
}

// racePass: the thread programs on real goroutines in a race-detector build without the controlled scheduler;
// every free-running execution must be linearisable as well.
func (c *ConcCase) racePass(t *eng.T) {
	t.Nontrivial()
	for rep := 0; rep < 100; rep++ {
		w := newWorld(false)
		results := make([][]opResult, len(c.Progs))
		var wg sync.WaitGroup
		start := make(chan struct{})
		for ti, prog := range c.Progs {
			wg.Add(1)
			go func(ti int, prog []string) {
				defer wg.Done()
				<-start
				var rs []opResult
				for _, op := range prog {
					switch {
					case strings.HasPrefix(op, "FC("):
						tp, err := w.sets[0].FromCache(op[3 : len(op)-1])
						rs = append(rs, opResult{op: op, tp: tp, err: err != nil})
					case op == "CC()":
						w.sets[0].CleanCache()
						rs = append(rs, opResult{op: op})
					case strings.HasPrefix(op, "CC("):
						w.sets[0].CleanCache(op[3 : len(op)-1])
						rs = append(rs, opResult{op: op})
					}
				}
				results[ti] = rs
			}(ti, prog)
		}
		close(start)
		wg.Wait()
		t.AddStates(1)
		if rep%32 == 0 {
			t.Heartbeat()
		}
		fetches := map[string]int{}
		for k, n := range w.loaders[0].Gets {
			if n > 0 {
				fetches[k] = n
			}
		}
		if ok, _ := linearizable(c.Progs, results, fetches); !ok {
			t.Fail("racepass-not-linearisable", "free-running repetition %d of %v: results and fetches %v are not explained by any interleaving of the operations", rep, c.Progs, fetches)
			return
		}
	}
	t.Outcome("race-pass")
}

func (c *ConcCase) Exec(t *eng.T) {
	if os.Getenv("VERIF_RACEPASS") != "" {
		c.racePass(t)
		return
	}
	t.Nontrivial()
	var lastW *world
	var results [][]opResult
	var curRoots map[string]any
	sc := xplore.Scenario{Name: "cache-not-linearisable", Rescan: func() [][2]uintptr { return deep.Ranges(curRoots) }, Make: func() ([]func() any, [][2]uintptr, func([]any) string) {
		w := newWorld(true)
		lastW = w
		results = make([][]opResult, len(c.Progs))
		var bodies []func() any
		for ti, prog := range c.Progs {
			ti, prog := ti, prog
			bodies = append(bodies, func() any {
				var rs []opResult
				for _, op := range prog {
					switch {
					case strings.HasPrefix(op, "FC("):
						tp, err := w.sets[0].FromCache(op[3 : len(op)-1])
						rs = append(rs, opResult{op: op, tp: tp, err: err != nil})
					case op == "CC()":
						w.sets[0].CleanCache()
						rs = append(rs, opResult{op: op})
					case strings.HasPrefix(op, "CC("):
						w.sets[0].CleanCache(op[3 : len(op)-1])
						rs = append(rs, opResult{op: op})
					}
				}
				results[ti] = rs
				return len(rs)
			})
		}
		roots := map[string]any{"set": w.sets[0]}
		for _, v := range pongo2.VerifPkgVars() {
			roots["pkg."+v.Name] = v.Ptr
		}
		curRoots = roots
		shared := deep.Ranges(roots)
		judge := func(res []any) string {
			fetches := map[string]int{}
			for k, n := range lastW.loaders[0].Gets {
				if n > 0 {
					fetches[k] = n
				}
			}
			for ti := range c.Progs {
				if len(results[ti]) != len(c.Progs[ti]) {
					return fmt.Sprintf("thread %d did not finish its operations", ti)
				}
			}
			if ok, _ := linearizable(c.Progs, results, fetches); !ok {
				var d []string
				for ti, rs := range results {
					for _, r := range rs {
						d = append(d, fmt.Sprintf("t%d:%s->%p err=%v", ti, r.op, r.tp, r.err))
					}
				}
				return fmt.Sprintf("not linearisable w.r.t. the cache model: results %v, fetches %v (no interleaving of the operations explains the returned objects and the number of loads)", d, fetches)
			}
			return ""
		}
		return bodies, shared, judge
	}}
	st := xplore.Explore(sc, c.Bound, c.Max, t.Heartbeat)
	t.AddStates(int64(st.Schedules))
	t.AddTransitions(int64(st.Points))
	t.AddExtra("distinct_interleavings_executed", int64(len(st.DistinctTraces)))
	if !st.Complete {
		t.AddExtra("scenarios_capped", 1)
	}
	t.Outcome(fmt.Sprint(st.Schedules > 3))
	for _, f := range st.Findings {
		if f.Kind == "nondeterministic" {
			// a replay that diverges is a fault of the harness' control over nondeterminism (e.g. Go map order
			// deciding the order of events), not a statement about the property: counted, never an alarm
			t.AddExtra("scenarios_with_nondeterministic_replay", 1)
			continue
		}
		t.Fail(f.Key, "%s [%s] schedule=%v", f.Desc, c.ID(), f.Schedule)
	}
}

// ---------- a set with two loaders: the first loader that has a name wins, at every load ----------

// OverrideCase: a set whose second loader has the file and whose first loader gains it later (an override is
// installed): every load that happens after that - a first FromCache, one after CleanCache, every one in Debug mode -
// takes the first loader's file.
type OverrideCase struct {
	Ops []string `json:"ops"` // FC, OVR (the first loader gains the file), DEL (loses it again), CC, CCN (CleanCache(name)), DBG
}

func (c *OverrideCase) ID() string { return "two loaders: " + strings.Join(c.Ops, " ") }

func (c *OverrideCase) Exec(t *eng.T) {
	if os.Getenv("VERIF_RACEPASS") != "" {
		t.Skip()
		return
	}
	t.Nontrivial()
	l1, l2 := px.NewMemLoader(map[string]string{}), px.NewMemLoader(map[string]string{"/a": "default"})
	set := pongo2.NewSet("c20-override", l1, l2)
	cached, debug := "", false // model: text the cache holds ("" = nothing)
	var outs []string
	for step, op := range c.Ops {
		switch op {
		case "OVR":
			l1.Files["/a"] = "override"
		case "DEL":
			delete(l1.Files, "/a")
		case "CC":
			set.CleanCache()
			cached = ""
		case "CCN":
			set.CleanCache("/a")
			cached = ""
		case "DBG":
			set.Debug = !set.Debug
			debug = !debug
		case "FC":
			now := "default"
			if _, has := l1.Files["/a"]; has {
				now = "override"
			}
			want := cached
			if debug {
				want = now
			} else if cached == "" {
				cached, want = now, now
			}
			tp, err := set.FromCache("/a")
			got := "ERR"
			if err == nil {
				got = px.Exec(tp, nil).S
			}
			outs = append(outs, got)
			if got != want {
				t.Fail("cache:wrong-loader", "%s: step %d FromCache(/a) renders %q, the first loader that has the file serves %q (cache model: %q, debug %v)", c.ID(), step+1, got, want, cached, debug)
				return
			}
		}
	}
	t.Outcome(strings.Join(outs, ","))
}

// ---------- a set layered on another set: a loader of set A obtains its source through set B's cache ----------

type layeredLoader struct {
	inner *pongo2.TemplateSet
	gets  int
}

func (l *layeredLoader) Abs(base, name string) string { return px.AbsRule(base, name) }
func (l *layeredLoader) Get(p string) (io.Reader, error) {
	l.gets++
	tp, err := l.inner.FromCache(p)
	if err != nil {
		return nil, err
	}
	out, err := tp.Execute(nil)
	if err != nil {
		return nil, err
	}
	return strings.NewReader("A[" + out + "]"), nil
}

// LayeredCase: the caches of two sets are separate objects, so using set B's cache while set A is loading (A's loader
// renders B's template of the same name) works like any other loader, and each set still compiles a name once.
type LayeredCase struct {
	Ops []string `json:"ops"` // FA, FB (FromCache on A / B), CA, CB (CleanCache on A / B)
}

func (c *LayeredCase) ID() string { return "layered sets: " + strings.Join(c.Ops, " ") }

func (c *LayeredCase) Exec(t *eng.T) {
	if os.Getenv("VERIF_RACEPASS") != "" {
		t.Skip()
		return
	}
	t.Nontrivial()
	lb := px.NewMemLoader(map[string]string{"/a": "B{{ 1 }}"})
	setB := pongo2.NewSet("c20-layer-b", lb)
	la := &layeredLoader{inner: setB}
	setA := pongo2.NewSet("c20-layer-a", la)
	var inA, inB bool // model: is the name cached
	wantA, wantB := 0, 0
	var outs []string
	for step, op := range c.Ops {
		switch op {
		case "CA":
			setA.CleanCache()
			inA = false
		case "CB":
			setB.CleanCache("/a")
			inB = false
		case "FA", "FB":
			set, want := setA, "A[B1]"
			if op == "FB" {
				set, want = setB, "B1"
				if !inB {
					inB, wantB = true, wantB+1
				}
			} else if !inA {
				inA, wantA = true, wantA+1
				if !inB {
					inB, wantB = true, wantB+1
				}
			}
			tp, err := set.FromCache("/a")
			got := "ERR"
			if err == nil {
				got = px.Exec(tp, nil).S
			}
			outs = append(outs, got)
			if got != want {
				t.Fail("sets:layered", "%s: step %d renders %q, want %q", c.ID(), step+1, got, want)
				return
			}
			if la.gets != wantA || lb.Gets["/a"] != wantB {
				t.Fail("sets:layered-fetches", "%s: after step %d the loaders were asked %d (A) / %d (B) times, the cache model says %d / %d", c.ID(), step+1, la.gets, lb.Gets["/a"], wantA, wantB)
				return
			}
		}
	}
	t.Outcome(strings.Join(outs, ","))
}

// ---------- bans, globals and options of two sets ----------

// IsoCase: a history of settings made on two sets (bans of tags and filters, a global, an option) followed by probes
// on BOTH sets: each set shows exactly what was done to it.
type IsoCase struct {
	Ops []string `json:"ops"` // BT(set,tag) BF(set,filter) G(set) O(set) C(set)
}

func (c *IsoCase) ID() string { return "isolation: " + strings.Join(c.Ops, " ") }

func (c *IsoCase) Exec(t *eng.T) {
	if os.Getenv("VERIF_RACEPASS") != "" {
		t.Skip() // sequential: nothing for the race detector
		return
	}
	t.Nontrivial()
	var sets [2]*pongo2.TemplateSet
	type st struct {
		tags, filters map[string]bool
		frozen        bool
		global, opt   bool
	}
	var m [2]st
	for i := range sets {
		sets[i], _ = px.NewSet(map[string]string{"/f": "file"})
		m[i] = st{tags: map[string]bool{}, filters: map[string]bool{}}
	}
	for step, op := range c.Ops {
		si := int(op[strings.Index(op, "(")+1] - '1')
		arg := strings.TrimSuffix(op[strings.Index(op, ",")+1:], ")")
		switch {
		case strings.HasPrefix(op, "BT("):
			err := sets[si].BanTag(arg)
			want := m[si].frozen || m[si].tags[arg]
			if (err != nil) != want {
				t.Fail("isolation:ban-result", "%s: step %d %s returned error=%v, expected refused=%v", c.ID(), step+1, op, err, want)
				return
			}
			if err == nil {
				m[si].tags[arg] = true
			}
		case strings.HasPrefix(op, "BF("):
			err := sets[si].BanFilter(arg)
			want := m[si].frozen || m[si].filters[arg]
			if (err != nil) != want {
				t.Fail("isolation:ban-result", "%s: step %d %s returned error=%v, expected refused=%v", c.ID(), step+1, op, err, want)
				return
			}
			if err == nil {
				m[si].filters[arg] = true
			}
		case strings.HasPrefix(op, "G("):
			sets[si].Globals["gv"] = fmt.Sprint("G", si+1)
			m[si].global = true
		case strings.HasPrefix(op, "O("):
			sets[si].Options.TrimBlocks = true
			m[si].opt = true
		case strings.HasPrefix(op, "C("):
			if _, err := sets[si].FromString("plain"); err != nil {
				t.Fail("isolation:compile", "%s: step %d: a plain template does not compile: %v", c.ID(), step+1, err)
				return
			}
			m[si].frozen = true
		}
	}
	// probes on both sets
	var outcome []string
	for i := range sets {
		for _, p := range []struct{ kind, name, src, want string }{
			{"tag", "lorem", "{% lorem 1 w %}", "orem"}, {"tag", "now", `{% now "2006" fake %}`, "2014"},
			{"filter", "upper", `{{ "a"|upper }}`, "A"}, {"filter", "lower", `{{ "B"|lower }}`, "b"},
		} {
			o := px.RenderIn(sets[i], p.src, nil)
			banned := (p.kind == "tag" && m[i].tags[p.name]) || (p.kind == "filter" && m[i].filters[p.name])
			outcome = append(outcome, fmt.Sprint(banned))
			if banned != o.Failed() {
				t.Fail("isolation:bans", "%s: afterwards set %d renders %s as %s, but the %s %s is banned there: %v", c.ID(), i+1, p.src, o, p.kind, p.name, banned)
				return
			}
			if !banned && !strings.Contains(o.S, p.want) {
				t.Fail("isolation:bans", "%s: afterwards set %d renders %s as %s", c.ID(), i+1, p.src, o)
				return
			}
		}
		o := px.RenderIn(sets[i], "[{{ gv }}]{% if 1 %}\n{% endif %}", nil)
		want := "["
		if m[i].global {
			want += fmt.Sprint("G", i+1)
		}
		want += "]"
		if !m[i].opt {
			want += "\n"
		}
		if o.Failed() || o.S != want {
			t.Fail("isolation:globals-options", "%s: afterwards set %d renders the probe for its global and TrimBlocks as %s, want %q", c.ID(), i+1, o, want)
			return
		}
	}
	t.Outcome(strings.Join(outcome, ""))
}

// ---------- concurrent loads through pongo2's own loaders ----------

// ConcLoaderCase: two sets with loaders of their own (pongo2's FSLoader or HttpFilesystemLoader over separate
// in-memory file systems, or LocalFilesystemLoader over scratch directories); every thread loads one file through
// one of the sets. The wrapper around each loader yields to the scheduler AFTER the inner loader has handed out
// its reader and before pongo2 reads it, so what one load does to a reader another load still holds is explored.
type ConcLoaderCase struct {
	Loader string   `json:"loader"` // fs | http | local
	Ops    []string `json:"ops"`    // one per thread: FC(set,name) / FF(set,name) (FromFile)
	Bound  int      `json:"bound"`
}

func (c *ConcLoaderCase) ID() string {
	return fmt.Sprintf("%s loaders: %s bound=%d", c.Loader, strings.Join(c.Ops, " || "), c.Bound)
}

type yieldingLoader struct {
	inner  pongo2.TemplateLoader
	seamed bool
}

func (l *yieldingLoader) Abs(base, name string) string { return l.inner.Abs(base, name) }
func (l *yieldingLoader) Get(p string) (io.Reader, error) {
	r, err := l.inner.Get(p)
	if l.seamed {
		vsched.PointHere("loader returned the reader of " + p)
	}
	return r, err
}

// texts of different lengths, so that a reader over foreign bytes is seen in the rendering
func loaderText(si int, name string) string {
	return fmt.Sprintf("set%d:%s:%s", si+1, name, strings.Repeat(name, 3+2*si+len(name)))
}

func (c *ConcLoaderCase) world(seamed bool) (sets [2]*pongo2.TemplateSet, done func()) {
	var dirs []string
	for i := 0; i < 2; i++ {
		m := fstest.MapFS{}
		for _, n := range []string{"a", "bb"} {
			m[n] = &fstest.MapFile{Data: []byte(loaderText(i, n))}
		}
		var inner pongo2.TemplateLoader
		switch c.Loader {
		case "fs":
			inner = pongo2.NewFSLoader(m)
		case "http":
			inner = pongo2.MustNewHttpFileSystemLoader(http.FS(m), "")
		case "local":
			d, err := os.MkdirTemp("", "verif-c20-")
			if err != nil {
				panic("c20: no scratch directory: " + err.Error())
			}
			dirs = append(dirs, d)
			for _, n := range []string{"a", "bb"} {
				os.WriteFile(filepath.Join(d, n), []byte(loaderText(i, n)), 0o644)
			}
			inner = pongo2.MustNewLocalFileSystemLoader(d)
		}
		sets[i] = pongo2.NewSet(fmt.Sprint("c20-loader-", i), &yieldingLoader{inner: inner, seamed: seamed})
	}
	return sets, func() {
		for _, d := range dirs {
			os.RemoveAll(d)
		}
	}
}

func (c *ConcLoaderCase) body(sets [2]*pongo2.TemplateSet, op string) func() any {
	args := strings.Split(strings.TrimSuffix(op[3:], ")"), ",")
	si := int(args[0][0] - '1')
	return func() any {
		var tp *pongo2.Template
		var err error
		if strings.HasPrefix(op, "FF(") {
			tp, err = sets[si].FromFile(args[1])
		} else {
			tp, err = sets[si].FromCache(args[1])
		}
		if err != nil {
			return "ERR " + err.Error()
		}
		return px.Exec(tp, nil).String()
	}
}

func (c *ConcLoaderCase) Exec(t *eng.T) {
	t.Nontrivial()
	if os.Getenv("VERIF_RACEPASS") != "" {
		// free-running, under the race detector
		for rep := 0; rep < 100; rep++ {
			sets, done := c.world(false)
			var wg sync.WaitGroup
			res := make([]string, len(c.Ops))
			for i, op := range c.Ops {
				wg.Add(1)
				b := c.body(sets, op)
				go func(i int) { defer wg.Done(); res[i] = fmt.Sprint(b()) }(i)
			}
			wg.Wait()
			done()
			t.AddStates(1)
			for i, op := range c.Ops {
				if want := c.want(op); res[i] != want {
					t.Fail("loader-mixup:"+c.Loader, "free-running repetition %d: %s returned %q, want %q [%s]", rep, op, res[i], want, c.ID())
					return
				}
			}
		}
		t.Outcome("race-pass")
		return
	}
	// sync.Pool and similar per-P caches of the runtime are outside the scheduler's control: one P makes what they
	// hand out a function of the schedule alone
	defer runtime.GOMAXPROCS(runtime.GOMAXPROCS(1))
	var cleanup []func()
	sc := xplore.Scenario{Name: "loader-mixup:" + c.Loader, Make: func() ([]func() any, [][2]uintptr, func([]any) string) {
		sets, done := c.world(true)
		cleanup = append(cleanup, done)
		var bodies []func() any
		for _, op := range c.Ops {
			bodies = append(bodies, c.body(sets, op))
		}
		roots := map[string]any{"set1": sets[0], "set2": sets[1]}
		for _, v := range pongo2.VerifPkgVars() {
			roots["pkg."+v.Name] = v.Ptr
		}
		judge := func(res []any) string {
			for i, op := range c.Ops {
				if got, want := fmt.Sprint(res[i]), c.want(op); got != want {
					return fmt.Sprintf("%s returned a template that renders %q, the file it names holds %q", op, got, want)
				}
			}
			return ""
		}
		return bodies, deep.Ranges(roots), judge
	}}
	st := xplore.Explore(sc, c.Bound, 20000, t.Heartbeat)
	for _, f := range cleanup {
		f()
	}
	t.AddStates(int64(st.Schedules))
	t.AddTransitions(int64(st.Points))
	t.AddExtra("distinct_interleavings_executed", int64(len(st.DistinctTraces)))
	if !st.Complete {
		t.AddExtra("scenarios_capped", 1)
	}
	t.Outcome(fmt.Sprint(st.Schedules > 1))
	for _, f := range st.Findings {
		if f.Kind == "nondeterministic" {
			t.AddExtra("scenarios_with_nondeterministic_replay", 1)
			continue
		}
		t.Fail(f.Key, "%s [%s] schedule=%v", f.Desc, c.ID(), f.Schedule)
	}
}

func (c *ConcLoaderCase) want(op string) string {
	args := strings.Split(strings.TrimSuffix(op[3:], ")"), ",")
	return "ok \"" + loaderText(int(args[0][0]-'1'), args[1]) + "\""
}

func run(r *eng.Runner) {
	depth := 5
	if !r.Quick() {
		depth = 6
	}
	r.Group("sequential-histories", "c20.hist", fmt.Sprintf("every history of 0..%d operations over %d operations {FromCache(set, name) incl. a second spelling of the same file, CleanCache(), CleanCache(name), CleanCache(name, name) incl. a name that is not cached, toggle Debug, change a file's content, make a file fail / work again} on two sets, replayed on the real sets; every return value (error, object identity class, rendered content incl. the set's own global) and the loader's fetch count per call compared with the map model", depth, len(seqOps)))
	enum.Seqs(len(seqOps), depth, func(idx []int) bool {
		ops := make([]string, len(idx))
		for i, x := range idx {
			ops[i] = seqOps[x]
		}
		r.Do(&HistCase{Ops: ops})
		return !r.Stopped()
	})
	// the same histories, one operation shorter, over pongo2's own FSLoader (cache keys are what its Abs makes of a name)
	fsOps := []string{"FC(1,a)", "FC(1,b)", "FC(2,a)", "FC(1,c)", "FC(1,./a)", "FC(1,d/../a)", "CC(1)", "CC(1,a)", "CC(1,./a)", "CC(1,b,./a)", "CC(2)", "DBG(1)", "CHG(a)", "FAIL(a)", "OK(a)"}
	r.Group("sequential-histories-fsloader", "c20.hist", fmt.Sprintf("every history of 0..%d operations over %d operations on two sets whose loader is pongo2's FSLoader (in-memory fs.FS behind a counting wrapper), with non-canonical spellings (./a, d/../a) of a name in FromCache and CleanCache", depth-1, len(fsOps)))
	enum.Seqs(len(fsOps), depth-1, func(idx []int) bool {
		ops := make([]string, len(idx))
		for i, x := range idx {
			ops[i] = fsOps[x]
		}
		r.Do(&HistCase{Ops: ops, Loader: "fs"})
		return !r.Stopped()
	})
	ovOps := []string{"FC", "OVR", "DEL", "CC", "CCN", "DBG"}
	r.Group("two-loaders-override", "c20.override", fmt.Sprintf("every history of 0..%d operations over {FromCache, the first loader gains / loses the file the second loader has, CleanCache(), CleanCache(name), toggle Debug} on a set with two loaders: every load takes the file of the first loader that has it", depth+1))
	enum.Seqs(len(ovOps), depth+1, func(idx []int) bool {
		ops := make([]string, len(idx))
		for i, x := range idx {
			ops[i] = ovOps[x]
		}
		r.Do(&OverrideCase{Ops: ops})
		return !r.Stopped()
	})
	layOps := []string{"FA", "FB", "CA", "CB"}
	r.Group("layered-sets", "c20.layered", fmt.Sprintf("every history of 1..%d operations over {FromCache on A, FromCache on B, CleanCache on A, CleanCache(name) on B} where set A's loader obtains its source through set B's FromCache: every call returns, renders the layered text, and each set loads a name once per cache lifetime", depth+1))
	enum.Seqs(len(layOps), depth+1, func(idx []int) bool {
		ops := make([]string, len(idx))
		for i, x := range idx {
			ops[i] = layOps[x]
		}
		r.Do(&LayeredCase{Ops: ops})
		return !r.Stopped()
	})
	// settings of one set are none of the other set's business
	isoOps := []string{"BT(1,lorem)", "BT(1,now)", "BF(1,upper)", "BF(1,lower)", "BT(2,lorem)", "BF(2,upper)", "G(1)", "G(2)", "O(1)", "O(2)", "C(1)", "C(2)"}
	isoDepth := 4
	if !r.Quick() {
		isoDepth = 5
	}
	r.Group("set-isolation", "c20.iso", fmt.Sprintf("every history of 0..%d operations over %d operations {ban a tag / a filter on set 1 or 2, set a global, switch TrimBlocks on, compile a first template (which freezes the bans)} on two fresh sets, every ban result compared with the model, followed by probes of two tags, two filters, the global and the option on BOTH sets", isoDepth, len(isoOps)))
	enum.Seqs(len(isoOps), isoDepth, func(idx []int) bool {
		ops := make([]string, len(idx))
		for i, x := range idx {
			ops[i] = isoOps[x]
		}
		r.Do(&IsoCase{Ops: ops})
		return !r.Stopped()
	})
	// and over pongo2's LocalFilesystemLoader on real files whose size and modification time stay the same when their
	// content changes
	localOps := []string{"FC(1,a)", "FC(1,b)", "FC(2,a)", "FC(1,./a)", "CC(1)", "CC(1,a)", "CC(2)", "DBG(1)", "CHG(a)"}
	r.Group("sequential-histories-localfs", "c20.hist", fmt.Sprintf("every history of 0..%d operations over %d operations on two sets whose loader is pongo2's LocalFilesystemLoader over a scratch directory; a change of a file's content keeps its size and its modification time", depth-1, len(localOps)))
	enum.Seqs(len(localOps), depth-1, func(idx []int) bool {
		ops := make([]string, len(idx))
		for i, x := range idx {
			ops[i] = localOps[x]
		}
		r.Do(&HistCase{Ops: ops, Loader: "local"})
		return !r.Stopped()
	})
	if r.Shard == 0 {
		r.AddStates(1)
	}

	alpha := []string{"FC(a)", "FC(b)", "CC()", "CC(a)"}
	var progs [][]string
	enum.Seqs(len(alpha), 2, func(idx []int) bool {
		if len(idx) == 0 {
			return true
		}
		p := make([]string, len(idx))
		for i, x := range idx {
			p[i] = alpha[x]
		}
		progs = append(progs, p)
		return true
	})
	bound, maxS := 2, 20000
	if !r.Quick() {
		bound, maxS = 3, 300000
	}
	r.Group("concurrent-loaders", "c20.concloader", fmt.Sprintf("two (thorough: also three) threads, each loading one file (FromCache / FromFile) through one of two sets that have loaders of their own - pongo2's FSLoader, HttpFilesystemLoader, LocalFilesystemLoader - with a scheduling point between the loader handing out its reader and pongo2 reading it: ALL schedules up to %d preemptions; every returned template renders the text of the file it names", bound))
	lops := []string{"FC(1,a)", "FC(1,bb)", "FC(2,a)", "FC(2,bb)", "FF(1,a)", "FF(2,bb)"}
	for _, kind := range []string{"fs", "http", "local"} {
		for i := range lops {
			for j := i; j < len(lops); j++ {
				r.Do(&ConcLoaderCase{Loader: kind, Ops: []string{lops[i], lops[j]}, Bound: bound})
				if !r.Quick() {
					for k := j; k < len(lops); k++ {
						r.Do(&ConcLoaderCase{Loader: kind, Ops: []string{lops[i], lops[j], lops[k]}, Bound: 2})
					}
				}
			}
		}
	}
	r.Group("concurrent-2", "c20.conc", fmt.Sprintf("two threads, each running one of the %d operation lists of length 1..2 over {FromCache(a), FromCache(b), CleanCache(), CleanCache(a)} on one set: ALL schedules up to %d preemptions (scheduling points: the cache mutex, loader I/O, stores into the set); every schedule must be linearisable w.r.t. the cache model (object identity classes and number of loads), race-free and deadlock-free", len(progs), bound))
	for i, p1 := range progs {
		for j, p2 := range progs {
			if j < i {
				continue // symmetric
			}
			if r.Quick() && len(p1) == 2 && len(p2) == 2 && (i+j)%3 != 0 {
				continue
			}
			r.Do(&ConcCase{Progs: [][]string{p1, p2}, Bound: bound, Max: maxS})
		}
	}
	if !r.Quick() {
		r.Group("concurrent-3", "c20.conc", "three threads with one operation each (all multisets over the 4 operations), preemption bound 3; three threads of which one runs two operations, bound 2; four threads with one operation each (all multisets), bound 2")
		for i := range alpha {
			for j := i; j < len(alpha); j++ {
				for k := j; k < len(alpha); k++ {
					r.Do(&ConcCase{Progs: [][]string{{alpha[i]}, {alpha[j]}, {alpha[k]}}, Bound: 3, Max: maxS})
					for _, p := range progs {
						if len(p) == 2 {
							r.Do(&ConcCase{Progs: [][]string{p, {alpha[j]}, {alpha[k]}}, Bound: 2, Max: maxS})
						}
					}
					for l := k; l < len(alpha); l++ {
						r.Do(&ConcCase{Progs: [][]string{{alpha[i]}, {alpha[j]}, {alpha[k]}, {alpha[l]}}, Bound: 2, Max: maxS})
					}
				}
			}
		}
		r.Group("concurrent-2-long", "c20.conc", "two threads with operation lists of length 3 against lists of length 1..2, preemption bound 2")
		enum.Tuples(len(alpha), 3, func(idx []int) bool {
			p3 := []string{alpha[idx[0]], alpha[idx[1]], alpha[idx[2]]}
			for _, p := range progs {
				r.Do(&ConcCase{Progs: [][]string{p3, p}, Bound: 2, Max: maxS})
			}
			return !r.Stopped()
		})
	}
}

func init() {
	eng.RegisterCase("c20.hist", func() eng.Case { return &HistCase{} })
	eng.RegisterCase("c20.conc", func() eng.Case { return &ConcCase{} })
	eng.RegisterCase("c20.iso", func() eng.Case { return &IsoCase{} })
	eng.RegisterCase("c20.override", func() eng.Case { return &OverrideCase{} })
	eng.RegisterCase("c20.layered", func() eng.Case { return &LayeredCase{} })
	eng.RegisterCase("c20.concloader", func() eng.Case { return &ConcLoaderCase{} })
	eng.Register(&eng.Check{
		ID:    "C20",
		Title: "Template cache: one compile per name, coherent under concurrency",
		Rule:  "explicit-state exploration against a map model: (sequential) every operation history up to the depth bound over the cache alphabet on two sets is replayed on real sets and each return value - error, identity class of the returned *Template, its rendered content (file version at load time, the set's own global), loader fetch count - must equal the model's; (concurrent) for every pair (thorough: also triples) of thread programs ALL schedules up to the preemption bound are executed under the controlled scheduler and each must be linearisable w.r.t. the model (returned object identities and total loads per name explained by some interleaving), free of happens-before-unordered conflicting accesses, and deadlock-free. states = schedules executed (+ the model's abstract states), transitions = operations/scheduling decisions.",
		Assumptions: []string{
			"harness loaders follow DESIGN.md Appendix A.8, so './a' and 'a' name the same cache entry",
			"entries cached before Debug was switched on are still served when it is switched off again",
		},
		Run: run,
	})
}
