// Package c14: Execute variants agree; ExecuteWriter is all-or-nothing (fault enumeration).
package c14

import (
	"bytes"
	"errors"
	"fmt"
	"strings"

	"github.com/flosch/pongo2/v6"

	"verifmc/internal/eng"
	"verifmc/internal/enum"
	"verifmc/internal/px"
)

type Case struct {
	Wrapper string `json:"wrapper"`
	Nodes   string `json:"nodes"` // T = literal text node, K = {{ tick() }} node
	Fault   string `json:"fault"` // none | tick | write | short
	At      int    `json:"at"`    // 1-based index of the failing tick call / Write call
}

func (c *Case) ID() string {
	return fmt.Sprintf("%s[%s] fault=%s@%d", c.Wrapper, c.Nodes, c.Fault, c.At)
}

var wrappers = []string{"flat", "for", "if", "with", "autoescape", "ifchanged", "spaceless", "filter", "filter-length", "for-filter-length", "include", "include-lazy", "macro", "extends", "for-include", "ssi-parsed", "for-empty", "for-reversed", "ifequal", "block", "import-macro", "if-elif", "extends-own-options", "extends-2-own-options", "macro-reads-set", "ifchanged-gap", "for-macro-reads-loop", "with-swap", "ctx-call", "caller-values", "exports-macro"}

// build returns the file set, the name of the entry file and the expected fault-free output.
func build(wrapper, nodes string) (files map[string]string, expected string, ticks int) {
	var body strings.Builder
	for i, n := range nodes {
		switch n {
		case 'T':
			fmt.Fprintf(&body, "t%d;", i)
		case 'B':
			body.WriteString(bigText(i))
		default:
			body.WriteString("{{ tick() }}")
		}
	}
	b := body.String()
	tickNo := 0
	render := func() string {
		var o strings.Builder
		for i, n := range nodes {
			switch n {
			case 'T':
				fmt.Fprintf(&o, "t%d;", i)
			case 'B':
				o.WriteString(bigText(i))
			default:
				tickNo++
				fmt.Fprintf(&o, "k%d.", tickNo)
			}
		}
		return o.String()
	}
	files = map[string]string{}
	switch wrapper {
	case "flat":
		files["/main"] = b
		expected = render()
	case "for":
		files["/main"] = "{% for i in two %}" + b + "{% endfor %}"
		expected = render() + render()
	case "for-empty":
		files["/main"] = "{% for i in two %}" + b + "{% empty %}EMPTY{% endfor %}"
		expected = render() + render()
	case "for-reversed":
		files["/main"] = "{% for i in two reversed %}" + b + "{% empty %}EMPTY{% endfor %}."
		expected = render() + render() + "."
	case "ifequal":
		files["/main"] = "{% ifequal 1 1 %}" + b + "{% else %}no{% endifequal %}"
		expected = render()
	case "if-elif":
		files["/main"] = "{% if not yes %}no{% elif yes %}" + b + "{% else %}no{% endif %}"
		expected = render()
	case "block":
		files["/main"] = "[{% block x %}" + b + "{% endblock %}]"
		expected = "[" + render() + "]"
	case "import-macro":
		files["/lib"] = "{% macro m() export %}" + b + "{% endmacro %}"
		files["/main"] = "{% import \"lib\" m %}X{{ m() }}Y"
		expected = "X" + render() + "Y"
	case "if":
		files["/main"] = "{% if yes %}" + b + "{% else %}no{% endif %}"
		expected = render()
	case "with":
		files["/main"] = "<{% with a=1 %}" + b + "{% endwith %}>"
		expected = "<" + render() + ">"
	case "exports-macro":
		// the executed template exports a macro: a context key of that name is refused (fault badctx), by every entry
		// point and every time
		files["/main"] = "{% macro greet() export %}g{% endmacro %}<" + b + ">{{ greet() }}"
		expected = "<" + render() + ">g"
	case "caller-values":
		// values the caller keeps and hands to every execution (a list of *pongo2.Value): printed plainly and as markup
		files["/main"] = "{{ cvals|first }}/{{ cvals|first|safe }}/{{ cvals|last }}" + b + "{{ cvals.0 }}"
		expected = "&lt;b&gt;/<b>/&lt;i&gt;" + render() + "&lt;b&gt;"
	case "ctx-call":
		// context functions that take the execution context implicitly, with 3, 5 and 6 written arguments
		files["/main"] = "{{ cf3(1, \"s\", 3) }}" + b + "{{ cf5(1, 2, 3, 4, 5) }}{{ cf6(1, 2, 3, 4, 5, 6) }}"
		expected = "1/s/3" + render() + "12345" + "123456"
	case "with-swap":
		// every pair refers to a name another pair of the same tag binds: all of them see the surrounding scope
		files["/main"] = "<{% with p=q q=r r=p %}{{ p }}{{ q }}{{ r }}" + b + "{% endwith %}{{ p }}>"
		expected = "<231" + render() + "1>"
	case "autoescape":
		files["/main"] = "{% autoescape off %}" + b + "{% endautoescape %}"
		expected = render()
	case "ifchanged":
		files["/main"] = "{% ifchanged %}" + b + "{% endifchanged %}"
		expected = render()
	case "spaceless":
		files["/main"] = "{% spaceless %}" + b + "{% endspaceless %}"
		expected = render()
	case "filter":
		files["/main"] = "{% filter upper %}" + b + "{% endfilter %}"
		expected = strings.ToUpper(render())
	case "filter-length":
		// a filter whose output for a partial body is NOT a prefix of its output for the whole body
		files["/main"] = "H{% filter length %}" + b + "{% endfilter %}T"
		expected = "H" + fmt.Sprint(len(render())) + "T"
	case "for-filter-length":
		files["/main"] = "{% for i in two %}<{% filter length %}" + b + "{% endfilter %}>{% endfor %}"
		expected = "<" + fmt.Sprint(len(render())) + ">"
		expected += "<" + fmt.Sprint(len(render())) + ">"
	case "include":
		files["/main"] = "A{% include \"inc\" %}B"
		files["/inc"] = b
		expected = "A" + render() + "B"
	case "include-lazy":
		files["/main"] = "A{% include incname %}B"
		files["/inc"] = b
		expected = "A" + render() + "B"
	case "for-include":
		files["/main"] = "{% for i in two %}[{% include \"inc\" %}]{% endfor %}"
		files["/inc"] = b
		expected = "[" + render() + "]"
		expected += "[" + render() + "]"
	case "ssi-parsed":
		files["/main"] = "A{% ssi \"inc\" parsed %}B"
		files["/inc"] = b
		expected = "A" + render() + "B"
	case "macro":
		files["/main"] = "{% macro m() %}" + b + "{% endmacro %}X{{ m() }}Y"
		expected = "X" + render() + "Y"
	case "extends-own-options", "extends-2-own-options":
		// the executed child has TrimBlocks/LStripBlocks switched on on itself (Exec does that for these wrappers):
		// the newline after its block tag and the blanks before its end tag disappear, on every entry point
		files["/base"] = "<{% block c %}base{% endblock %}|{% block d %}d{% endblock %}>"
		files["/main"] = "{% extends \"base\" %}{% block c %}\n" + b + "  {% endblock %}"
		if wrapper == "extends-2-own-options" {
			files["/mid"] = "{% extends \"base\" %}{% block d %}\nmid {% endblock %}"
			files["/main"] = "{% extends \"mid\" %}{% block c %}\n" + b + "  {% endblock %}"
			expected = "<" + render() + "|\nmid >"
		} else {
			expected = "<" + render() + "|d>"
		}
	case "macro-reads-set":
		// a macro whose body reads a name that is set again between two calls
		files["/main"] = "{% set z = \"a\" %}{% macro m() %}" + b + "[{{ z }}]{% endmacro %}X{{ m() }}{% set z = \"b\" %}Y{{ m() }}"
		expected = "X" + render() + "[a]Y"
		expected += render() + "[b]"
	case "for-macro-reads-loop":
		files["/main"] = "{% for i in two %}{% macro m() %}<{{ i }}>" + b + "{% endmacro %}{{ m() }}{% endfor %}"
		expected = "<1>" + render()
		expected += "<2>" + render()
	case "ifchanged-gap":
		// the compared content is the same text, then empty, then the same text again
		files["/main"] = "{% for i in gap %}{% ifchanged %}{% if i %}<same>{% endif %}{% endifchanged %};{% endfor %}" + b
		expected = "<same>;;<same>;" + render()
	case "extends":
		files["/base"] = "<{% block c %}base{% endblock %}>"
		files["/main"] = "{% extends \"base\" %}{% block c %}" + b + "{% endblock %}"
		expected = "<" + render() + ">"
	}
	return files, expected, tickNo
}

// bigText is a literal text node larger than any buffer size an implementation is likely to use internally (5000 bytes)
func bigText(i int) string {
	return fmt.Sprintf("big%d<", i) + strings.Repeat("0123456789", 500) + ">"
}

type faultWriter struct {
	buf     []byte
	calls   int
	failAt  int
	short   bool
	full    bool
	errSeen error
}

var errWriter = errors.New("c14: injected writer failure")

func (w *faultWriter) Write(p []byte) (int, error) {
	w.calls++
	if w.failAt > 0 && w.calls >= w.failAt {
		if w.full {
			// a writer that took everything and still reports a failure (e.g. a tee whose second sink failed)
			w.buf = append(w.buf, p...)
			w.errSeen = errWriter
			return len(p), errWriter
		}
		if w.short && len(p) > 1 {
			w.buf = append(w.buf, p[:len(p)/2]...)
			w.errSeen = errWriter
			return len(p) / 2, errWriter
		}
		w.errSeen = errWriter
		return 0, errWriter
	}
	w.buf = append(w.buf, p...)
	return len(p), nil
}

// stringWriter is a caller's writer that also offers WriteString (as pongo2's own TemplateWriter does)
type stringWriter struct {
	b     strings.Builder
	calls int
}

func (w *stringWriter) Write(p []byte) (int, error)       { w.calls++; return w.b.Write(p) }
func (w *stringWriter) WriteString(s string) (int, error) { w.calls++; return w.b.WriteString(s) }

// embedWriter embeds a bytes.Buffer (and so inherits WriteString, WriteByte, ...) but overrides Write
type embedWriter struct {
	bytes.Buffer
	seen []byte
}

func (w *embedWriter) Write(p []byte) (int, error) { w.seen = append(w.seen, p...); return len(p), nil }

func key0(c *Case, s string) string { return s + ":" + c.Wrapper + ":" + c.Fault }

func (c *Case) Exec(t *eng.T) {
	files, expected, ticks := build(c.Wrapper, c.Nodes)
	// every entry point gets a fresh compile (state across renders of one compiled template is C04's business)
	fresh := func() *pongo2.Template {
		set, _ := px.NewSet(files)
		tpl, out := px.CompileFile(set, "/main")
		if tpl == nil {
			t.Fail("compile:"+c.Wrapper, "%s does not compile: %s", c.ID(), out)
		} else if strings.HasSuffix(c.Wrapper, "own-options") {
			tpl.Options.TrimBlocks, tpl.Options.LStripBlocks = true, true
		}
		return tpl
	}
	tpl := fresh()
	if tpl == nil {
		return
	}
	if c.Fault != "none" {
		t.Nontrivial()
	}
	callerValues := []*pongo2.Value{pongo2.AsValue("<b>"), pongo2.AsValue("<i>")} // ONE list for all executions of the case
	var mkctx func() pongo2.Context
	mkctx = func() pongo2.Context {
		n := 0
		return pongo2.Context{
			"cvals": callerValues,
			"two": []int{1, 2}, "yes": true, "incname": "inc", "gap": []int{1, 0, 1}, "p": 1, "q": 2, "r": 3,
			"cf3": func(ec *pongo2.ExecutionContext, a int, b string, c int) string { return fmt.Sprintf("%d/%s/%d", a, b, c) },
			"cf5": func(ec *pongo2.ExecutionContext, a, b, c, d, e int) string { return fmt.Sprint(a, b, c, d, e)[0:0] + fmt.Sprintf("%d%d%d%d%d", a, b, c, d, e) },
			"cf6": func(ec *pongo2.ExecutionContext, a, b, c, d, e, f int) string { return fmt.Sprintf("%d%d%d%d%d%d", a, b, c, d, e, f) },
			"tick": func() (*pongo2.Value, error) {
				n++
				if c.Fault == "tick" && n == c.At {
					return nil, errors.New("c14: injected execution failure")
				}
				return pongo2.AsSafeValue(fmt.Sprintf("k%d.", n)), nil
			},
		}
	}
	wantFail := c.Fault == "tick" && c.At <= ticks
	if c.Fault == "badctx" {
		// a context key that is not an identifier: every entry point must refuse it, whatever the template contains
		inner := mkctx
		mkctx = func() pongo2.Context {
			x := inner()
			if c.Wrapper == "exports-macro" {
				x["greet"] = "x" // clashes with the exported macro
			} else {
				x["user-name"] = "x"
			}
			return x
		}
		wantFail = true
	}
	type res struct {
		name string
		out  string
		err  error
		w    *faultWriter
	}
	var rs []res
	{
		s, err := tpl.Execute(mkctx())
		rs = append(rs, res{"Execute", s, err, nil})
	}
	var keptBytes []byte
	var keptCopy string
	{
		b, err := fresh().ExecuteBytes(mkctx())
		keptBytes, keptCopy = b, string(b)
		rs = append(rs, res{"ExecuteBytes", string(b), err, nil})
	}
	mkw := func() *faultWriter {
		w := &faultWriter{}
		if c.Fault == "write" || c.Fault == "short" || c.Fault == "write-full" {
			w.failAt = c.At
			w.short = c.Fault == "short"
			w.full = c.Fault == "write-full"
		}
		return w
	}
	{
		w := mkw()
		err := fresh().ExecuteWriter(mkctx(), w)
		rs = append(rs, res{"ExecuteWriter", string(w.buf), err, w})
	}
	{
		w := mkw()
		err := fresh().ExecuteWriterUnbuffered(mkctx(), w)
		rs = append(rs, res{"ExecuteWriterUnbuffered", string(w.buf), err, w})
	}
	// ExecuteWriter on writers pongo2 could be tempted to treat specially: the caller's own *bytes.Buffer (already
	// holding data) and a caller writer that offers WriteString
	const callerData = "CALLER-DATA;"
	{
		var bb bytes.Buffer
		bb.WriteString(callerData)
		err := fresh().ExecuteWriter(mkctx(), &bb)
		got := bb.String()
		switch {
		case wantFail && err == nil:
			t.Fail(key0(c, "error-lost"), "%s: ExecuteWriter(*bytes.Buffer) returns no error although execution fails", c.ID())
		case wantFail && got != callerData:
			t.Fail(key0(c, "partial-write:bytes.Buffer"), "%s: ExecuteWriter changed the caller's *bytes.Buffer to %q although execution failed (it held %q)", c.ID(), got, callerData)
		case !wantFail && (err != nil || got != callerData+expected):
			t.Fail(key0(c, "wrong-output:bytes.Buffer"), "%s: ExecuteWriter(*bytes.Buffer holding %q) gave %q, %v; want %q", c.ID(), callerData, got, err, callerData+expected)
		}
	}
	{
		sw := &stringWriter{}
		err := fresh().ExecuteWriter(mkctx(), sw)
		switch {
		case wantFail && err == nil:
			t.Fail(key0(c, "error-lost"), "%s: ExecuteWriter(writer with WriteString) returns no error although execution fails", c.ID())
		case wantFail && (sw.calls != 0 || sw.b.Len() != 0):
			t.Fail(key0(c, "partial-write:stringwriter"), "%s: ExecuteWriter wrote %q (%d calls) to a caller writer offering WriteString although execution failed", c.ID(), sw.b.String(), sw.calls)
		case !wantFail && (err != nil || sw.b.String() != expected):
			t.Fail(key0(c, "wrong-output:stringwriter"), "%s: ExecuteWriter(writer with WriteString) gave %q, %v; want %q", c.ID(), sw.b.String(), err, expected)
		}
	}
	// a caller's writer that embeds a *bytes.Buffer and overrides Write only (a counting / transforming writer): all
	// output has to go through its Write, on both writer entry points
	for _, unbuffered := range []bool{false, true} {
		ew := &embedWriter{}
		var err error
		name := "ExecuteWriter"
		if unbuffered {
			name = "ExecuteWriterUnbuffered"
			err = fresh().ExecuteWriterUnbuffered(mkctx(), ew)
		} else {
			err = fresh().ExecuteWriter(mkctx(), ew)
		}
		switch {
		case ew.Buffer.Len() != 0:
			t.Fail(key0(c, "bypassed-write:"+name), "%s: %s wrote %q past the Write method of a caller writer that embeds a bytes.Buffer", c.ID(), name, head(ew.Buffer.String()))
		case wantFail && err == nil:
			t.Fail(key0(c, "error-lost"), "%s: %s(embedding writer) returns no error although execution fails", c.ID(), name)
		case wantFail && !unbuffered && len(ew.seen) != 0:
			t.Fail(key0(c, "partial-write:embedding"), "%s: ExecuteWriter wrote %q although execution failed", c.ID(), head(string(ew.seen)))
		case wantFail && unbuffered && !strings.HasPrefix(expected, string(ew.seen)):
			t.Fail(key0(c, "not-a-prefix:embedding"), "%s: ExecuteWriterUnbuffered wrote %q, not a leading part of %q", c.ID(), head(string(ew.seen)), head(expected))
		case !wantFail && (err != nil || string(ew.seen) != expected):
			t.Fail(key0(c, "wrong-output:embedding:"+name), "%s: %s(embedding writer) gave %q, %v; want %q", c.ID(), name, head(string(ew.seen)), err, head(expected))
		}
	}
	// the four entry points one after the other on ONE compiled template (fault-free runs): still the same bytes
	if c.Fault == "badctx" {
		// ... and on ONE compiled template the refusal does not wear off
		if shared := fresh(); shared != nil {
			for round := 0; round < 2; round++ {
				_, e0 := shared.Execute(mkctx())
				_, e1 := shared.ExecuteBytes(mkctx())
				e2 := shared.ExecuteWriter(mkctx(), &faultWriter{})
				e3 := shared.ExecuteWriterUnbuffered(mkctx(), &faultWriter{})
				for i, e := range []error{e0, e1, e2, e3} {
					if e == nil {
						t.Fail(key0(c, "shared-template:invalid-context-accepted"), "%s: round %d, entry point %d of Execute/ExecuteBytes/ExecuteWriter/ExecuteWriterUnbuffered on one compiled template accepts the invalid context", c.ID(), round+1, i+1)
						return
					}
				}
			}
		}
	}
	if c.Fault == "none" {
		if shared := fresh(); shared != nil {
			var outs [4]string
			var errs [4]error
			outs[0], errs[0] = shared.Execute(mkctx())
			var bb []byte
			bb, errs[1] = shared.ExecuteBytes(mkctx())
			outs[1] = string(bb)
			w2, w3 := &faultWriter{}, &faultWriter{}
			errs[2] = shared.ExecuteWriter(mkctx(), w2)
			outs[2] = string(w2.buf)
			errs[3] = shared.ExecuteWriterUnbuffered(mkctx(), w3)
			outs[3] = string(w3.buf)
			for i, n := range []string{"Execute", "ExecuteBytes", "ExecuteWriter", "ExecuteWriterUnbuffered"} {
				if errs[i] != nil || outs[i] != expected {
					t.Fail(key0(c, "shared-template:"+n), "%s: called as number %d on one compiled template, %s gives %s (%v), want %s", c.ID(), i+1, n, head(outs[i]), errs[i], head(expected))
					break
				}
			}
		}
	}
	t.Outcome(fmt.Sprintf("%v|%q|%q|%q|%q", wantFail, rs[0].out, rs[1].out, rs[2].out, rs[3].out))
	// the bytes handed out by ExecuteBytes belong to the caller: the executions that followed must not have changed them
	if other, err := pongo2.FromString("a completely different output {{ 1 }} that is longer than anything the programs print: 0123456789 0123456789 0123456789 0123456789"); err == nil {
		other.Execute(nil)
		other.ExecuteBytes(nil)
	}
	fresh().Execute(mkctx())
	if string(keptBytes) != keptCopy {
		t.Fail("bytes-result-overwritten:"+c.Wrapper, "%s: the slice returned by ExecuteBytes was %q and reads %q after later executions", c.ID(), keptCopy, string(keptBytes))
	}
	key := func(s string) string { return s + ":" + c.Wrapper + ":" + c.Fault }

	// Execute / ExecuteBytes: never see the writer
	for _, r := range rs[:2] {
		if wantFail {
			if r.err == nil {
				t.Fail(key("error-lost"), "%s: %s returns no error although the %d-th evaluated node fails (output %q)", c.ID(), r.name, c.At, r.out)
			} else if r.out != "" {
				t.Fail(key("output-on-error"), "%s: %s returns output %q together with an error", c.ID(), r.name, r.out)
			}
		} else {
			if r.err != nil {
				t.Fail(key("spurious-error"), "%s: %s fails: %v", c.ID(), r.name, r.err)
			} else if r.out != expected {
				t.Fail(key("wrong-output"), "%s: %s = %q, want %q", c.ID(), r.name, r.out, expected)
			}
		}
	}
	ew, eu := rs[2], rs[3]
	switch {
	case wantFail:
		if ew.err == nil {
			t.Fail(key("error-lost"), "%s: ExecuteWriter returns no error although execution fails", c.ID())
		}
		if len(ew.w.buf) != 0 || ew.w.calls != 0 {
			t.Fail(key("partial-write"), "%s: ExecuteWriter wrote %q (%d Write calls) to the caller's writer although execution failed", c.ID(), ew.out, ew.w.calls)
		}
		if eu.err == nil {
			t.Fail(key("error-lost"), "%s: ExecuteWriterUnbuffered returns no error although execution fails", c.ID())
		}
		if c.Fault == "badctx" && eu.out != "" {
			t.Fail(key("output-for-invalid-context"), "%s: ExecuteWriterUnbuffered wrote %q although the context is invalid", c.ID(), head(eu.out))
		}
		if !strings.HasPrefix(expected, eu.out) {
			t.Fail(key("not-a-prefix"), "%s: ExecuteWriterUnbuffered wrote %q, not a leading part of the successful output %q", c.ID(), eu.out, expected)
		}
	case c.Fault == "none":
		for _, r := range rs[2:] {
			if r.err != nil {
				t.Fail(key("spurious-error"), "%s: %s fails: %v", c.ID(), r.name, r.err)
			} else if r.out != expected {
				t.Fail(key("wrong-output"), "%s: %s wrote %q, want %q", c.ID(), r.name, r.out, expected)
			}
		}
	default: // writer fault, execution itself succeeds
		if ew.w.errSeen != nil {
			if ew.err == nil {
				t.Fail(key("writer-error-swallowed"), "%s: the caller's writer failed but ExecuteWriter returned nil", c.ID())
			} else if !errors.Is(ew.err, errWriter) {
				t.Fail(key("writer-error-replaced"), "%s: ExecuteWriter returned %v instead of the writer's error", c.ID(), ew.err)
			}
		} else if ew.err != nil || ew.out != expected {
			t.Fail(key("wrong-output"), "%s: ExecuteWriter (writer never failed) gave %q, %v; want %q", c.ID(), ew.out, ew.err, expected)
		}
		// (what the unbuffered variant does with a failing writer is not stated by the property: executed, not judged)
	}
}

func run(r *eng.Runner) {
	maxNodes := 4
	if !r.Quick() {
		maxNodes = 6
	}
	r.Group("faults", "c14.case", fmt.Sprintf("all programs of 1..%d output nodes (text | failing-capable call | at most one 5000-byte text) in %d wrappers x {no fault, a context with a non-identifier key, every tick position, every Write position (error, short write)} x 4 entry points", maxNodes, len(wrappers)))
	for _, w := range wrappers {
		enum.Seqs(3, maxNodes, func(idx []int) bool {
			if len(idx) == 0 {
				return true
			}
			var nb strings.Builder
			nbig := 0
			for _, i := range idx {
				nb.WriteByte("TKB"[i])
				if i == 2 {
					nbig++
				}
			}
			if nbig > 1 {
				return true // at most one big text node per program
			}
			nodes := nb.String()
			_, _, ticks := build(w, nodes)
			r.Do(&Case{Wrapper: w, Nodes: nodes, Fault: "none"})
			r.Do(&Case{Wrapper: w, Nodes: nodes, Fault: "badctx"})
			for k := 1; k <= ticks; k++ {
				r.Do(&Case{Wrapper: w, Nodes: nodes, Fault: "tick", At: k})
			}
			writes := 2*len(nodes) + 4
			for j := 1; j <= writes; j++ {
				r.Do(&Case{Wrapper: w, Nodes: nodes, Fault: "write", At: j})
				r.Do(&Case{Wrapper: w, Nodes: nodes, Fault: "short", At: j})
				if j <= 2 {
					r.Do(&Case{Wrapper: w, Nodes: nodes, Fault: "write-full", At: j})
				}
			}
			return !r.Stopped()
		})
	}
}

func init() {
	eng.RegisterCase("c14.case", func() eng.Case { return &Case{} })
	eng.Register(&eng.Check{
		ID:    "C14",
		Title: "Execute variants agree; ExecuteWriter is all-or-nothing",
		Level: "fault_enumeration",
		Rule: "for every program of up to N output nodes in every wrapper construct, the fault-free run and EVERY fault position are executed on all four entry points: the k-th evaluated call fails (every k), the caller's j-th Write fails or is short (every j). " +
			"Oracles: same bytes / same failure across the entry points, expected output from an independent renderer of the node list, zero bytes and zero Write calls on the caller's writer when ExecuteWriter fails, the unbuffered writer holds a prefix of the successful output, a writer error comes back from ExecuteWriter. Non-trivial: a fault is injected.",
		Assumptions: []string{
			"ExecuteWriterUnbuffered is not required to report errors of the caller's writer (the property does not state it)",
		},
		Run: run,
	})
}

func head(s string) string {
	if len(s) > 120 {
		return s[:120] + "..."
	}
	return s
}
