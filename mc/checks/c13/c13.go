// Package c13: macros bind arguments by position with defaults, and recursion is bounded.
package c13

import (
	"fmt"
	"strings"
	"time"

	"github.com/flosch/pongo2/v6"

	"verifmc/internal/eng"
	"verifmc/internal/enum"
	"verifmc/internal/prog"
	"verifmc/internal/px"
	. "verifmc/internal/ref"
)

func v(name string, steps ...string) Expr { return Var{Name: name, Steps: steps} }
func lits(s string) Expr                  { return Lit{V: StrV(s)} }
func T(s string) Node                     { return Text{S: s} }
func O(e Expr) Node                       { return Out{E: e} }

// argument kinds at the call site
func argExprs() []Expr {
	return []Expr{
		Lit{V: IntV(7)},
		lits("s"),
		v("tainted"), // context string with markup: must come out escaped exactly once
		v("missing"), // nil
		Lit{V: BoolV(true)},
		Filtered{E: v("lst"), Filters: []FilterCall{{Name: "length"}}},
		Bin{Op: "+", L: v("n"), R: Lit{V: IntV(1)}},
		v("ptainted"), // the same behind a pointer / as a named string type: text like any other
		v("ntainted"),
	}
}

func macroBody(params []string) []Node {
	ns := []Node{T("<i>")}
	for _, p := range params {
		ns = append(ns, T("["), O(v(p)), T("]"))
	}
	// the parameters are the same in scopes opened inside the body (a with block, a loop)
	if len(params) > 0 {
		var in []Node
		for _, p := range params {
			in = append(in, T("("), O(v(p)), T(")"))
		}
		ns = append(ns, With{Pairs: []Pair{{"zz", Lit{V: IntV(1)}}}, Body: in})
		ns = append(ns, For{Key: "ii", Over: v("lst"), Body: append([]Node{T(";")}, in[:3]...)})
	}
	return append(ns, T("</i>"))
}

// ---- recursion ----

type RecCase struct {
	Files map[string]string `json:"files"`
	Label string            `json:"label"`
}

func (c *RecCase) ID() string { return c.Label + " " + c.Files["/main"] + " | " + c.Files["/lib"] }

func (c *RecCase) Exec(t *eng.T) {
	t.Nontrivial()
	set, _ := px.NewSet(c.Files)
	tpl, out := px.CompileFile(set, "/main")
	if tpl == nil {
		t.Fail("recursion:compile", "%s does not compile: %s", c.ID(), out)
		return
	}
	o := px.Exec(tpl, pongo2.Context{})
	t.Outcome(o.Kind())
	if o.Panic != "" {
		t.Fail("recursion:panic", "%s panics: %s", c.ID(), o.PanicMsg)
		return
	}
	if o.Err == "" {
		t.Fail("recursion:no-error", "%s: runaway recursion rendered %d bytes without an error", c.ID(), len(o.S))
	}
}

// OptCase: an imported macro behaves like the same macro defined locally also under the set's whitespace options.
type OptCase struct {
	Body string `json:"body"`
	Opts int    `json:"opts"` // bit 0 TrimBlocks, bit 1 LStripBlocks (on the set)
}

func (c *OptCase) ID() string { return fmt.Sprintf("macro body %q under options %02b", c.Body, c.Opts) }

func (c *OptCase) Exec(t *eng.T) {
	t.Nontrivial()
	def := func(export string) string { return "{% macro m(a) " + export + "%}" + c.Body + "{% endmacro %}" }
	routes := []map[string]string{
		{"/main": def("") + "[{{ m(1) }}|{{ m(0) }}]"},
		{"/main": `{% import "lib" m %}[{{ m(1) }}|{{ m(0) }}]`, "/lib": def("export ")},
		{"/main": `{% import "lib" m as n %}[{{ n(1) }}|{{ n(0) }}]`, "/lib": "lib text\n" + def("export ")},
	}
	var outs []string
	for _, files := range routes {
		set, _ := px.NewSet(files)
		set.Options.TrimBlocks, set.Options.LStripBlocks = c.Opts&1 != 0, c.Opts&2 != 0
		tpl, o := px.CompileFile(set, "/main")
		if tpl != nil {
			o = px.Exec(tpl, pongo2.Context{})
		}
		outs = append(outs, o.String())
	}
	t.Outcome(outs[0])
	if outs[1] != outs[0] || outs[2] != outs[0] {
		t.Fail("macro-options:imported-differs", "%s: defined locally it renders %s, imported %s, imported under an alias %s", c.ID(), outs[0], outs[1], outs[2])
	}
}

// DepthCase: a recursion WITH a base case at depth K renders (or is refused) alike whether the macro is local,
// imported or imported under an alias; far below the limit it renders, far above it is refused.
type DepthCase struct {
	K     int    `json:"k"`
	Shape string `json:"shape"` // direct | mutual
}

func (c *DepthCase) ID() string {
	return fmt.Sprintf("recursion with base case, depth %d, %s", c.K, c.Shape)
}

func (c *DepthCase) Exec(t *eng.T) {
	t.Nontrivial()
	def := func(export string) string {
		if c.Shape == "mutual" {
			return "{% macro down(n) " + export + "%}{% if n > 0 %}{{ up(n - 1) }}{% else %}bottom{% endif %}{% endmacro %}{% macro up(n) " + export + "%}{% if n > 0 %}{{ down(n - 1) }}{% else %}bottom{% endif %}{% endmacro %}"
		}
		return "{% macro down(n) " + export + "%}{% if n > 0 %}{{ down(n - 1) }}{% else %}bottom{% endif %}{% endmacro %}"
	}
	call := fmt.Sprintf("{{ down(%d) }}", c.K)
	routes := []struct {
		name  string
		files map[string]string
	}{
		{"local", map[string]string{"/main": def("") + call}},
		{"imported", map[string]string{"/main": `{% import "lib" down, up %}` + call, "/lib": def("export ")}},
		// under an alias AND under its own name (the body refers to itself by its own name)
		{"aliased", map[string]string{"/main": `{% import "lib" down as dn, down, up %}` + fmt.Sprintf("{{ dn(%d) }}", c.K), "/lib": def("export ")}},
	}
	if c.Shape != "mutual" {
		routes[1].files["/main"] = `{% import "lib" down %}` + call
		routes[2].files["/main"] = `{% import "lib" down as dn, down %}` + fmt.Sprintf("{{ dn(%d) }}", c.K)
	}
	// under an alias ONLY: inside its body the macro still finds itself (and the other macros of its file) under
	// the names they were defined with
	routes = append(routes, struct {
		name  string
		files map[string]string
	}{"aliased-only", map[string]string{"/main": `{% import "lib" down as dn %}` + fmt.Sprintf("{{ dn(%d) }}", c.K), "/lib": def("export ")}})
	var outs []string
	for _, rt := range routes {
		o := px.RenderFile(rt.files, "/main", pongo2.Context{})
		if o.Panic != "" {
			t.Fail("recursion:panic", "%s (%s) panics: %s", c.ID(), rt.name, o.PanicMsg)
			return
		}
		outs = append(outs, o.Kind()+":"+o.S)
	}
	t.Outcome(outs[0])
	if outs[1] != outs[0] || outs[2] != outs[0] || outs[3] != outs[0] {
		t.Fail("recursion:depth-differs-by-route", "%s: local gives %s, imported %s, aliased %s, imported under an alias only %s - an imported macro must behave exactly like the same macro defined locally", c.ID(), head40(outs[0]), head40(outs[1]), head40(outs[2]), head40(outs[3]))
		return
	}
	if c.K <= 900 && outs[0] != "ok:bottom" {
		t.Fail("recursion:refused-below-limit", "%s: %s", c.ID(), head40(outs[0]))
	}
	if c.K >= 1100 && strings.HasPrefix(outs[0], "ok:") {
		t.Fail("recursion:no-error", "%s renders although it is nested deeper than the fixed limit", c.ID())
	}
}

func head40(s string) string {
	if len(s) > 60 {
		return s[:60] + "..."
	}
	return s
}

func run(r *eng.Runner) {
	// the context also holds entries named like the parameters: an omitted parameter must not fall through to them
	ctx := map[string]V{"tainted": StrV("<&>"), "ptainted": StrVia("<p&>", "ptr"), "ntainted": StrVia("<n&>", "ptrnamed"), "lst": ListV(IntV(1), IntV(2)), "n": IntV(4), "dflt": StrV("cd"),
		"p": StrV("ctx-p"), "q": StrV("ctx-q"), "r": StrV("ctx-r"), "s": StrV("ctx-s")}
	ctx2 := prog.Vary(ctx) // every compiled program is executed a second time with this context
	maxP := 3
	if !r.Quick() {
		maxP = 4
	}
	args := argExprs()
	r.Group("binding", "prog.case", fmt.Sprintf("signatures with 0..%d parameters x every subset with defaults x calls with 0..n+1 arguments of 9 kinds (also text behind a pointer and of a named string type) x {local, imported, imported under alias, local with same-named set variables}; body holds literal markup and prints every parameter", maxP))
	pnames := []string{"p", "q", "r", "s"}
	for np := 0; np <= maxP; np++ {
		for dmask := 0; dmask < 1<<np; dmask++ {
			var params []Param
			for i := 0; i < np; i++ {
				p := Param{Name: pnames[i]}
				if dmask&(1<<i) != 0 {
					if i%2 == 0 {
						p.Default = lits(fmt.Sprintf("d%d", i))
					} else {
						p.Default = v("dflt")
					}
				}
				params = append(params, p)
			}
			for na := 0; na <= np+1; na++ {
				// argument kinds: all tuples for na<=2, a rotating representative selection above
				emitCall := func(idx []int) {
					var cargs []Expr
					for _, i := range idx {
						cargs = append(cargs, args[i])
					}
					for route := 0; route < 4; route++ {
						m := Macro{Name: "mac", Params: params, Body: macroBody(pnames[:np])}
						files := map[string][]Node{}
						if np > 0 {
							// ... and inside a file the macro body includes (the page context has entries of the same names)
							m.Body = append(m.Body, Include{File: "mpart"})
							files["/mpart"] = []Node{T("{:"), O(v("p")), T(":}")}
						}
						callName := "mac"
						var main []Node
						switch route {
						case 3:
							// local definition in a scope that has SET variables named like the parameters:
							// an omitted parameter takes its default (or is empty), never the outer variable
							main = []Node{Set{Name: "p", E: lits("set-p")}, Set{Name: "q", E: lits("set-q")}, Set{Name: "r", E: lits("set-r")}, m}
						case 0:
							main = []Node{m}
						case 1:
							m.Export = true
							files["/lib"] = []Node{T("lib-text"), m}
							main = []Node{Import{File: "lib", Names: []ImportName{{Name: "mac"}}}}
						case 2:
							m.Export = true
							files["/lib"] = []Node{m}
							main = []Node{Import{File: "lib", Names: []ImportName{{Name: "mac", Alias: "alias"}}}}
							callName = "alias"
						}
						main = append(main, T("("), O(Call{Name: callName, Args: cargs}), T(")"), O(Call{Name: callName, Args: cargs}))
						files["/main"] = main
						label := fmt.Sprintf("params=%d defaults=%b args=%d route=%d", np, dmask, na, route)
						c, ok := prog.BuildTwice(files, ctx, ctx2, nil, "macro-binding", label, false)
						if !ok {
							r.AddExtra("programs_outside_fragment", 1)
							continue
						}
						r.Do(c)
					}
				}
				if na <= 2 {
					enum.Tuples(len(args), na, func(idx []int) bool { emitCall(append([]int{}, idx...)); return true })
				} else {
					for rot := 0; rot < len(args); rot++ {
						idx := make([]int, na)
						for i := range idx {
							idx[i] = (rot + i*3) % len(args)
						}
						emitCall(idx)
					}
				}
			}
		}
	}

	// a default is evaluated when it is needed: a failing default expression of a parameter the caller passes is harmless
	r.Group("default-evaluated-when-needed", "prog.case", "macros whose first / second / both parameters have a default that fails when evaluated (a division by zero), called with 0..2 arguments, local and imported: the call fails exactly if a failing default is needed")
	{
		boom := Bin{Op: "/", L: Lit{V: IntV(1)}, R: Lit{V: IntV(0)}}
		for mask := 1; mask < 4; mask++ {
			params := []Param{{Name: "p", Default: lits("dp")}, {Name: "q", Default: lits("dq")}}
			if mask&1 != 0 {
				params[0].Default = boom
			}
			if mask&2 != 0 {
				params[1].Default = boom
			}
			for na := 0; na <= 2; na++ {
				for route := 0; route < 2; route++ {
					m := Macro{Name: "mac", Params: params, Body: macroBody([]string{"p", "q"})}
					cargs := []Expr{lits("A"), v("n")}[:na]
					files := map[string][]Node{}
					main := []Node{m}
					if route == 1 {
						m.Export = true
						files["/lib"] = []Node{m}
						main = []Node{Import{File: "lib", Names: []ImportName{{Name: "mac"}}}}
					}
					files["/main"] = append(main, T("("), O(Call{Name: "mac", Args: cargs}), T(")"))
					if c, ok := prog.BuildTwice(files, ctx, ctx2, nil, "macro-default", fmt.Sprintf("failing defaults=%02b args=%d route=%d", mask, na, route), false); ok {
						r.Do(c)
					} else {
						r.AddExtra("programs_outside_fragment", 1)
					}
				}
			}
		}
	}

	// ---- which names an import binds ----
	r.Group("import-names", "prog.case", "an import binds exactly the names it lists (the alias, not the original name, when one is given): next to a local macro / a set variable / a macro of another library with the original name, defined before or after the import; names of the library that are not listed stay unbound")
	{
		mk := func(name, mark string, export bool) Macro {
			return Macro{Name: name, Params: []Param{{Name: "p"}}, Body: []Node{T("<" + mark + ":"), O(v("p")), T(">")}, Export: export}
		}
		call := func(n string) Node { return O(Call{Name: n, Args: []Expr{lits("x")}}) }
		bound := func(n string) Node {
			return If{Conds: []Expr{v(n)}, Bodies: [][]Node{{T("[" + n + " bound]")}, {T("[" + n + " unbound]")}}}
		}
		lib := []Node{mk("mac", "lib.mac", true), mk("mac2", "lib.mac2", true)}
		lib2 := []Node{mk("mac", "lib2.mac", true)}
		impAlias := Import{File: "lib", Names: []ImportName{{Name: "mac", Alias: "alias"}}}
		mains := [][]Node{
			{mk("mac", "local", false), impAlias, call("mac"), call("alias"), bound("mac2")},
			{impAlias, mk("mac", "local", false), call("mac"), call("alias")},
			{impAlias, bound("mac"), bound("mac2"), call("alias")},
			{Set{Name: "mac", E: lits("a variable")}, impAlias, O(v("mac")), call("alias")},
			{Import{File: "lib2", Names: []ImportName{{Name: "mac"}}}, impAlias, call("mac"), call("alias")},
			{impAlias, Import{File: "lib2", Names: []ImportName{{Name: "mac"}}}, call("mac"), call("alias")},
			{Import{File: "lib", Names: []ImportName{{Name: "mac", Alias: "m2"}, {Name: "mac2", Alias: "mac"}}}, call("mac"), call("m2"), bound("mac2")},
			{Import{File: "lib", Names: []ImportName{{Name: "mac2"}}}, bound("mac"), call("mac2")},
			{Import{File: "lib", Names: []ImportName{{Name: "mac"}, {Name: "mac2", Alias: "other"}}}, call("mac"), call("other"), bound("mac2")},
			{mk("alias", "local-alias", false), impAlias, call("alias"), bound("mac")},
			// a later definition of a name replaces the earlier one, whatever kind either is
			{mk("mac", "first", false), call("mac"), mk("mac", "second", false), call("mac")},
			{Import{File: "lib", Names: []ImportName{{Name: "mac"}}}, call("mac"), mk("mac", "local-later", false), call("mac")},
			{mk("mac", "local-first", false), call("mac"), Import{File: "lib", Names: []ImportName{{Name: "mac"}}}, call("mac")},
			{mk("mac", "outer", false), For{Key: "i", Over: v("lst"), Body: []Node{mk("mac", "in-loop", false), call("mac")}}, call("mac")},
			{mk("mac", "outer", false), With{Pairs: []Pair{{Name: "z", E: lits("1")}}, Body: []Node{mk("mac", "in-with", false), call("mac")}}, call("mac")},
			{Macro{Name: "mac", Params: []Param{{Name: "p"}, {Name: "q", Default: lits("dq")}}, Body: []Node{T("<two:"), O(v("p")), O(v("q")), T(">")}}, Macro{Name: "mac", Params: []Param{{Name: "p"}}, Body: []Node{T("<one:"), O(v("p")), T(">")}}, call("mac")},
			{With{Pairs: []Pair{{Name: "mac", E: lits("with-var")}}, Body: []Node{impAlias, O(v("mac")), call("alias")}}, bound("alias")},
		}
		for i, main := range mains {
			c, ok := prog.BuildTwice(map[string][]Node{"/main": main, "/lib": lib, "/lib2": lib2}, ctx, ctx2, nil, "macro-import-names", fmt.Sprint("import-names ", i), false)
			if !ok {
				r.AddExtra("programs_outside_fragment", 1)
				continue
			}
			r.Do(c)
		}
	}

	// markup is not escaped again / tainted escaped once, also when the result travels through set and with
	r.Group("markup", "prog.case", "the result of a macro call is markup: printed, stored with set/with and printed, concatenated; a tainted argument is escaped exactly once")
	m := Macro{Name: "mac", Params: []Param{{Name: "p"}}, Body: []Node{T("<b>"), O(v("p")), T("</b>")}}
	for _, a := range []Expr{v("tainted"), lits("<lit>"), Lit{V: IntV(1)}, v("ptainted"), v("ntainted")} {
		call := Call{Name: "mac", Args: []Expr{a}}
		progs := [][]Node{
			{m, O(call)},
			{m, For{Key: "i", Over: v("lst"), Body: []Node{O(call)}}},
			{m, If{Conds: []Expr{call}, Bodies: [][]Node{{T("truthy")}}}},
			{m, Autoescape{On: false, Body: []Node{O(call)}}},
		}
		// the result of one macro handed to another macro is still markup there
		outer := Macro{Name: "outer", Params: []Param{{Name: "y"}, {Name: "z", Default: Call{Name: "mac", Args: []Expr{lits("d")}}}}, Body: []Node{T("<o>"), O(v("y")), T("|"), O(v("z")), T("</o>")}}
		progs = append(progs, []Node{m, outer, O(Call{Name: "outer", Args: []Expr{call}})}, []Node{m, outer, O(Call{Name: "outer", Args: []Expr{call, call}})},
			[]Node{m, outer, Set{Name: "r", E: call}, O(Call{Name: "outer", Args: []Expr{v("r")}})})
		progs = append(progs, []Node{m, FirstOf{Args: []Expr{v("missing"), call}}})
		for i, p := range progs {
			c, ok := prog.BuildTwice(map[string][]Node{"/main": p}, ctx, ctx2, nil, "macro-markup", fmt.Sprint("markup", i), false)
			if ok {
				r.Do(c)
			}
		}
	}

	r.Group("whitespace-options", "c13.opt", "macro bodies with line breaks and blanks around block tags x the 4 TrimBlocks/LStripBlocks settings of the set: local, imported and aliased definitions render the same")
	for _, body := range []string{"\n  {% if a %}\nyes\n  {% endif %}\n", "x\n{% for i in \"ab\" %}\n {{ i }}\n\t{% endfor %}\ny", " {% set z = a %} \n{{ z }}", "{% if a %}\n\nA{% else %}\nB  {% endif %}", "plain {{ a }}\n"} {
		for opts := 0; opts < 4; opts++ {
			r.Do(&OptCase{Body: body, Opts: opts})
		}
	}
	r.Group("depth-boundary", "c13.depth", "a recursive macro with a base case at depth K for every K in 990..1010 (and 10, 500, 900, 1100, 2000), direct and mutual: local, imported and aliased definitions agree on rendering / refusing, each K in a fresh sub-process")
	for _, shape := range []string{"direct", "mutual"} {
		ks := []int{10, 500, 900, 1100, 2000}
		for k := 990; k <= 1010; k++ {
			ks = append(ks, k)
		}
		for _, k := range ks {
			r.DoIsolated(&DepthCase{K: k, Shape: shape}, 60*time.Second)
		}
	}

	// ---- runaway recursion with the call inside a construct of the body ----
	r.Group("recursion-in-constructs", "c13.rec", "all call graphs over 1..2 macros without a base case x {local file, imported file} x the recursive call written inside a loop over a two-character string, a loop over a list literal, a with block, an if branch, a filter tag, the empty branch of a loop: the FIRST path to reach the depth limit ends the whole execution (no exponential re-descent); each in a fresh sub-process")
	wraps := []func(call string) string{
		func(c string) string { return `{% for ch in "ab" %}` + c + `{% endfor %}` },
		func(c string) string { return `{% for ch in [1, 2] %}` + c + `{% endfor %}` },
		func(c string) string { return `{% with w=1 %}` + c + c + `{% endwith %}` },
		func(c string) string { return `{% if 1 %}` + c + `{% endif %}` + c },
		func(c string) string { return `{% filter upper %}` + c + `{% endfilter %}` + c },
		func(c string) string { return `{% for ch in nothing %}never{% empty %}` + c + `{% endfor %}` },
	}
	for n := 1; n <= 2; n++ {
		enum.Tuples(n, n, func(callee []int) bool {
			enum.Tuples(2*len(wraps), n, func(wv []int) bool {
				names := []string{"ma", "mb"}
				var mainB, libB strings.Builder
				var imports []string
				for i := 0; i < n; i++ {
					where, wrap := wv[i]&1, wraps[wv[i]>>1]
					def := fmt.Sprintf("{%% macro %s(x) %s%%}[%s]{%% endmacro %%}", names[i], map[int]string{0: "", 1: "export "}[where], wrap("{{ "+names[callee[i]]+"(x) }}"))
					if where == 0 {
						mainB.WriteString(def)
					} else {
						libB.WriteString(def)
						imports = append(imports, names[i])
					}
				}
				files := map[string]string{}
				main := mainB.String()
				if len(imports) > 0 {
					files["/lib"] = libB.String()
					main = "{% import \"lib\" " + strings.Join(imports, ", ") + " %}" + main
				}
				files["/main"] = main + "{{ " + names[0] + "(1) }}"
				r.DoIsolated(&RecCase{Files: files, Label: fmt.Sprintf("construct graph callee=%v placement=%v", callee, wv)}, 60*time.Second)
				return !r.Stopped()
			})
			return !r.Stopped()
		})
	}

	// ---- runaway recursion: every call graph over 1..3 macros in which every macro calls another ----
	r.Group("recursion", "c13.rec", "all call graphs over 1..3 macros in which every macro calls exactly one macro (no base case) x every assignment of the macros to {local file, imported file} x {call in the body, call in a parameter default}; each run in a fresh sub-process (a stack overflow kills the process)")
	for n := 1; n <= 3; n++ {
		enum.Tuples(n, n, func(callee []int) bool { // callee[i] = macro called by macro i
			enum.Tuples(4, n, func(wv []int) bool { // bit 0: 0 = local, 1 = in /lib ; bit 1: the call sits in the body (0) or in a parameter default (1)
				where := make([]int, n)
				via := make([]int, n)
				for i, x := range wv {
					where[i], via[i] = x&1, x>>1
				}
				names := []string{"ma", "mb", "mc"}
				var mainB, libB strings.Builder
				var imports []string
				anyLib := false
				for i := 0; i < n; i++ {
					def := fmt.Sprintf("{%% macro %s(x) %s%%}[{{ %s(x) }}]{%% endmacro %%}", names[i], map[int]string{0: "", 1: "export "}[where[i]], names[callee[i]])
					if via[i] == 1 {
						// the recursive call is made while binding a default value
						def = fmt.Sprintf("{%% macro %s(x, y=%s(1)) %s%%}[{{ y }}]{%% endmacro %%}", names[i], names[callee[i]], map[int]string{0: "", 1: "export "}[where[i]])
					}
					if where[i] == 0 {
						mainB.WriteString(def)
					} else {
						libB.WriteString(def)
						imports = append(imports, names[i])
						anyLib = true
					}
				}
				files := map[string]string{}
				main := mainB.String()
				if anyLib {
					lib := libB.String()
					// an imported macro runs in a scope derived from the importing template, so at call time it sees every
					// macro bound there (imported or local): every graph is expressible
					files["/lib"] = lib
					main = "{% import \"lib\" " + strings.Join(imports, ", ") + " %}" + main
				}
				files["/main"] = main + "{{ " + names[0] + "(1) }}"
				label := fmt.Sprintf("graph callee=%v where=%v via-default=%v", callee, where, via)
				r.DoIsolated(&RecCase{Files: files, Label: label}, 60*time.Second)
				return !r.Stopped()
			})
			return !r.Stopped()
		})
	}
}

func init() {
	eng.RegisterCase("c13.depth", func() eng.Case { return &DepthCase{} })
	eng.RegisterCase("c13.opt", func() eng.Case { return &OptCase{} })
	eng.RegisterCase("c13.rec", func() eng.Case { return &RecCase{} })
	eng.Register(&eng.Check{
		ID:    "C13",
		Title: "Macros bind arguments by position with defaults, and recursion is bounded",
		Rule: "bounded-exhaustive: every macro signature up to the parameter bound with every subset of defaults, called with every argument count 0..n+1 and argument kinds (all tuples up to 2 arguments, rotating representatives above), through a local definition, an import and an aliased import, compared with the reference binding model (too many arguments = execution error; literal markup raw, tainted argument escaped once). " +
			"Runaway recursion: every call graph over up to 3 macros without a base case and every placement of the macros in the main or an imported file is executed in a fresh sub-process and must end in an execution error (process death = violation). All cases non-trivial.",
		Assumptions: []string{
		},
		Run: run,
	})
}
