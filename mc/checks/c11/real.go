package c11

// Real loaders: the name resolution and fetching code of pongo2's own loaders (template_loader.go), observed through a
// recording wrapper. FSLoader and HttpFilesystemLoader run over an in-memory fs (testing/fstest), LocalFilesystemLoader
// over a scratch directory that exists only while the case runs.

import (
	"fmt"
	"io"
	"io/fs"
	"net/http"
	"os"
	"path"
	"path/filepath"
	"sort"
	"strings"
	"testing/fstest"

	"github.com/flosch/pongo2/v6"

	"verifmc/internal/eng"
	"verifmc/internal/px"
)

type RealCase struct {
	Loader   string `json:"loader"`   // fs | local | local-base | http | http-base | sandboxed
	Ref      string `json:"ref"`      // include | include-lazy | extends | import | ssi | ssi-parsed
	Referrer string `json:"referrer"` // path of the entry template, relative to the tree's root
	Name     string `json:"name"`     // the name written in the reference
}

func (c *RealCase) ID() string {
	return fmt.Sprintf("loader=%s ref=%s referrer=%s name=%q", c.Loader, c.Ref, c.Referrer, c.Name)
}

// chunkFS serves the files of a MapFS in short reads.
type chunkFS struct{ inner fstest.MapFS }

func (c chunkFS) Open(name string) (fs.File, error) {
	f, err := c.inner.Open(name)
	if err != nil {
		return nil, err
	}
	return &chunkFile{f}, nil
}

type chunkFile struct{ fs.File }

func (f *chunkFile) Read(p []byte) (int, error) {
	if len(p) > 5 {
		p = p[:5]
	}
	return f.File.Read(p)
}

// http.FS needs Seek/Readdir of the wrapped file where it has them
func (f *chunkFile) Seek(offset int64, whence int) (int64, error) {
	if s, ok := f.File.(io.Seeker); ok {
		return s.Seek(offset, whence)
	}
	return 0, fmt.Errorf("chunkFile: no Seek")
}

func (f *chunkFile) ReadDir(n int) ([]fs.DirEntry, error) {
	if d, ok := f.File.(fs.ReadDirFile); ok {
		return d.ReadDir(n)
	}
	return nil, fmt.Errorf("chunkFile: not a directory")
}

type recLoader struct {
	inner pongo2.TemplateLoader
	gets  []string
	abs   []string
}

func (l *recLoader) Abs(base, name string) string {
	p := l.inner.Abs(base, name)
	l.abs = append(l.abs, fmt.Sprintf("Abs(%q,%q)=%q", base, name, p))
	return p
}

func (l *recLoader) Get(p string) (io.Reader, error) {
	r, err := l.inner.Get(p)
	if err == nil {
		l.gets = append(l.gets, p)
	}
	return r, err
}

// the tree: every directory holds a target, a leaf the target refers to by a relative name, and (root, d) an entry
var realDirs = []string{"", "d", "sub", "d/sub"}

func marker(p string) string { return "<" + p + ">" }

func (c *RealCase) targetSrc(p string) string {
	switch c.Ref {
	case "extends":
		return "B" + marker(p) + "{% block a %}base{% endblock %}{% include \"leaf.tpl\" %}"
	case "import":
		return "{% macro m() export %}M" + marker(p) + "{% include \"leaf.tpl\" %}{% endmacro %}"
	case "ssi":
		return "S" + marker(p) + "{{ 1 }}"
	}
	return "T" + marker(p) + "{% include \"leaf.tpl\" %}"
}

func (c *RealCase) mainSrc() string {
	switch c.Ref {
	case "include":
		return `[{% include "` + c.Name + `" %}]`
	case "include-lazy":
		return `[{% include name %}]`
	case "extends":
		return `{% extends "` + c.Name + `" %}{% block a %}child{% endblock %}`
	case "import":
		return `{% import "` + c.Name + `" m %}[{{ m() }}]`
	case "ssi":
		return `[{% ssi "` + c.Name + `" %}]`
	case "ssi-parsed":
		return `[{% ssi "` + c.Name + `" parsed %}]`
	}
	panic("ref kind")
}

// resolve is the documented rule of each loader: where does `name`, written in the template at `referrer`, live?
// (paths relative to the tree's root; ok=false: the loader cannot serve such a name)
func (c *RealCase) resolve(referrer, name string) (string, bool) {
	switch c.Loader {
	case "fs":
		p := path.Join(path.Dir(referrer), name) // relative to the referring template
		return p, fs.ValidPath(p)
	case "local", "sandboxed-nobase":
		p := path.Join(path.Dir(referrer), name)
		return p, true
	case "local-base", "sandboxed":
		return path.Join(name), true // always from the base directory
	case "http", "http-base":
		p := strings.TrimPrefix(name, "/") // the name as written, from the root of the http file system
		return p, fs.ValidPath(p) && !strings.Contains(name, "..")
	}
	panic("loader kind")
}

func (c *RealCase) Exec(t *eng.T) {
	t.Nontrivial()
	files := map[string]string{}
	for _, d := range realDirs {
		files[path.Join(d, "t.tpl")] = c.targetSrc(path.Join(d, "t.tpl"))
		files[path.Join(d, "leaf.tpl")] = "L" + marker(path.Join(d, "leaf.tpl"))
	}
	files[c.Referrer] = c.mainSrc()
	files["decoy/t.tpl"] = "DECOY"

	// expectation
	wantErr := false
	var fetch []string
	fetch = append(fetch, c.Referrer)
	want := ""
	tp, ok := c.resolve(c.Referrer, c.Name)
	_, exists := files[tp]
	if !ok || !exists || tp == c.Referrer {
		wantErr = true
	} else {
		fetch = append(fetch, tp)
		inner := ""
		if c.Ref != "ssi" {
			lp, lok := c.resolve(tp, "leaf.tpl")
			if _, lex := files[lp]; !lok || !lex {
				wantErr = true
			} else {
				fetch = append(fetch, lp)
				inner = "L" + marker(lp)
			}
		}
		switch c.Ref {
		case "extends":
			want = "B" + marker(tp) + "child" + inner
		case "import":
			want = "[M" + marker(tp) + inner + "]"
		case "ssi":
			want = "[S" + marker(tp) + "{{ 1 }}]"
		default:
			want = "[T" + marker(tp) + inner + "]"
		}
	}

	// the loader under test
	var inner pongo2.TemplateLoader
	root := "" // prefix of real paths
	switch c.Loader {
	case "fs", "http", "http-base":
		m := fstest.MapFS{}
		for p, s := range files {
			if c.Loader == "http-base" {
				p = "tpls/" + p
			}
			m[p] = &fstest.MapFile{Data: []byte(s)}
		}
		// the files deliver their content in pieces of at most 5 bytes (a Read may return less than asked for)
		cm := chunkFS{m}
		switch c.Loader {
		case "fs":
			inner = pongo2.NewFSLoader(cm)
		case "http":
			inner = pongo2.MustNewHttpFileSystemLoader(http.FS(cm), "")
		case "http-base":
			inner = pongo2.MustNewHttpFileSystemLoader(http.FS(cm), "/tpls")
		}
	default:
		top, err := os.MkdirTemp("", "verif-c11-")
		if err != nil {
			t.Skip()
			return
		}
		defer os.RemoveAll(top)
		root = filepath.Join(top, "outer", "root")
		for p, s := range files {
			full := filepath.Join(root, filepath.FromSlash(p))
			os.MkdirAll(filepath.Dir(full), 0o755)
			os.WriteFile(full, []byte(s), 0o644)
		}
		switch c.Loader {
		case "local":
			inner = pongo2.MustNewLocalFileSystemLoader("")
		case "local-base":
			inner = pongo2.MustNewLocalFileSystemLoader(root)
		case "sandboxed":
			l, err := pongo2.NewSandboxedFilesystemLoader(root)
			if err != nil {
				t.Fail("real-loader:construct", "%s: %v", c.ID(), err)
				return
			}
			inner = l
		}
	}
	rec := &recLoader{inner: inner}
	set := pongo2.NewSet("c11-real", rec)
	entry := c.Referrer
	if c.Loader == "local" {
		entry = filepath.Join(root, filepath.FromSlash(c.Referrer)) // without a base directory the entry is given by its full path
	}
	ctx := pongo2.Context{"name": c.Name}
	tpl, out := px.CompileFile(set, entry)
	if tpl != nil {
		out = px.Exec(tpl, ctx)
	}
	t.Outcome(out.Kind())
	key := "real-loader:" + c.Loader
	if out.Panic != "" {
		t.Fail(key+":panic", "%s panics: %s", c.ID(), out.PanicMsg)
		return
	}
	// normalise the fetched paths to tree-relative ones
	norm := func(p string) string {
		if root != "" {
			if rel, err := filepath.Rel(root, p); err == nil {
				return filepath.ToSlash(rel)
			}
		}
		return strings.TrimPrefix(strings.TrimPrefix(p, "/"), "tpls/")
	}
	got := map[string]bool{}
	for _, g := range rec.gets {
		got[norm(g)] = true
	}
	wantSet := map[string]bool{}
	for _, f := range fetch {
		wantSet[path.Clean(f)] = true
	}
	var problems []string
	for g := range got {
		if !wantSet[g] {
			problems = append(problems, "fetched "+g+", which the templates involved do not name")
		}
	}
	if !wantErr {
		for w := range wantSet {
			if !got[w] {
				problems = append(problems, "never fetched "+w)
			}
		}
	}
	sort.Strings(problems)
	if len(problems) > 0 {
		t.Fail(key+":fetch-log", "%s: %s (Abs calls %v, successful Get calls %v)", c.ID(), strings.Join(problems, "; "), rec.abs, rec.gets)
		return
	}
	if wantErr {
		if !out.Failed() {
			t.Fail(key+":no-error", "%s renders %q although the name resolves to %q, which this loader cannot serve", c.ID(), out.S, tp)
		}
		return
	}
	if out.Failed() {
		t.Fail(key+":error", "%s fails: %s; want %q (Abs calls %v)", c.ID(), out, want, rec.abs)
		return
	}
	if out.S != want {
		t.Fail(key+":output", "%s renders %q, want %q (Abs calls %v)", c.ID(), out.S, want, rec.abs)
	}
}

// TwoDirCase: a set with two LocalFilesystemLoaders, each with a base directory of its own. A template served by
// the first refers (by a plain name) to a file only the second has: "the first loader that has a name wins".
type TwoDirCase struct {
	Ref string `json:"ref"` // include | include-lazy | extends | import | ssi | ssi-parsed
}

func (c *TwoDirCase) ID() string { return "two base directories, " + c.Ref + " of a file only the second has" }

func (c *TwoDirCase) Exec(t *eng.T) {
	t.Nontrivial()
	a, err1 := os.MkdirTemp("", "verif-c11a-")
	b, err2 := os.MkdirTemp("", "verif-c11b-")
	if err1 != nil || err2 != nil {
		t.Skip()
		return
	}
	defer os.RemoveAll(a)
	defer os.RemoveAll(b)
	rc := &RealCase{Ref: c.Ref, Name: "only_b.tpl"}
	if c.Ref == "fromcache" {
		rc.Ref = "include"
	}
	target := "T<only_b>"
	switch c.Ref {
	case "extends":
		target = "B<only_b>{% block a %}base{% endblock %}"
	case "import":
		target = "{% macro m() export %}M<only_b>{% endmacro %}"
	}
	os.WriteFile(filepath.Join(a, "main.tpl"), []byte(rc.mainSrc()), 0o644)
	os.WriteFile(filepath.Join(b, "only_b.tpl"), []byte(target), 0o644)
	set := pongo2.NewSet("c11-twodirs", pongo2.MustNewLocalFileSystemLoader(a), pongo2.MustNewLocalFileSystemLoader(b))
	direct, derr := set.FromFile("only_b.tpl")
	if derr != nil || direct == nil {
		t.Fail("harness:twodirs", "%s: the set cannot load only_b.tpl directly: %v", c.ID(), derr)
		return
	}
	tpl, out := px.CompileFile(set, "main.tpl")
	if c.Ref == "fromcache" {
		// no referring template at all: the set's own cache asked for the name
		var ct *pongo2.Template
		var cerr error
		if ct, cerr = set.FromCache("only_b.tpl"); cerr != nil {
			tpl, out = nil, px.Out{Err: cerr.Error(), Compile: true}
		} else {
			tpl = ct
		}
	}
	if tpl != nil {
		out = px.Exec(tpl, pongo2.Context{"name": "only_b.tpl"})
	}
	t.Outcome(out.Kind())
	want := map[string]string{"include": "[T<only_b>]", "include-lazy": "[T<only_b>]", "extends": "B<only_b>child", "import": "[M<only_b>]", "ssi": "[T<only_b>]", "ssi-parsed": "[T<only_b>]", "fromcache": "T<only_b>"}[c.Ref]
	if out.Failed() || out.S != want {
		t.Fail("loader:later-loader-unreachable:"+c.Ref, "%s: the set loads only_b.tpl when asked directly (FromFile), but main.tpl (first directory) referring to it renders %s, want %q", c.ID(), out, want)
	}
}

func runReal(r *eng.Runner) {
	r.Group("two-base-directories", "c11.twodirs", "two LocalFilesystemLoaders with different base directories in one set: a template of the first refers by a plain name to a file only the second has, through each of the 6 reference kinds")
	for _, ref := range []string{"include", "include-lazy", "extends", "import", "ssi", "ssi-parsed", "fromcache"} {
		r.Do(&TwoDirCase{Ref: ref})
	}
	r.Group("real-loaders", "c11.real", "pongo2's own loaders (FSLoader and HttpFilesystemLoader with and without base directory over an in-memory fs, LocalFilesystemLoader with and without base directory and SandboxedFilesystemLoader over a scratch directory) behind a recording wrapper: 6 reference kinds x 2 referrer locations x 9 written names (plain, ./, sub directory, ../, detours, rooted, missing) with a second relative hop from the target; resolution rule per loader as documented in template_loader.go")
	names := []string{"t.tpl", "./t.tpl", "sub/t.tpl", "../t.tpl", "d/t.tpl", "sub/../t.tpl", "d/sub/t.tpl", "nofile.tpl", "../../t.tpl"}
	for _, l := range []string{"fs", "local", "local-base", "http", "http-base", "sandboxed"} {
		for _, ref := range []string{"include", "include-lazy", "extends", "import", "ssi", "ssi-parsed"} {
			for _, referrer := range []string{"main.tpl", "d/main.tpl"} {
				for _, n := range names {
					r.Do(&RealCase{Loader: l, Ref: ref, Referrer: referrer, Name: n})
				}
			}
		}
	}
}

func init() {
	eng.RegisterCase("c11.real", func() eng.Case { return &RealCase{} })
	eng.RegisterCase("c11.twodirs", func() eng.Case { return &TwoDirCase{} })
}
