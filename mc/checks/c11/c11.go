// Package c11: templates are composed only through the set's loaders, by the names written.
package c11

import (
	"fmt"
	"os"
	"path"
	"path/filepath"
	"sort"
	"strings"

	"github.com/flosch/pongo2/v6"

	"verifmc/internal/eng"
	"verifmc/internal/px"
)

type Case struct {
	Loaders []map[string]string `json:"loaders"` // files of each loader, in set order
	Main    string              `json:"main"`    // entry file
	Vars    map[string]string   `json:"vars"`    // string context variables
	Want    eng.Q               `json:"want"`
	WantErr bool                `json:"want_err"`
	Fetch   []string            `json:"fetch"` // paths that must be fetched successfully (sorted set)
	Label   string              `json:"label"`
	Canary  bool                `json:"canary"` // a real file exists at {{CANARY}}; its content must never appear
	Globals map[string]string   `json:"globals,omitempty"`
	// AddLater: only the first loader is given to NewSet, the others are added with AddLoader
	AddLater bool `json:"add_later,omitempty"`
}

func (c *Case) ID() string {
	var b strings.Builder
	b.WriteString(c.Label + " main=" + c.Main)
	for i, l := range c.Loaders {
		var ks []string
		for k := range l {
			ks = append(ks, k)
		}
		sort.Strings(ks)
		fmt.Fprintf(&b, " L%d{", i+1)
		for _, k := range ks {
			fmt.Fprintf(&b, "%s=%q ", k, l[k])
		}
		b.WriteString("}")
	}
	var vs []string
	for k, v := range c.Vars {
		vs = append(vs, k+"="+v)
	}
	sort.Strings(vs)
	b.WriteString(" vars=" + strings.Join(vs, ","))
	if len(c.Globals) > 0 {
		b.WriteString(fmt.Sprint(" globals=", c.Globals))
	}
	if c.AddLater {
		b.WriteString(" loaders-added-later")
	}
	return b.String()
}

const canaryText = "CANARY-7f3a-must-never-be-read"

func (c *Case) Exec(t *eng.T) {
	t.Nontrivial()
	canaryPath := ""
	subst := func(s string) string { return s }
	if c.Canary {
		dir, err := os.MkdirTemp("", "verif-canary-")
		if err != nil {
			t.Skip()
			return
		}
		defer os.RemoveAll(dir)
		canaryPath = filepath.Join(dir, "secret.txt")
		os.WriteFile(canaryPath, []byte(canaryText), 0o644)
		subst = func(s string) string { return strings.ReplaceAll(s, "{{CANARY}}", canaryPath) }
	}
	var loaders []*px.MemLoader
	var tl []pongo2.TemplateLoader
	for i, files := range c.Loaders {
		f2 := map[string]string{}
		for k, v := range files {
			f2[k] = subst(v)
		}
		l := px.NewMemLoader(f2)
		l.Tag = fmt.Sprintf("L%d ", i+1)
		loaders = append(loaders, l)
		tl = append(tl, l)
	}
	set := pongo2.NewSet("c11", tl...)
	if c.AddLater && len(tl) > 1 {
		// the caller builds two sets from ONE slice of loaders (with spare capacity) and extends each of them:
		// what the other set adds is none of this set's business
		ls := make([]pongo2.TemplateLoader, 1, 8)
		ls[0] = tl[0]
		set = pongo2.NewSet("c11", ls...)
		other := pongo2.NewSet("c11-other", ls...)
		set.AddLoader(tl[1:]...)
		decoy := map[string]string{}
		for _, files := range c.Loaders {
			for k := range files {
				decoy[k] = "FROM-THE-OTHER-SETS-LOADER"
			}
		}
		other.AddLoader(px.NewMemLoader(decoy), px.NewMemLoader(decoy), px.NewMemLoader(decoy))
		ls[0] = px.NewMemLoader(decoy) // the caller's slice is the caller's
	}
	for k, v := range c.Globals {
		set.Globals[k] = v
	}
	ctx := pongo2.Context{"v": "ctxv", "fail": func() (string, error) { return "", fmt.Errorf("boom") }}
	for k, v := range c.Vars {
		ctx[k] = subst(v)
	}
	tpl, out := px.CompileFile(set, c.Main)
	if tpl != nil {
		out = px.Exec(tpl, ctx)
	}
	t.Outcome(out.String())
	if strings.Contains(out.S, canaryText) || strings.Contains(out.Err, canaryText) {
		t.Fail("loader:canary-read:"+c.Label, "%s: the output contains the content of a file of the real file system that no loader serves: %s", c.ID(), out)
		return
	}
	if out.Panic != "" {
		t.Fail("loader:panic:"+c.Label, "%s panics: %s", c.ID(), out.PanicMsg)
		return
	}
	// fetch log
	hit := map[string]int{} // path -> index of the loader that served it
	var problems []string
	probed := map[string][]bool{}
	for i, l := range loaders {
		for p, n := range l.Gets {
			if probed[p] == nil {
				probed[p] = make([]bool, len(loaders))
			}
			probed[p][i] = n > 0
			if _, ok := l.Files[p]; ok && !l.Fail[p] {
				if prev, seen := hit[p]; !seen || i < prev {
					hit[p] = i
				}
			}
		}
	}
	for p, pr := range probed {
		first := -1
		for i, l := range loaders {
			if _, ok := l.Files[p]; ok {
				first = i
				break
			}
		}
		for i := range pr {
			if first >= 0 && i > first && pr[i] {
				problems = append(problems, fmt.Sprintf("%s was also requested from loader %d although loader %d has it", p, i+1, first+1))
			}
			if first >= 0 && i < first && !pr[i] {
				problems = append(problems, fmt.Sprintf("%s: loader %d was skipped", p, i+1))
			}
		}
	}
	var got []string
	for p := range hit {
		got = append(got, p)
	}
	sort.Strings(got)
	want := append([]string{}, c.Fetch...)
	sort.Strings(want)
	if !c.WantErr || true {
		// every successfully fetched path must be one the templates reference, and (on success) all of them must be fetched
		wantSet := map[string]bool{}
		for _, p := range want {
			wantSet[p] = true
		}
		for _, p := range got {
			if !wantSet[p] {
				problems = append(problems, "fetched "+p+" which no template involved references")
			}
		}
		if !c.WantErr {
			gotSet := map[string]bool{}
			for _, p := range got {
				gotSet[p] = true
			}
			for _, p := range want {
				if !gotSet[p] {
					problems = append(problems, "never fetched "+p)
				}
			}
		}
	}
	// requests for paths that exist nowhere are fine only if they are referenced names (if_exists / missing)
	if len(problems) > 0 {
		sort.Strings(problems)
		t.Fail("loader:fetch-log:"+c.Label, "%s: %s (log: %v)", c.ID(), strings.Join(problems, "; "), logs(loaders))
		return
	}
	if c.WantErr {
		if !out.Failed() {
			t.Fail("loader:no-error:"+c.Label, "%s renders %q; an error is expected (missing template / failing sub-template)", c.ID(), out.S)
		}
		return
	}
	if out.Failed() {
		t.Fail("loader:error:"+c.Label, "%s fails: %s; want %q", c.ID(), out, string(c.Want))
		return
	}
	if out.S != subst(string(c.Want)) {
		t.Fail("loader:output:"+c.Label, "%s renders %q, want %q (log: %v)", c.ID(), out.S, string(c.Want), logs(loaders))
		return
	}
	// an entry file in the loaders' root directory: the same source compiled from a string (FromString) names the
	// same templates - relative names are resolved from the loaders' root
	if path.Dir(c.Main) == "/" && !c.Canary {
		src, found := "", false
		for _, files := range c.Loaders {
			if s, ok := files[c.Main]; ok {
				src, found = s, true
				break
			}
		}
		if found {
			var tl2 []pongo2.TemplateLoader
			for _, files := range c.Loaders {
				tl2 = append(tl2, px.NewMemLoader(files))
			}
			set2 := pongo2.NewSet("c11-string", tl2...)
			for k, v := range c.Globals {
				set2.Globals[k] = v
			}
			tpl2, o2 := px.Compile(set2, src)
			if tpl2 != nil {
				o2 = px.Exec(tpl2, ctx)
			}
			if o2.Failed() || o2.S != out.S {
				t.Fail("loader:from-string:"+c.Label, "%s: the entry file's source compiled with FromString renders %s; loaded with FromFile it renders %q", c.ID(), o2, out.S)
			}
		}
	}
}

func logs(ls []*px.MemLoader) []string {
	var out []string
	for _, l := range ls {
		for _, e := range l.Log {
			if strings.Contains(e, "get ") {
				out = append(out, e)
			}
		}
	}
	return out
}

// ---- generation ----

// nameForms returns the spellings by which a template in dir(referrer) can name target.
func nameForms(referrer, target string) []string {
	forms := []string{target} // rooted
	rd := path.Dir(referrer)
	if rel, err := filepath.Rel(rd, target); err == nil {
		forms = append(forms, rel)
		if !strings.HasPrefix(rel, "..") {
			forms = append(forms, "./"+rel)
		}
	}
	// a detour through the parent
	if rd != "/" {
		forms = append(forms, "../"+strings.TrimPrefix(path.Join(path.Base(rd), mustRel(rd, target)), "/"))
	}
	seen := map[string]bool{}
	var out []string
	for _, f := range forms {
		if !seen[f] && px.AbsRule(referrer, f) == target {
			seen[f] = true
			out = append(out, f)
		}
	}
	return out
}

func mustRel(a, b string) string {
	r, _ := filepath.Rel(a, b)
	return r
}

type kind struct {
	name string
	// build returns the referrer's source and the expected output given the target's marker text m and its raw source
	src     func(name string) string
	out     func(marker string) string
	lazyVar bool                       // the name comes from the context variable "name"
	target  func(marker string) string // source of the target file for this kind
	tmarker func(marker string) string // what the target renders to
}

func kinds() []kind {
	plain := func(m string) string { return m + "{{ v }}" }
	plainOut := func(m string) string { return m + "ctxv" }
	return []kind{
		{name: "include", src: func(n string) string { return `<{% include "` + n + `" %}>` }, out: func(m string) string { return "<" + plainOut(m) + ">" }, target: plain},
		{name: "include-lazy", src: func(n string) string { return `<{% include name %}>` }, out: func(m string) string { return "<" + plainOut(m) + ">" }, target: plain, lazyVar: true},
		{name: "include-with", src: func(n string) string { return `<{% include "` + n + `" with w="W" %}>` }, out: func(m string) string { return "<" + m + "ctxvW>" }, target: func(m string) string { return m + "{{ v }}{{ w }}" }},
		{name: "include-only", src: func(n string) string { return `<{% include "` + n + `" with w="W" only %}>` }, out: func(m string) string { return "<" + m + "W>" }, target: func(m string) string { return m + "{{ v }}{{ w }}" }},
		{name: "include-lazy-only", src: func(n string) string { return `<{% include name with w=v only %}>` }, out: func(m string) string { return "<" + m + "ctxv>" }, target: func(m string) string { return m + "{{ v }}{{ w }}" }, lazyVar: true},
		{name: "include-if-exists", src: func(n string) string { return `<{% include "` + n + `" if_exists %}>` }, out: func(m string) string { return "<" + plainOut(m) + ">" }, target: plain},
		{name: "include-lazy-if-exists", src: func(n string) string { return `<{% include name if_exists %}>` }, out: func(m string) string { return "<" + plainOut(m) + ">" }, target: plain, lazyVar: true},
		{name: "extends", src: func(n string) string { return `{% extends "` + n + `" %}{% block c %}child{{ v }}{% endblock %}` }, out: func(m string) string { return m + "[childctxv]" }, target: func(m string) string { return m + "[{% block c %}base{% endblock %}]" }},
		{name: "import", src: func(n string) string { return `{% import "` + n + `" mac %}<{{ mac() }}>` }, out: func(m string) string { return "<" + m + ">" }, target: func(m string) string { return "ignored{% macro mac() export %}" + m + "{% endmacro %}" }},
		{name: "import-alias", src: func(n string) string { return `{% import "` + n + `" mac as al %}<{{ al() }}>` }, out: func(m string) string { return "<" + m + ">" }, target: func(m string) string { return "{% macro mac() export %}" + m + "{% endmacro %}" }},
		{name: "ssi", src: func(n string) string { return `<{% ssi "` + n + `" %}>` }, out: func(m string) string { return "<" + m + "{{ v }}>" }, target: plain},
		{name: "ssi-parsed", src: func(n string) string { return `<{% ssi "` + n + `" parsed %}>` }, out: func(m string) string { return "<" + plainOut(m) + ">" }, target: plain},
	}
}

func run(r *eng.Runner) {
	ks := kinds()
	referrers := []string{"/main", "/d/main", "/d/e/main"}
	targets := []string{"/a", "/d/b", "/d/e/c", "/x/y"}

	// ---- single references: kind x referrer x target x name form x loader configuration ----
	r.Group("references", "c11.case", "every reference kind (12) x referrer location (3 directories) x target (4) x every name form reaching it (rooted, relative, ./, ../ detours) x 6 loader configurations {one loader; two loaders with the target only in the second; target in both (first wins); referrer in the second and target in the first; three loaders with the target only in the last; three loaders with the target in the second and third}; every multi-loader configuration built by NewSet(l1, l2, ..) and by NewSet(l1) + AddLoader(l2, ..)")
	for _, k := range ks {
		for _, ref := range referrers {
			for _, tg := range targets {
				for _, form := range nameForms(ref, tg) {
					for cfg := 0; cfg < 6; cfg++ {
						m1 := "[L1:" + tg + "]"
						m2 := "[L2:" + tg + "]"
						mainSrc := k.src(form)
						var ls []map[string]string
						marker := m1
						switch cfg {
						case 0:
							ls = []map[string]string{{ref: mainSrc, tg: k.target(m1)}}
						case 1:
							ls = []map[string]string{{ref: mainSrc}, {tg: k.target(m2)}}
							marker = m2
						case 2:
							ls = []map[string]string{{ref: mainSrc, tg: k.target(m1)}, {tg: k.target(m2), ref: "SHADOWED-MAIN"}}
						case 3:
							ls = []map[string]string{{tg: k.target(m1)}, {ref: mainSrc, tg: k.target(m2)}}
						case 4: // three loaders, the target only in the last one
							ls = []map[string]string{{ref: mainSrc, tg + ".bak": "DECOY"}, {"/unrelated": "DECOY"}, {tg: k.target(m2)}}
							marker = m2
						case 5: // three loaders, the target in the second and third: the second serves it
							m3 := "[L3:" + tg + "]"
							ls = []map[string]string{{ref: mainSrc}, {tg: k.target(m2)}, {tg: k.target(m3), ref: "SHADOWED-MAIN"}}
							marker = m2
						}
						vars := map[string]string{}
						if k.lazyVar {
							vars["name"] = form
						}
						r.Do(&Case{Loaders: ls, Main: ref, Vars: vars, Want: eng.Q(k.out(marker)), Fetch: []string{ref, tg}, Label: k.name})
						if len(ls) > 1 {
							r.Do(&Case{Loaders: ls, Main: ref, Vars: vars, Want: eng.Q(k.out(marker)), Fetch: []string{ref, tg}, Label: k.name, AddLater: true})
						}
					}
				}
			}
		}
	}

	// ---- missing targets ----
	r.Group("missing", "c11.case", "references to a name no loader has: an error, or nothing with if_exists; a sibling file with a similar name must not be fetched instead")
	for _, k := range ks {
		for _, ref := range referrers {
			for _, form := range []string{"nofile", "/nofile", "../nofile", "d/nofile"} {
				decoy := map[string]string{ref: k.src(form), "/nofile.tpl": "DECOY", "/d/other": "DECOY"}
				vars := map[string]string{}
				if k.lazyVar {
					vars["name"] = form
				}
				c := &Case{Loaders: []map[string]string{decoy, {"/zz": "DECOY2"}}, Main: ref, Vars: vars, Fetch: []string{ref}, Label: k.name + "-missing"}
				if strings.Contains(k.name, "if-exists") {
					c.Want = "<>"
				} else {
					c.WantErr = true
				}
				r.Do(c)
			}
		}
	}

	// ---- if_exists must not swallow the errors of a file that exists ----
	r.Group("if-exists-errors", "c11.case", "include ... if_exists of a file that exists but fails (syntax error, execution error): the error must surface")
	for _, bad := range []string{"{{ }", "{% nosuchtag %}", "{{ fail() }}", "{% include \"nofile\" %}"} {
		r.Do(&Case{Loaders: []map[string]string{{"/main": `<{% include "sub" if_exists %}>`, "/sub": bad}}, Main: "/main", WantErr: true, Fetch: []string{"/main", "/sub"}, Label: "if-exists-broken"})
		r.Do(&Case{Loaders: []map[string]string{{"/main": `<{% include name if_exists %}>`, "/sub": bad}}, Main: "/main", Vars: map[string]string{"name": "sub"}, WantErr: true, Fetch: []string{"/main", "/sub"}, Label: "if-exists-broken-lazy"})
	}

	// ---- chains of two references, relative to the REFERRING file at each hop ----
	r.Group("chains", "c11.case", "two-hop reference chains through different directories (every ordered pair of 8 kinds), each hop written relative to the file it is written in; inheritance + include combinations incl. a lazy include inside an inherited block")
	byName := map[string]kind{}
	for _, k := range ks {
		byName[k.name] = k
	}
	firstHops := []string{"include", "include-lazy", "include-if-exists", "include-lazy-if-exists", "ssi-parsed", "extends"}
	secondHops := []string{"include", "include-lazy", "include-if-exists", "include-lazy-if-exists", "ssi-parsed", "ssi", "import", "import-alias", "include-with"}
	for _, n1 := range firstHops {
		for _, n2 := range secondHops {
			k1, k2 := byName[n1], byName[n2]
			// /main -> "d/mid" (lives in /d) -> "e/leaf" (lives in /d/e): each name is written relative to the file it is written in
			leafM := "[leaf]"
			midInner := k2.src("e/leaf")
			if k2.lazyVar {
				midInner = strings.ReplaceAll(k2.src(""), "name", "name2")
			}
			midRendered := "MID" + k2.out(leafM)
			var midFile, want string
			if n1 == "extends" {
				midFile = "MID" + midInner + "[{% block c %}base{% endblock %}]"
				want = midRendered + "[childctxv]"
			} else {
				midFile = "MID" + midInner
				// k1.out(marker) = wrapper around marker + "ctxv" (the {{ v }} of a plain target); the mid file has no {{ v }} of its own
				want = strings.Replace(k1.out("\x00"), "\x00ctxv", midRendered, 1)
			}
			files := map[string]string{"/main": k1.src("d/mid"), "/d/mid": midFile, "/d/e/leaf": k2.target(leafM)}
			vars := map[string]string{"name": "d/mid", "name2": "e/leaf"}
			r.Do(&Case{Loaders: []map[string]string{files, {"/leaf": "WRONG-LEAF-ROOT", "/e/leaf": "WRONG-LEAF", "/mid": "WRONG-MID", "/d/leaf": "WRONG-LEAF-D"}}, Main: "/main", Vars: vars, Want: eng.Q(want), Fetch: []string{"/main", "/d/mid", "/d/e/leaf"}, Label: "chain:" + n1 + ">" + n2})
		}
	}
	// three hops through three directories and back to the root: /main -> d/mid -> e/leaf -> ../../a
	for _, n1 := range []string{"include", "include-lazy", "ssi-parsed"} {
		for _, n2 := range []string{"include", "include-lazy", "ssi-parsed", "include-if-exists"} {
			for _, n3 := range []string{"include", "include-lazy", "ssi-parsed", "ssi", "import"} {
				k1, k2, k3 := byName[n1], byName[n2], byName[n3]
				hopSrc := func(k kind, name, varname string) string {
					if k.lazyVar {
						return strings.ReplaceAll(k.src(""), "name", varname)
					}
					return k.src(name)
				}
				rootM := "[root-a]"
				leafR := "LEAF" + k3.out(rootM)
				midR := "MID" + strings.Replace(k2.out("\x00"), "\x00ctxv", leafR, 1)
				want := strings.Replace(k1.out("\x00"), "\x00ctxv", midR, 1)
				files := map[string]string{
					"/main":     hopSrc(k1, "d/mid", "name"),
					"/d/mid":    "MID" + hopSrc(k2, "e/leaf", "name2"),
					"/d/e/leaf": "LEAF" + hopSrc(k3, "../../a", "name3"),
					"/a":        k3.target(rootM),
				}
				vars := map[string]string{"name": "d/mid", "name2": "e/leaf", "name3": "../../a"}
				r.Do(&Case{Loaders: []map[string]string{files, {"/d/a": "WRONG-A-IN-D", "/d/e/a": "WRONG-A-IN-E", "/e/leaf": "WRONG"}}, Main: "/main", Vars: vars, Want: eng.Q(want), Fetch: []string{"/main", "/d/mid", "/d/e/leaf", "/a"}, Label: "chain3:" + n1 + ">" + n2 + ">" + n3})
			}
		}
	}
	// a child in /d extends a base in /, and includes "part" from inside its block: static and lazy must both mean /d/part
	for _, lazy := range []bool{false, true} {
		inc := `{% include "part" %}`
		label := "inherit+include-static"
		if lazy {
			inc = `{% include name %}`
			label = "inherit+include-lazy"
		}
		files := map[string]string{
			"/base":    "B[{% block c %}base{% endblock %}]",
			"/d/child": `{% extends "../base" %}{% block c %}` + inc + `{% endblock %}`,
			"/d/part":  "PART-IN-D",
			"/part":    "PART-IN-ROOT",
		}
		r.Do(&Case{Loaders: []map[string]string{files}, Main: "/d/child", Vars: map[string]string{"name": "part"}, Want: "B[PART-IN-D]", Fetch: []string{"/d/child", "/base", "/d/part"}, Label: label})
	}

	// ---- rooted names: literal == computed ----
	// what an included template sees
	r.Group("include-visibility", "c11.case", "an included template (static and lazy name) sees the includer's variables - the innermost binding of with / set / for / macro parameter over the caller's context over the set's globals - plus the with pairs, and only the pairs when only is given: 25 includer shapes x 2 name forms")
	{
		inc := "[{{ v }}|{{ w }}|{{ x }}]"
		type vis struct{ main, want string }
		progs := []vis{
			{`{% include NAME %}`, "[ctxv|ctxw|globx]"},
			{`{% with v="with-v" %}{% include NAME %}{% endwith %}`, "[with-v|ctxw|globx]"},
			{`{% with x="with-x" %}{% include NAME %}{% endwith %}{% include NAME %}`, "[ctxv|ctxw|with-x][ctxv|ctxw|globx]"},
			{`{% set v = "set-v" %}{% include NAME %}`, "[set-v|ctxw|globx]"},
			{`{% set x = "set-x" %}{% include NAME %}`, "[ctxv|ctxw|set-x]"},
			{`{% for v in "ab" %}{% include NAME %}{% endfor %}`, "[a|ctxw|globx][b|ctxw|globx]"},
			{`{% for x in "ab" %}{% include NAME %}{% endfor %}`, "[ctxv|ctxw|a][ctxv|ctxw|b]"},
			{`{% macro m(v) %}{% include NAME %}{% endmacro %}{{ m("arg-v") }}`, "[arg-v|ctxw|globx]"},
			{`{% include NAME with w="pair-w" %}`, "[ctxv|pair-w|globx]"},
			{`{% with v="with-v" %}{% include NAME with w="pair-w" %}{% endwith %}`, "[with-v|pair-w|globx]"},
			{`{% with v="with-v" %}{% include NAME with v="pair-v" %}{% endwith %}`, "[pair-v|ctxw|globx]"},
			{`{% with v="with-v" %}{% include NAME with v="pair-v" only %}{% endwith %}{{ v }}`, "[pair-v||ONLYX]ctxv"},
			{`{% include NAME with w=v only %}`, "[|ctxv|ONLYX]"},
			{`{% with v="outer" %}{% with v="inner" %}{% include NAME %}{% endwith %}{% include NAME %}{% endwith %}`, "[inner|ctxw|globx][outer|ctxw|globx]"},
			{`{% set v = "set-v" %}{% with v="with-v" %}{% include NAME %}{% endwith %}{% include NAME %}`, "[with-v|ctxw|globx][set-v|ctxw|globx]"},
			{`{% include NAME with v="pair-v" %}{% include NAME %}`, "[pair-v|ctxw|globx][ctxv|ctxw|globx]"},
			// only: the includer's own bindings (with, set, for, macro parameter) are hidden as well
			{`{% with w="with-w" %}{% include NAME with v="pair-v" only %}{% endwith %}`, "[pair-v||ONLYX]"},
			{`{% set w = "set-w" %}{% include NAME with v="pair-v" only %}`, "[pair-v||ONLYX]"},
			{`{% for w in "ab" %}{% include NAME with v=w only %}{% endfor %}`, "[a||ONLYX][b||ONLYX]"},
			{`{% macro m(w) %}{% include NAME with v="pair-v" only %}{% endmacro %}{{ m("arg-w") }}`, "[pair-v||ONLYX]"},
			{`{% with w="with-w" x="with-x" %}{% include NAME with v=w only %}{% endwith %}`, "[with-w||ONLYX]"},
			// bindings of a scope that has ended (also when a parsed ssi ran inside it) are not the includer's variables any more
			{`{% with w="with-w" %}{% ssi "s" parsed %}{% endwith %}{% include NAME %}`, "S[ctxv|ctxw|globx]"},
			{`{% for v in "ab" %}{% ssi "s" parsed %}{% endfor %}{% include NAME %}`, "SS[ctxv|ctxw|globx]"},
			{`{% with q="Q" %}{% include NAME %}{% endwith %}{% include NAME with w=q %}`, "[ctxv|ctxw|globx][ctxv||globx]"},
			{`{% macro m(w) %}{% ssi "s" parsed %}{% endmacro %}{{ m("arg-w") }}{% include NAME %}`, "S[ctxv|ctxw|globx]"},
		}
		for i, p := range progs {
			for _, nameForm := range []string{`"inc"`, `incname`} {
				main := strings.ReplaceAll(p.main, "NAME", nameForm)
				globals := map[string]string{"x": "globx"}
				if strings.Contains(p.main, " only") {
					globals = nil // whether the set's globals count as "the pairs only" is not judged here
				}
				want := strings.ReplaceAll(p.want, "ONLYX", "")
				files := map[string]string{"/main": main, "/inc": inc}
				fetch := []string{"/main", "/inc"}
				if strings.Contains(main, `ssi "s"`) {
					files["/s"] = "S"
					fetch = append(fetch, "/s")
				}
				r.Do(&Case{Loaders: []map[string]string{files}, Main: "/main", Vars: map[string]string{"w": "ctxw", "incname": "inc"}, Globals: globals,
					Want: eng.Q(want), Fetch: fetch, Label: fmt.Sprint("visibility", i)})
			}
		}
	}
	// the same relative name computed at run time in templates of different directories, in one rendering
	r.Group("same-relative-name", "c11.case", "two lazy includes of one rendering that evaluate to the same relative name but are written in templates of different directories (base and child of an inheritance chain; an imported macro and its importer; an included file and its includer): each gets the file next to the template it is written in")
	{
		cases := []struct {
			label string
			files map[string]string
			main  string
			want  string
			fetch []string
		}{
			{"extends", map[string]string{"/base": `B[{% include rel %}]{% block a %}base{% endblock %}`, "/d/main": `{% extends "../base" %}{% block a %}<{% include rel %}>{% endblock %}`, "/part": "root-part", "/d/part": "d-part"},
				"/d/main", "B[root-part]<d-part>", []string{"/base", "/d/main", "/part", "/d/part"}},
			{"extends-child-first", map[string]string{"/base": `{% block a %}base{% endblock %}B[{% include rel %}]`, "/d/main": `{% extends "../base" %}{% block a %}<{% include rel %}>{% endblock %}`, "/part": "root-part", "/d/part": "d-part"},
				"/d/main", "<d-part>B[root-part]", []string{"/base", "/d/main", "/part", "/d/part"}},
			{"import", map[string]string{"/lib/m": `{% macro mac() export %}({% include rel %}){% endmacro %}`, "/main": `{% import "lib/m" mac %}{{ mac() }}[{% include rel %}]{{ mac() }}`, "/part": "root-part", "/lib/part": "lib-part"},
				"/main", "(lib-part)[root-part](lib-part)", []string{"/lib/m", "/main", "/part", "/lib/part"}},
			{"include", map[string]string{"/d/inc": `i({% include rel %})`, "/main": `[{% include rel %}]{% include "d/inc" %}[{% include rel %}]`, "/part": "root-part", "/d/part": "d-part"},
				"/main", "[root-part]i(d-part)[root-part]", []string{"/d/inc", "/main", "/part", "/d/part"}},
			{"loop", map[string]string{"/d/inc": `i({% include rel %})`, "/main": `{% for i in "ab" %}[{% include rel %}]{% include "d/inc" %}{% endfor %}`, "/part": "root-part", "/d/part": "d-part"},
				"/main", "[root-part]i(d-part)[root-part]i(d-part)", []string{"/d/inc", "/main", "/part", "/d/part"}},
		}
		for _, c := range cases {
			r.Do(&Case{Loaders: []map[string]string{c.files}, Main: c.main, Vars: map[string]string{"rel": "part"}, Want: eng.Q(c.want), Fetch: c.fetch, Label: "same-relative-name:" + c.label})
		}
	}
	// several templates of one rendering name the same parent
	r.Group("shared-parent", "c11.case", "two (three) templates pulled into one page by include (static, lazy) or ssi parsed extend the same base, directly or through a common middle template, from the same or different directories: each renders the base with ITS OWN blocks, in both orders")
	{
		pull := map[string]func(n string) string{
			"include":      func(n string) string { return `{% include "` + n + `" %}` },
			"include-lazy": func(n string) string { return `{% include n_` + strings.ReplaceAll(n, "/", "_") + ` %}` },
			"ssi-parsed":   func(n string) string { return `{% ssi "` + n + `" parsed %}` },
		}
		var pn []string
		for k := range pull {
			pn = append(pn, k)
		}
		sort.Strings(pn)
		for _, via := range pn {
			for _, mid := range []bool{false, true} {
				for _, dirs := range []bool{false, true} {
					for _, order := range [][]string{{"c1", "c2"}, {"c2", "c1"}, {"c1", "c2", "c1"}, {"c2", "c3", "c1"}} {
						files := map[string]string{"/base": `B[{% block x %}base{% endblock %}|{% block y %}by{% endblock %}]`}
						parent := "base"
						fetch := []string{"/base", "/page"}
						wantOf := map[string]string{}
						if mid {
							files["/mid"] = `{% extends "base" %}{% block y %}mid{% endblock %}`
							parent = "mid"
							fetch = append(fetch, "/mid")
						}
						vars := map[string]string{}
						var page, want []string
						for _, cn := range []string{"c1", "c2", "c3"} {
							name, up := cn, parent
							if dirs && cn != "c1" {
								name, up = "d"+cn+"/"+cn, "../"+parent
							}
							files["/"+name] = `{% extends "` + up + `" %}{% block x %}` + cn + `{% endblock %}`
							y := "by"
							if mid {
								y = "mid"
							}
							wantOf[cn] = "B[" + cn + "|" + y + "]"
							vars["n_"+strings.ReplaceAll(name, "/", "_")] = name
						}
						used := map[string]bool{}
						for _, cn := range order {
							name := cn
							if dirs && cn != "c1" {
								name = "d" + cn + "/" + cn
							}
							page = append(page, pull[via](name))
							want = append(want, wantOf[cn])
							if !used[name] {
								used[name] = true
								fetch = append(fetch, "/"+name)
							}
						}
						for cn := range wantOf {
							name := cn
							if dirs && cn != "c1" {
								name = "d" + cn + "/" + cn
							}
							if !used[name] {
								delete(files, "/"+name)
							}
						}
						files["/page"] = strings.Join(page, "|")
						r.Do(&Case{Loaders: []map[string]string{files}, Main: "/page", Vars: vars, Want: eng.Q(strings.Join(want, "|")), Fetch: fetch, Label: "shared-parent:" + via})
					}
				}
			}
		}
	}
	r.Group("literal-vs-computed", "c11.case", "a rooted name renders the same written as a literal and computed at run time, from every referrer location")
	for _, ref := range referrers {
		for _, tg := range targets[:3] {
			m := "[T:" + tg + "]"
			r.Do(&Case{Loaders: []map[string]string{{ref: `{% include "` + tg + `" %}|{% include name %}|{% include pre + post %}`, tg: m}}, Main: ref, Vars: map[string]string{"name": tg, "pre": tg[:2], "post": tg[2:]}, Want: eng.Q(m + "|" + m + "|" + m), Fetch: []string{ref, tg}, Label: "literal-vs-computed"})
		}
	}

	// ---- canary: a real file that no loader serves ----
	r.Group("canary", "c11.case", "a file exists on the real file system under a name that is a valid template name; no loader serves it: every reference kind must fail (or yield nothing with if_exists) and its content must never appear")
	for _, k := range ks {
		vars := map[string]string{}
		if k.lazyVar {
			vars["name"] = "{{CANARY}}"
		}
		c := &Case{Loaders: []map[string]string{{"/main": k.src("{{CANARY}}")}}, Main: "/main", Vars: vars, Fetch: []string{"/main"}, Label: k.name + "-canary", Canary: true}
		if strings.Contains(k.name, "if-exists") {
			c.Want = "<>"
		} else {
			c.WantErr = true
		}
		r.Do(c)
	}
	runReal(r)
}

func init() {
	eng.RegisterCase("c11.case", func() eng.Case { return &Case{} })
	eng.Register(&eng.Check{
		ID:    "C11",
		Title: "Templates are composed only through the set's loaders, by the names written",
		Rule:  "bounded-exhaustive over configurations: every reference kind x referrer directory x target x every name form x loader configuration; missing names; failing files under if_exists; all two-hop chains over 8 kinds; inheritance+include; literal vs computed rooted names; a canary file on the real file system. Recording in-memory loaders log every Abs/Get: the set of fetched paths must equal the closure of referenced names, the first loader that has a name must serve it and later loaders must not be asked, the output must equal the expectation computed from the generator's knowledge of the tree, and the canary text must never appear. All cases non-trivial.",
		Assumptions: []string{
			"harness loaders implement Abs(base, name) = cleaned name if rooted, else dir(base)/name cleaned (DESIGN.md Appendix A.8)",
		},
		Run: run,
	})
}
