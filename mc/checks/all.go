// Package checks links every property's check into the binary.
package checks

import (
	_ "verifmc/checks/c01"
	_ "verifmc/checks/c02"
	_ "verifmc/checks/c03"
	_ "verifmc/checks/c04"
	_ "verifmc/checks/c06"
	_ "verifmc/checks/c07"
	_ "verifmc/checks/c08"
	_ "verifmc/checks/c09"
	_ "verifmc/checks/c10"
	_ "verifmc/checks/c11"
	_ "verifmc/checks/c12"
	_ "verifmc/checks/c13"
	_ "verifmc/checks/c14"
	_ "verifmc/checks/c15"
	_ "verifmc/checks/c16"
	_ "verifmc/checks/c17"
	_ "verifmc/checks/c18"
	_ "verifmc/checks/c19"
)
