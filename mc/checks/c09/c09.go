// Package c09: branching and looping tags follow their reference semantics.
package c09

import (
	"fmt"
	"strings"

	"github.com/flosch/pongo2/v6"

	"verifmc/internal/px"

	"verifmc/internal/eng"
	"verifmc/internal/enum"
	"verifmc/internal/prog"
	. "verifmc/internal/ref"
)

func v(name string, steps ...string) Expr { return Var{Name: name, Steps: steps} }
func lit(i int) Expr                      { return Lit{V: IntV(i)} }
func lits(s string) Expr                  { return Lit{V: StrV(s)} }
func T(s string) Node                     { return Text{S: s} }
func O(e Expr) Node                       { return Out{E: e} }

// probe prints every forloop field and the loop variable(s)
func probe(vars ...string) []Node {
	ns := []Node{T("["), O(v("forloop", "Counter")), O(v("forloop", "Counter0")), T("/"), O(v("forloop", "Revcounter")), O(v("forloop", "Revcounter0")), O(v("forloop", "First")), O(v("forloop", "Last")), T(":")}
	for i, x := range vars {
		if i > 0 {
			ns = append(ns, T("="))
		}
		ns = append(ns, O(v(x)))
	}
	return append(ns, T("]"))
}

func intSeqs(maxLen int) []V {
	var out []V
	enum.Seqs(2, maxLen, func(idx []int) bool {
		l := make([]V, len(idx))
		for i, x := range idx {
			l[i] = IntV(x + 1)
		}
		out = append(out, ListV(l...))
		return true
	})
	return out
}

func dataValues(q bool) []V {
	n := 6
	if q {
		n = 4
	}
	vals := intSeqs(n)
	vals = append(vals,
		ListV(IntV(3), IntV(1), IntV(2)), ListV(IntV(10), IntV(9), IntV(100)),
		ListV(IntV(9007199254740993), IntV(9007199254740992), IntV(9007199254740994), IntV(9007199254740991)), // neighbours beyond 2^53
		ListV(StrV("b"), StrV("a"), StrV("c")), ListV(StrV("b")),
		StrV(""), StrV("a"), StrV("ab"), StrV("bca"), StrV("é€x"),
		ListAnyV(IntV(3), IntV(1), IntV(2)), ListAnyV(StrV("b"), StrV("a"), StrV("c")), ListAnyV(IntV(10), IntV(9)),
		ListV(FloatV(10.5), FloatV(2.5), FloatV(-1)), ListV(FloatV(0.25), FloatV(0.125)), ListV(FloatV(3), FloatV(2), FloatV(1), FloatV(2)),
		MapV(), MapV("a", IntV(1)), MapV("b", IntV(2), "a", IntV(1)), MapV("c", IntV(3), "a", IntV(1), "b", IntV(2)),
		NilV(), IntV(0), IntV(5), BoolV(true),
	)
	return vals
}

// MalformedCase: a control-flow tag with its intermediate tags in an order that has no meaning is refused when the
// template is compiled (otherwise conditions and branches no longer belong together).
type MalformedCase struct {
	Src string `json:"src"`
}

func (c *MalformedCase) ID() string { return "malformed: " + c.Src }

func (c *MalformedCase) Exec(t *eng.T) {
	t.Nontrivial()
	o := px.Render(nil, c.Src, pongo2.Context{"a": false, "b": false, "c": true, "l": []int{1}})
	t.Outcome(o.Kind())
	if o.Panic != "" {
		t.Fail("malformed:panic", "%s panics: %s", c.Src, o.PanicMsg)
		return
	}
	if !o.Compile || o.Err == "" {
		t.Fail("malformed:accepted", "%s compiles (and renders %s); branches after the else branch, or a second else branch, have no meaning", c.Src, o)
	}
}

// ComplCase: ifequal and ifnotequal take opposite branches for the same two operands, whatever their Go types.
type ComplCase struct {
	A int `json:"a"` // indexes into complOperands
	B int `json:"b"`
}

type complOp struct {
	name string
	v    any
	// fam/key: operands of the same family (num = integer kinds, float, str, bool; an integer against a float is left open) are equal exactly if their keys are equal; operands
	// of different families (or of none) are only required to be judged complementarily
	fam, key string
}

// shout is a named string type whose printed form differs from its text
type shout string

func (s shout) String() string { return strings.ToUpper(string(s)) }

type plainName string

func complOperands() []complOp {
	type myInt int
	return []complOp{{"int2", 2, "num", "2"}, {"int3", 3, "num", "3"}, {"int64_2", int64(2), "num", "2"}, {"uint2", uint(2), "num", "2"}, {"int8_3", int8(3), "num", "3"}, {"uint64_3", uint64(3), "num", "3"}, {"myInt2", myInt(2), "num", "2"},
		{"str2", "2", "str", "2"}, {"strA", "a", "str", "a"}, {"float2", 2.0, "float", "2"}, {"float32_2", float32(2), "float", "2"}, {"float2_5", 2.5, "float", "2.5"}, {"nil", nil, "", ""}, {"true", true, "bool", "t"}, {"false", false, "bool", "f"}, {"empty", "", "str", ""}, {"zero", 0, "num", "0"}, {"list12", []int{1, 2}, "", ""},
		{"shout_go", shout("go"), "str", "go"}, {"shout_GO", shout("GO"), "str", "GO"}, {"str_go", "go", "str", "go"}, {"str_GO", "GO", "str", "GO"}, {"named_go", plainName("go"), "str", "go"}, {"float0_5", 0.5, "float", "0.5"}, {"float0", 0.0, "float", "0"},
		{"big_a", int64(9007199254740993), "num", "9007199254740993"}, {"big_b", int64(9007199254740992), "num", "9007199254740992"}, {"ubig_a", uint64(9007199254740993), "num", "9007199254740993"}, {"big_b_int", 9007199254740992, "num", "9007199254740992"}}
}

func (c *ComplCase) ID() string {
	ops := complOperands()
	return fmt.Sprintf("ifequal/ifnotequal %s %s", ops[c.A].name, ops[c.B].name)
}

func (c *ComplCase) Exec(t *eng.T) {
	t.Nontrivial()
	ops := complOperands()
	src := "{% ifequal a b %}E{% else %}e{% endifequal %}{% ifnotequal a b %}N{% else %}n{% endifnotequal %}|{% ifequal b a %}E{% else %}e{% endifequal %}{% ifnotequal b a %}N{% else %}n{% endifnotequal %}"
	a, b := ops[c.A], ops[c.B]
	if a.fam != "" && a.fam == b.fam {
		// same family: equality is defined, and ifchanged over the two values agrees with it
		want := "eN"
		chg := "CC"
		if a.key == b.key {
			want, chg = "En", "Cs"
		}
		o := px.Render(nil, src+"|{% for x in pair %}{% ifchanged x %}C{% else %}s{% endifchanged %}{% endfor %}", pongo2.Context{"a": a.v, "b": b.v, "pair": []any{a.v, b.v}})
		if !o.Failed() && o.S != want+"|"+want+"|"+chg {
			t.Fail("ifequal:same-family", "%s: two %s operands with the %s render %q, expected %q", c.ID(), a.fam, map[bool]string{true: "same value", false: "different values"}[a.key == b.key], o.S, want+"|"+want+"|"+chg)
			return
		}
	}
	o := px.Render(nil, src, pongo2.Context{"a": ops[c.A].v, "b": ops[c.B].v})
	t.Outcome(o.String())
	if o.Panic != "" {
		t.Fail("ifequal:panic", "%s panics: %s", c.ID(), o.PanicMsg)
		return
	}
	if o.Failed() {
		return // comparing these kinds may be an error; then both tags fail alike (judged by the same-kind families)
	}
	for _, half := range strings.Split(o.S, "|") {
		if half != "En" && half != "eN" {
			t.Fail("ifequal:not-complementary", "%s: the two tags render %q for the same operands (exactly one of them must take its first branch)", c.ID(), o.S)
			return
		}
	}
}

func run(r *eng.Runner) {
	q := r.Quick()
	emit := func(main []Node, ctx map[string]V, key, label string) {
		c, ok := prog.BuildTwice(map[string][]Node{"/main": main}, ctx, prog.Vary(ctx), nil, key, label, true)
		if !ok {
			r.AddExtra("programs_outside_fragment", 1)
			return
		}
		r.Do(c)
	}
	data := dataValues(q)

	// ---- P1: one loop, every option combination, every data value ----
	r.Group("for-options", "prog.case", fmt.Sprintf("for x in D / for k,v in D with every subset of {empty, reversed, sorted} over %d data values (all int sequences up to the bound, strings incl. multi-byte, maps of 0..3 keys, nil, scalars), body printing every forloop field", len(data)))
	for _, d := range data {
		for mask := 0; mask < 8; mask++ {
			for kv := 0; kv < 2; kv++ {
				f := For{Key: "x", Over: v("d"), HasEmpty: mask&1 != 0, Reversed: mask&2 != 0, Sorted: mask&4 != 0, Empty: []Node{T("EMPTY")}}
				f.Body = probe("x")
				if kv == 1 {
					if d.K != KMap {
						continue
					}
					f.Val = "y"
					f.Body = probe("x", "y")
				}
				emit([]Node{T("<"), f, T(">")}, map[string]V{"d": d}, "for", "for-options")
			}
		}
	}

	// ---- P2: nested loops with Parentloop ----
	seqs := intSeqs(3)
	if q {
		seqs = intSeqs(2)
	}
	r.Group("for-nested", "prog.case", "two nested loops over all pairs of int sequences, inner body printing forloop and forloop.Parentloop fields, inner options reversed/sorted/empty")
	for _, a := range seqs {
		for _, b := range seqs {
			for mask := 0; mask < 8; mask++ {
				inner := For{Key: "y", Over: v("b"), HasEmpty: mask&1 != 0, Reversed: mask&2 != 0, Sorted: mask&4 != 0, Empty: []Node{T("E"), O(v("x"))},
					Body: []Node{T("("), O(v("forloop", "Parentloop", "Counter")), O(v("forloop", "Parentloop", "Revcounter0")), O(v("forloop", "Parentloop", "First")), O(v("forloop", "Parentloop", "Last")), T("."), O(v("forloop", "Counter")), O(v("forloop", "Last")), T(":"), O(v("x")), O(v("y")), T(")")}}
				outer := For{Key: "x", Over: v("a"), Body: []Node{T("<"), O(v("forloop", "Counter")), inner, O(v("forloop", "Counter")), O(v("forloop", "Last")), T(">")}}
				emit([]Node{outer, T("|"), O(v("forloop")), O(v("x"))}, map[string]V{"a": a, "b": b}, "for-nested", "for-nested")
			}
		}
	}
	// the sequence of an inner loop is an expression of the ENCLOSING scope (it may use the outer forloop), and
	// loops over lists written in the template
	r.Group("for-sequence-expr", "prog.case", "inner loops whose sequence is a list literal built from the outer loop's forloop fields and variable; sorted / reversed loops over list literals of numbers and strings")
	for _, a := range seqs {
		for mask := 0; mask < 4; mask++ {
			inner := For{Key: "y", Over: List{Items: []Expr{v("forloop", "Counter"), v("x"), v("forloop", "Last")}}, Reversed: mask&1 != 0, HasEmpty: mask&2 != 0, Empty: []Node{T("E")},
				Body: []Node{T("("), O(v("y")), T("/"), O(v("forloop", "Counter")), O(v("forloop", "Parentloop", "Counter")), T(")")}}
			emit([]Node{For{Key: "x", Over: v("a"), Body: []Node{T("<"), inner, T(">")}}}, map[string]V{"a": a}, "for-nested", "for-sequence-expr")
		}
	}
	for _, lst := range [][]Expr{{lit(10), lit(9), lit(2)}, {lits("b"), lits("a"), lits("c")}, {lit(3), lit(3), lit(1)}, {Lit{V: FloatV(2.5)}, Lit{V: FloatV(10.5)}, Lit{V: FloatV(0.25)}}, {v("n10"), lit(9), v("n2")}} {
		for mask := 0; mask < 4; mask++ {
			f := For{Key: "x", Over: List{Items: lst}, Sorted: mask&1 != 0, Reversed: mask&2 != 0, Body: []Node{O(v("x")), T(" ")}}
			emit([]Node{f}, map[string]V{"n10": IntV(10), "n2": IntV(2)}, "for", "for-sequence-expr")
		}
	}
	if !q {
		r.Group("for-nested3", "prog.case", "three nested loops, Parentloop.Parentloop")
		for _, a := range intSeqs(2) {
			for _, b := range intSeqs(2) {
				for _, c := range intSeqs(2) {
					l3 := For{Key: "z", Over: v("c"), Body: []Node{O(v("forloop", "Parentloop", "Parentloop", "Counter")), O(v("forloop", "Parentloop", "Counter")), O(v("forloop", "Counter")), O(v("forloop", "Parentloop", "Parentloop", "Last")), T(",")}}
					l2 := For{Key: "y", Over: v("b"), Body: []Node{l3, T(";")}}
					l1 := For{Key: "x", Over: v("a"), Body: []Node{l2, T("/")}}
					emit([]Node{l1}, map[string]V{"a": a, "b": b, "c": c}, "for-nested", "for-nested3")
				}
			}
		}
	}

	// loops whose `empty` branch is taken, nested in and around other loops: the Parentloop chain goes through the empty loop
	r.Group("for-empty-chain", "prog.case", "a loop with nothing to iterate inside a loop: its empty branch sees the enclosing loop as forloop.Parentloop; a loop nested in that empty branch sees it as forloop.Parentloop.Parentloop")
	for _, a := range seqs {
		for _, b := range seqs {
			for _, nothing := range []V{ListV(), NilV(), StrV(""), IntV(3)} {
				deep := For{Key: "z", Over: v("b"), Body: []Node{T("("), O(v("forloop", "Counter")), T("."), O(v("forloop", "Parentloop", "Parentloop", "Counter")), O(v("forloop", "Parentloop", "Parentloop", "Last")), T(")")}}
				inner := For{Key: "y", Over: v("none"), Body: []Node{T("never")}, HasEmpty: true, Empty: []Node{T("E"), O(v("forloop", "Parentloop", "Counter")), O(v("forloop", "Parentloop", "Revcounter0")), deep}}
				outer := For{Key: "x", Over: v("a"), Body: []Node{T("<"), inner, T(">")}}
				emit([]Node{outer}, map[string]V{"a": a, "b": b, "none": nothing}, "for-empty-chain", "for-empty-chain")
			}
		}
	}

	// ---- P6: if / elif / else ----
	r.Group("if-chains", "prog.case", "if with 0..2 elif and optional else, conditions drawn from 20 atoms covering the truthiness table (also fractions between -1 and 1), alone and inside a loop")
	atoms := []Expr{v("yes"), v("no"), v("zero"), v("five"), v("es"), v("s"), v("el"), v("l"), v("em"), v("m"), v("nilv"), v("missing"), v("half"), v("fzero"), v("negq"), Not{E: v("no")}, Bin{Op: "==", L: v("five"), R: lit(5)},
		// a right operand that is only valid under the guard on its left
		Bin{Op: "and", L: v("zero"), R: Bin{Op: ">", L: Bin{Op: "/", L: lit(12), R: v("zero")}, R: lit(3)}}, Bin{Op: "or", L: v("five"), R: Bin{Op: ">", L: Bin{Op: "/", L: lit(12), R: v("zero")}, R: lit(3)}}, Bin{Op: ">", L: v("five"), R: lit(7)}, Bin{Op: "and", L: v("yes"), R: v("es")}, Bin{Op: "or", L: v("zero"), R: v("s")}}
	ctxIf := map[string]V{"yes": BoolV(true), "no": BoolV(false), "zero": IntV(0), "five": IntV(5), "es": StrV(""), "s": StrV("q"), "el": ListV(), "l": ListV(IntV(1)), "em": MapV(), "m": MapV("k", IntV(1)), "nilv": NilV(), "xs": ListV(IntV(1), IntV(2), IntV(3)), "half": FloatV(0.5), "fzero": FloatV(0), "negq": FloatV(-0.25)}
	for elifs := 0; elifs <= 2; elifs++ {
		for hasElse := 0; hasElse < 2; hasElse++ {
			enum.Tuples(len(atoms), 1+elifs, func(idx []int) bool {
				n := If{HasElse: hasElse == 1, Else: []Node{T("E")}}
				for i, a := range idx {
					n.Conds = append(n.Conds, atoms[a])
					n.Bodies = append(n.Bodies, []Node{T(fmt.Sprintf("B%d", i))})
				}
				emit([]Node{T("<"), n, T(">")}, ctxIf, "if", "if-chain")
				return !r.Stopped()
			})
		}
	}
	// if on loop position inside a loop
	for _, d := range seqs {
		for elifs := 0; elifs <= 1; elifs++ {
			for hasElse := 0; hasElse < 2; hasElse++ {
				conds := []Expr{Bin{Op: "==", L: v("x"), R: lit(1)}, v("forloop", "Last"), v("forloop", "First"), Bin{Op: ">", L: v("forloop", "Counter"), R: lit(1)}, Bin{Op: "==", L: v("forloop", "Revcounter0"), R: lit(1)}}
				enum.Tuples(len(conds), 1+elifs, func(idx []int) bool {
					n := If{HasElse: hasElse == 1, Else: []Node{T("e")}}
					for i, a := range idx {
						n.Conds = append(n.Conds, conds[a])
						n.Bodies = append(n.Bodies, []Node{T(fmt.Sprintf("%c", 'a'+i)), O(v("x"))})
					}
					emit([]Node{For{Key: "x", Over: v("d"), Body: []Node{n, T(",")}, HasEmpty: true, Empty: []Node{T("none")}}}, map[string]V{"d": d}, "if-in-for", "if-in-for")
					return true
				})
			}
		}
	}
	// for inside if / else
	for _, d := range data {
		n := If{Conds: []Expr{v("d")}, Bodies: [][]Node{{For{Key: "x", Over: v("d"), Body: []Node{O(v("x")), O(v("forloop", "Last"))}}}}, HasElse: true, Else: []Node{T("falsy")}}
		emit([]Node{n}, map[string]V{"d": d}, "for-in-if", "for-in-if")
	}

	r.Group("if-malformed", "c09.malformed", "if / ifequal / ifnotequal / ifchanged / for with a second else (empty) branch or an elif after the else branch: compile errors")
	for _, src := range []string{
		"{% if a %}1{% else %}2{% elif c %}3{% endif %}", "{% if a %}1{% else %}2{% else %}3{% endif %}", "{% if a %}1{% elif b %}2{% else %}3{% elif c %}4{% endif %}", "{% if a %}1{% else %}2{% elif c %}3{% else %}4{% endif %}",
		"{% ifequal a b %}1{% else %}2{% else %}3{% endifequal %}", "{% ifnotequal a b %}1{% else %}2{% else %}3{% endifnotequal %}", "{% for x in l %}{% ifchanged x %}1{% else %}2{% else %}3{% endifchanged %}{% endfor %}",
		"{% for x in l %}1{% empty %}2{% empty %}3{% endfor %}",
	} {
		r.Do(&MalformedCase{Src: src})
	}

	// ---- ifequal / ifnotequal ----
	r.Group("ifequal", "prog.case", "ifequal and ifnotequal over all pairs of same-kind operands (ints, strings, bools), with and without else; the two must be complementary")
	ops := []Expr{lit(1), lit(2), v("one"), v("two"), lits("a"), lits("b"), v("sa"), v("yes"), v("no"), Lit{V: BoolV(true)}}
	ctxEq := map[string]V{"one": IntV(1), "two": IntV(2), "sa": StrV("a"), "yes": BoolV(true), "no": BoolV(false)}
	for _, a := range ops {
		for _, b := range ops {
			for hasElse := 0; hasElse < 2; hasElse++ {
				eq := IfEq{A: a, B: b, Then: []Node{T("same")}, HasElse: hasElse == 1, Else: []Node{T("other")}}
				ne := IfEq{Neg: true, A: a, B: b, Then: []Node{T("differ")}, HasElse: hasElse == 1, Else: []Node{T("equal")}}
				emit([]Node{eq, T("|"), ne}, ctxEq, "ifequal", "ifequal")
			}
		}
	}
	for _, d := range seqs {
		eq := IfEq{A: v("x"), B: lit(1), Then: []Node{T("1")}, HasElse: true, Else: []Node{T("-")}}
		emit([]Node{For{Key: "x", Over: v("d"), Body: []Node{eq}}}, map[string]V{"d": d}, "ifequal", "ifequal-in-for")
	}

	// ---- firstof ----
	r.Group("firstof", "prog.case", "firstof over all argument lists of length 0..3 drawn from 13 atoms (falsy and truthy of every kind, fractions between -1 and 1)")
	fatoms := []Expr{v("nilv"), v("zero"), v("es"), v("no"), v("five"), v("s"), v("yes"), lits("lit"), lit(0), v("missing"), v("half"), v("fzero"), v("negq")}
	enum.Seqs(len(fatoms), 3, func(idx []int) bool {
		f := FirstOf{}
		for _, i := range idx {
			f.Args = append(f.Args, fatoms[i])
		}
		if len(f.Args) == 0 {
			return true
		}
		emit([]Node{T("<"), f, T(">")}, ctxIf, "firstof", "firstof")
		return !r.Stopped()
	})

	// ---- cycle ----
	r.Group("cycle", "prog.case", "cycle with 1..3 arguments in the forms plain / as / as silent (+ printing the name, + {% cycle name %}) inside loops over all int sequences; two cycles in one loop; a cycle in a nested loop")
	cseqs := intSeqs(6)
	if q {
		cseqs = intSeqs(4)
	}
	long := ListV(IntV(1), IntV(2), IntV(1), IntV(1), IntV(2), IntV(2), IntV(1), IntV(2), IntV(1), IntV(1))
	cseqs = append(cseqs, long)
	args := [][]Expr{{lits("a")}, {lits("a"), lits("b")}, {lits("a"), v("five"), lits("c")}, {v("x"), lits("-")}}
	for _, d := range cseqs {
		for _, a := range args {
			for form := 0; form < 6; form++ {
				var body []Node
				switch form {
				case 0:
					body = []Node{&Cycle{Args: a}}
				case 1:
					body = []Node{&Cycle{Args: a, As: "c"}, T("="), O(v("c"))}
				case 2:
					body = []Node{&Cycle{Args: a, As: "c", Silent: true}, T("="), O(v("c"))}
				case 3:
					body = []Node{&Cycle{Args: a, As: "c"}, T("+"), CycleRef{Name: "c"}, T("="), O(v("c"))}
				case 4:
					body = []Node{&Cycle{Args: a, As: "c", Silent: true}, T("+"), CycleRef{Name: "c"}, T("="), O(v("c"))}
				case 5:
					body = []Node{&Cycle{Args: a}, T("&"), &Cycle{Args: []Expr{lits("1"), lits("2"), lits("3")}}}
				}
				body = append(body, T(","))
				emit([]Node{For{Key: "x", Over: v("d"), Body: body}}, map[string]V{"d": d, "five": IntV(5)}, "cycle", "cycle-in-for")
			}
		}
	}
	for _, a := range seqs {
		for _, b := range seqs {
			inner := For{Key: "y", Over: v("b"), Body: []Node{&Cycle{Args: []Expr{lits("p"), lits("q"), lits("r")}}}}
			emit([]Node{For{Key: "x", Over: v("a"), Body: []Node{inner, T("/"), &Cycle{Args: []Expr{lits("A"), lits("B")}}, T(" ")}}}, map[string]V{"a": a, "b": b}, "cycle", "cycle-nested")
		}
	}
	// top-level sequence of cycle tags
	emit([]Node{&Cycle{Args: []Expr{lits("a"), lits("b")}, As: "c"}, CycleRef{Name: "c"}, CycleRef{Name: "c"}, O(v("c")), &Cycle{Args: []Expr{lits("x"), lits("y")}, As: "d", Silent: true}, O(v("d")), CycleRef{Name: "d"}, O(v("d"))}, nil, "cycle", "cycle-toplevel")

	r.Group("ifequal-complement", "c09.compl", "ifequal and ifnotequal on every ordered pair of 25 operands of different Go kinds (int, int64, uint, int8, uint64, a named int, strings, named strings with and without a String method, float64, float32, nil, bools, a list): exactly one of the two takes its first branch; two integers / two floats / two texts / two bools are equal exactly if their values are, and ifchanged over the pair agrees")
	for a := range complOperands() {
		for b := range complOperands() {
			r.Do(&ComplCase{A: a, B: b})
		}
	}

	// ---- ifchanged ----
	r.Group("ifchanged", "prog.case", "ifchanged in content form and in watched form (1..2 watched values, with and without else) inside loops over all int sequences; nested loops are judged only where 'state per tag' and 'state per enclosing loop' agree")
	iseqs := intSeqs(6)
	if q {
		iseqs = intSeqs(5)
	}
	iseqs = append(iseqs, long)
	iseqs = append(iseqs, ListAnyV(NilV(), NilV(), IntV(1), IntV(1), NilV()), ListAnyV(IntV(1), NilV(), NilV(), StrV(""), StrV("")))
	for _, d := range iseqs {
		for form := 0; form < 8; form++ {
			var n Node
			switch form {
			case 6: // the compared content is empty in some iterations
				n = &IfChanged{Then: []Node{If{Conds: []Expr{Bin{Op: ">", L: v("x"), R: lit(1)}}, Bodies: [][]Node{{T("<"), O(v("x")), T(">")}}}}}
			case 7:
				n = &IfChanged{Then: []Node{If{Conds: []Expr{Bin{Op: ">", L: v("x"), R: lit(1)}}, Bodies: [][]Node{{T("b")}}}}, HasElse: true, Else: []Node{T("s")}}
			case 0:
				n = &IfChanged{Then: []Node{O(v("x"))}}
			case 1:
				n = &IfChanged{Watch: []Expr{v("x")}, Then: []Node{T("C"), O(v("x"))}}
			case 2:
				n = &IfChanged{Watch: []Expr{v("x")}, Then: []Node{T("C")}, HasElse: true, Else: []Node{T("s")}}
			case 3:
				n = &IfChanged{Watch: []Expr{v("x"), v("forloop", "First")}, Then: []Node{T("C")}, HasElse: true, Else: []Node{T("s")}}
			case 4:
				n = &IfChanged{Then: []Node{T("k")}}
			case 5:
				n = &IfChanged{Watch: []Expr{Bin{Op: ">", L: v("x"), R: lit(1)}}, Then: []Node{T("C")}, HasElse: true, Else: []Node{T("s")}}
			}
			emit([]Node{For{Key: "x", Over: v("d"), Body: []Node{n, T(",")}}}, map[string]V{"d": d}, "ifchanged", "ifchanged-in-for")
		}
	}
	for _, a := range seqs {
		for _, b := range seqs {
			inner := For{Key: "y", Over: v("b"), Body: []Node{&IfChanged{Watch: []Expr{v("y")}, Then: []Node{T("C")}, HasElse: true, Else: []Node{T("s")}}}}
			emit([]Node{For{Key: "x", Over: v("a"), Body: []Node{&IfChanged{Watch: []Expr{v("x")}, Then: []Node{T("<")}, HasElse: true, Else: []Node{T("(")}}, inner, T(">")}}}, map[string]V{"a": a, "b": b}, "ifchanged", "ifchanged-nested")
		}
	}

	// ---- a cycle value is a value: bound from a field of the loop record in the first pass, it stays what it was ----
	r.Group("cycle-value-detached", "prog.case", "cycle ARG as c silent executed in the first pass only, ARG a field of the forloop record or the loop variable, c printed in every pass")
	for _, d := range intSeqs(3) {
		for _, arg := range []Expr{v("forloop", "Counter"), v("forloop", "Revcounter"), v("forloop", "Last"), v("x")} {
			body := []Node{If{Conds: []Expr{v("forloop", "First")}, Bodies: [][]Node{{&Cycle{Args: []Expr{arg}, As: "c", Silent: true}}}}, O(v("c")), T(",")}
			emit([]Node{For{Key: "x", Over: v("d"), Body: body}}, map[string]V{"d": d}, "cycle-detached", "cycle-value-detached")
		}
	}

	// ---- the same loop tag active several times at once ----
	r.Group("for-in-recursive-macro", "prog.case", "a macro whose body holds a loop and calls itself from inside that loop (depths 0..3, over all int sequences of length <= 3): every activation of the loop has its own forloop record, before and after the inner call")
	for _, d := range intSeqs(3) {
		for depth := 0; depth <= 3; depth++ {
			body := []Node{For{Key: "x", Over: v("d"), Body: []Node{O(v("forloop", "Counter")), T("<"), If{Conds: []Expr{Bin{Op: ">", L: v("n"), R: lit(0)}}, Bodies: [][]Node{{O(Call{Name: "tree", Args: []Expr{Bin{Op: "-", L: v("n"), R: lit(1)}}})}}},
				T(">"), O(v("forloop", "Counter")), T("/"), O(v("forloop", "Revcounter")), O(v("forloop", "First")), O(v("forloop", "Last")), T(";")}, HasEmpty: true, Empty: []Node{T("e")}}}
			main := []Node{Macro{Name: "tree", Params: []Param{{Name: "n"}}, Body: body}, O(Call{Name: "tree", Args: []Expr{lit(depth)}})}
			emit(main, map[string]V{"d": d}, "for-recursive", "for-in-recursive-macro")
		}
	}

	// ---- depth 3 representatives ----
	r.Group("depth3", "prog.case", "for > if > for and for > for > if/cycle/ifchanged representatives over all pairs of int sequences")
	for _, a := range seqs {
		for _, b := range seqs {
			mkIn := func() For {
				return For{Key: "y", Over: v("b"), Reversed: true, Body: []Node{
					If{Conds: []Expr{Bin{Op: "==", L: v("x"), R: v("y")}, v("forloop", "Last")}, Bodies: [][]Node{{T("=")}, {T("L")}}, HasElse: true, Else: []Node{O(v("forloop", "Parentloop", "Counter0"))}},
					&Cycle{Args: []Expr{lits("o"), lits("e")}}}}
			}
			mid := If{Conds: []Expr{v("forloop", "First")}, Bodies: [][]Node{{T("F"), mkIn()}}, HasElse: true, Else: []Node{mkIn(), T("N")}}
			emit([]Node{For{Key: "x", Over: v("a"), Sorted: true, Body: []Node{mid, T(";")}, HasEmpty: true, Empty: []Node{T("0")}}}, map[string]V{"a": a, "b": b}, "depth3", "depth3")
		}
	}
}

func init() {
	eng.RegisterCase("c09.compl", func() eng.Case { return &ComplCase{} })
	eng.RegisterCase("c09.malformed", func() eng.Case { return &MalformedCase{} })
	eng.Register(&eng.Check{
		ID:    "C09",
		Title: "Branching and looping tags follow their reference semantics",
		Rule: "bounded-exhaustive families of generated programs (every option subset of for over every data value up to the bound; all if/elif/else chains over atoms covering the truthiness table; ifequal/ifnotequal over all same-kind operand pairs; firstof over all argument lists; cycle and ifchanged in every form inside loops over all int sequences; nested loops with Parentloop) rendered by the real engine on a fresh compile and compared with the reference interpreter of the generated tree. " +
			"Every executed case is non-trivial; programs whose meaning the property leaves open (printing of collections, iteration order of unsorted multi-key maps, ifchanged in nested loops where per-tag and per-loop memory differ) are counted in programs_outside_fragment. Deduplicated by source+context.",
		Assumptions: []string{
			"reference semantics of DESIGN.md Appendix A.1/A.4; each render on a fresh compile (state across renders is C04)",
			"the content of forloop inside `empty` is not judged",
		},
		Run: run,
	})
}
