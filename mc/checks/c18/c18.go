// Package c18: built-in data filters match their Django/Python reference semantics.
package c18

import (
	"fmt"
	"math"
	"strconv"
	"strings"
	"sync"
	"time"
	"unicode"
	"unicode/utf8"

	"github.com/flosch/pongo2/v6"

	"verifmc/internal/eng"
	"verifmc/internal/enum"
	"verifmc/internal/px"
	"verifmc/internal/univ"
)

type Case struct {
	Filter   string `json:"filter"`
	In       univ.M `json:"in"`
	Param    univ.M `json:"param"`
	HasParam bool   `json:"has_param"`
}

func (c *Case) ID() string {
	if c.HasParam {
		return fmt.Sprintf("%s|%s:%s", c.In, c.Filter, c.Param)
	}
	return fmt.Sprintf("%s|%s", c.In, c.Filter)
}

// expectation for one case
type exp struct {
	skip  bool
	exact *string  // exact printed form
	list  []string // expected elements (printed), when isList
	isLst bool
	pred  func(string) string // returns "" if ok, else what is wrong
	key   string              // sub-key for the violation
}

func exact(s string) exp { return exp{exact: &s} }
func skip() exp          { return exp{skip: true} }

var (
	tplMu    sync.Mutex
	tplCache = map[string]*pongo2.Template{}
)

func tplFor(src string) *pongo2.Template {
	tplMu.Lock()
	defer tplMu.Unlock()
	if t, ok := tplCache[src]; ok {
		return t
	}
	set, _ := px.NewSet(nil)
	t, err := set.FromString(src)
	if err != nil {
		panic("c18: cannot compile route template " + src + ": " + err.Error())
	}
	tplCache[src] = t
	return t
}

// ---------- printing of model values the way {{ }} prints them ----------

func printed(m univ.M) string {
	switch m.K {
	case "nil":
		return ""
	case "str":
		return m.S
	case "int":
		return strconv.FormatInt(m.I, 10)
	case "float", "float32":
		return fmt.Sprintf("%f", m.F)
	case "uint", "uint8", "uint16", "uint32", "uint64":
		return strconv.FormatUint(m.U, 10)
	case "int8", "int16", "int32", "int64":
		return strconv.FormatInt(m.I, 10)
	case "bool":
		if m.B {
			return "True"
		}
		return "False"
	}
	return "?"
}

func truthy(m univ.M) bool {
	switch m.K {
	case "nil":
		return false
	case "str":
		return m.S != ""
	case "int":
		return m.I != 0
	case "float", "float32":
		return m.F != 0
	case "uint", "uint8", "uint16", "uint32", "uint64":
		return m.U != 0
	case "int8", "int16", "int32", "int64":
		return m.I != 0
	case "bool":
		return m.B
	case "ints", "strs", "slice", "array", "parray", "map":
		return len(m.L) > 0
	}
	return false
}

func isSeq(m univ.M) bool {
	return m.K == "ints" || m.K == "strs" || m.K == "slice" || m.K == "array" || m.K == "parray"
}

// elements of a sequence or string, printed
func elems(m univ.M) []string {
	var out []string
	if m.K == "str" {
		for _, r := range m.S {
			out = append(out, string(r))
		}
		return out
	}
	for _, e := range m.L {
		out = append(out, printed(e))
	}
	return out
}

func pyBound(s string, n int, dflt int) int {
	if strings.TrimSpace(s) == "" {
		return dflt
	}
	v, _ := strconv.Atoi(s)
	if v < 0 {
		v += n
		if v < 0 {
			v = 0
		}
	}
	if v > n {
		v = n
	}
	return v
}

func words(s string) []string { return strings.Fields(s) }

func runeLen(s string) int { return utf8.RuneCountInString(s) }

// decimal half-up rounding of a non-negative decimal string; tie=true if the dropped part is exactly one half.
func roundDecimal(dec string, places int) (res string, tie bool) {
	neg := strings.HasPrefix(dec, "-")
	dec = strings.TrimPrefix(dec, "-")
	ip, fp := dec, ""
	if i := strings.IndexByte(dec, '.'); i >= 0 {
		ip, fp = dec[:i], dec[i+1:]
	}
	for len(fp) < places+1 {
		fp += "0"
	}
	keep, drop := fp[:places], fp[places:]
	digits := []byte(ip + keep)
	up := false
	if drop[0] > '5' {
		up = true
	} else if drop[0] == '5' {
		if strings.Trim(drop[1:], "0") == "" {
			tie = true
		}
		up = true
	}
	if up {
		i := len(digits) - 1
		for i >= 0 {
			if digits[i] == '9' {
				digits[i] = '0'
				i--
				continue
			}
			digits[i]++
			break
		}
		if i < 0 {
			digits = append([]byte{'1'}, digits...)
		}
	}
	s := string(digits)
	if places > 0 {
		s = s[:len(s)-places] + "." + s[len(s)-places:]
	}
	if neg {
		s = "-" + s
	}
	return s, tie
}

func isIntegralDec(dec string) bool {
	if i := strings.IndexByte(dec, '.'); i >= 0 {
		return strings.Trim(dec[i+1:], "0") == ""
	}
	return true
}

// ---------- the reference ----------

func reference(c *Case) exp {
	in, p := c.In, c.Param
	switch c.Filter {
	case "slice":
		if !(isSeq(in) || in.K == "str") || p.K != "str" {
			return skip()
		}
		comp := strings.Split(p.S, ":")
		if len(comp) != 2 {
			return skip()
		}
		el := elems(in)
		n := len(el)
		from := pyBound(comp[0], n, 0)
		to := pyBound(comp[1], n, n)
		if to < from {
			to = from
		}
		if in.K == "str" {
			return exact(strings.Join(el[from:to], ""))
		}
		return exp{isLst: true, list: el[from:to]}
	case "first", "last":
		if !(isSeq(in) || in.K == "str") {
			return skip()
		}
		el := elems(in)
		if len(el) == 0 {
			return exact("")
		}
		if c.Filter == "first" {
			return exact(el[0])
		}
		return exact(el[len(el)-1])
	case "length", "length_is":
		n := 0
		switch {
		case isSeq(in) || in.K == "str" || in.K == "map":
			n = len(elems(in))
			if in.K == "map" {
				n = len(in.L)
			}
		case in.K == "nil" || in.K == "int":
			n = 0
		default:
			return skip()
		}
		if c.Filter == "length" {
			return exact(strconv.Itoa(n))
		}
		if p.K != "int" {
			return skip()
		}
		return exact(printed(univ.Bool(int64(n) == p.I)))
	case "join":
		if !(isSeq(in) || in.K == "str") || p.K != "str" {
			return skip()
		}
		return exact(strings.Join(elems(in), p.S))
	case "split":
		if in.K != "str" || p.K != "str" || p.S == "" {
			return skip()
		}
		return exp{isLst: true, list: strings.Split(in.S, p.S)}
	case "make_list":
		var s string
		switch in.K {
		case "str":
			s = in.S
		case "int":
			if in.I < 0 {
				return skip()
			}
			s = strconv.FormatInt(in.I, 10)
		default:
			return skip()
		}
		var l []string
		for _, r := range s {
			l = append(l, string(r))
		}
		return exp{isLst: true, list: l}
	case "cut":
		if in.K != "str" || p.K != "str" || p.S == "" {
			return skip()
		}
		return exact(strings.ReplaceAll(in.S, p.S, ""))
	case "truncatechars":
		if in.K != "str" || p.K != "int" || p.I <= 0 {
			return skip()
		}
		n := int(p.I)
		s := in.S
		if runeLen(s) <= n {
			return exact(s)
		}
		return exp{key: "shape", pred: func(out string) string {
			if runeLen(out) > n {
				return fmt.Sprintf("longer than %d characters", n)
			}
			kept := out
			if n >= 3 {
				if !strings.HasSuffix(out, "...") {
					return "no ellipsis although the text was cut"
				}
				kept = strings.TrimSuffix(out, "...")
			}
			if !strings.HasPrefix(s, kept) {
				return "kept text is not a prefix of the input"
			}
			if runeLen(out) != n {
				return fmt.Sprintf("shorter than the %d characters available", n)
			}
			return ""
		}}
	case "truncatewords":
		if in.K != "str" || p.K != "int" || p.I <= 0 {
			return skip()
		}
		w := words(in.S)
		n := int(p.I)
		if len(w) <= n {
			// Django 1.7 (Truncator.words): the text is split on whitespace and re-joined with single blanks also
			// when nothing is cut
			return exact(strings.Join(w, " "))
		}
		return exact(strings.Join(w[:n], " ") + " ...")
	case "wordcount":
		if in.K != "str" {
			return skip()
		}
		return exact(strconv.Itoa(len(words(in.S))))
	case "wordwrap":
		if in.K != "str" || p.K != "int" {
			return skip()
		}
		if p.I <= 0 {
			return exact(in.S)
		}
		w := words(in.S)
		n := int(p.I)
		return exp{key: "shape", pred: func(out string) string {
			if strings.Join(words(out), " ") != strings.Join(w, " ") {
				return "words altered"
			}
			if len(w) == 0 {
				return ""
			}
			for _, line := range strings.Split(out, "\n") {
				k := len(words(line))
				if k == 0 {
					return "empty line"
				}
				if k > n {
					return fmt.Sprintf("a line holds %d words, more than %d", k, n)
				}
			}
			return ""
		}}
	case "center", "ljust", "rjust":
		if (in.K != "str" && in.K != "int" && in.K != "float") || p.K != "int" {
			return skip()
		}
		s := printed(in) // a number is padded as the text it prints as
		w := int(p.I)
		if w <= runeLen(s) {
			return exact(s)
		}
		f := c.Filter
		return exp{key: "shape", pred: func(out string) string {
			if runeLen(out) != w {
				return fmt.Sprintf("length %d, want %d", runeLen(out), w)
			}
			i := strings.Index(out, s)
			if s == "" {
				i = 0
			}
			if i < 0 {
				return "kept text altered"
			}
			left, right := out[:i], out[i+len(s):]
			if s == "" {
				left, right = out, ""
			}
			if strings.Trim(left, " ") != "" || strings.Trim(right, " ") != "" {
				return "padding contains something other than spaces"
			}
			if s == "" {
				return ""
			}
			switch f {
			case "ljust":
				if strings.HasPrefix(s, " ") {
					return ""
				}
				if left != "" {
					return "ljust padded on the left"
				}
			case "rjust":
				if strings.HasSuffix(s, " ") {
					return ""
				}
				if right != "" {
					return "rjust padded on the right"
				}
			case "center":
				if strings.HasPrefix(s, " ") || strings.HasSuffix(s, " ") {
					return ""
				}
				if d := len(left) - len(right); d > 1 || d < -1 {
					return "center: text is not in the middle"
				}
			}
			return ""
		}}
	case "linenumbers":
		if in.K != "str" {
			return skip()
		}
		lines := strings.Split(in.S, "\n")
		return exp{key: "shape", pred: func(out string) string {
			ol := strings.Split(out, "\n")
			if len(ol) != len(lines) {
				return "number of lines changed"
			}
			for i, l := range ol {
				num := strconv.Itoa(i + 1)
				t := strings.TrimLeft(l, " 0")
				if !strings.HasPrefix(t, num+". ") || t[len(num)+2:] != lines[i] {
					return fmt.Sprintf("line %d is %q", i+1, l)
				}
			}
			return ""
		}}
	case "linebreaksbr":
		if in.K != "str" {
			return skip()
		}
		return exact(strings.ReplaceAll(in.S, "\n", "<br />"))
	case "capfirst":
		if in.K != "str" {
			return skip()
		}
		if in.S == "" {
			return exact("")
		}
		r, size := utf8.DecodeRuneInString(in.S)
		return exact(string(unicode.ToUpper(r)) + in.S[size:])
	case "upper", "lower":
		if in.K != "str" {
			return skip()
		}
		var b strings.Builder
		for _, r := range in.S {
			if c.Filter == "upper" {
				b.WriteRune(unicode.ToUpper(r))
			} else {
				b.WriteRune(unicode.ToLower(r))
			}
		}
		return exact(b.String())
	case "add":
		switch {
		case in.K == "int" && p.K == "int":
			return exact(strconv.FormatInt(in.I+p.I, 10))
		case (in.K == "int" || in.K == "float") && (p.K == "int" || p.K == "float"):
			return exact(fmt.Sprintf("%f", num(in)+num(p)))
		case in.K == "str" && p.K == "str":
			if _, e1 := strconv.ParseFloat(in.S, 64); e1 == nil {
				return skip() // numeric-looking strings: Django coerces, pongo2 concatenates (left open)
			}
			return exact(in.S + p.S)
		}
		return skip()
	case "divisibleby":
		if in.K == "int" && (p.K == "str" || p.K == "float") {
			// a divisor that is text or a fraction counts with its whole part (0 for text that is no number): whatever
			// its truthiness, a divisor of 0 divides nothing
			whole := int64(p.F)
			if p.K == "str" {
				f, err := strconv.ParseFloat(p.S, 64)
				if err != nil {
					f = 0
				}
				whole = int64(f)
			}
			if whole == 0 {
				return exact("False")
			}
			return exact(printed(univ.Bool(in.I%whole == 0)))
		}
		if in.K != "int" || p.K != "int" {
			return skip()
		}
		if p.I == 0 {
			return exact("False")
		}
		return exact(printed(univ.Bool(in.I%p.I == 0)))
	case "get_digit":
		var s string
		switch in.K {
		case "int":
			s = strconv.FormatInt(in.I, 10)
		case "str":
			s = in.S
		default:
			return skip()
		}
		if p.K != "int" {
			return skip()
		}
		if _, err := strconv.ParseUint(s, 10, 64); err != nil {
			// not a whole non-negative number: "returns the original value for invalid input" - also a negative
			// number where a digit is asked for (the sign position itself is left open)
			digits := strings.TrimPrefix(s, "-")
			if _, err2 := strconv.ParseUint(digits, 10, 64); err2 == nil && digits != s {
				if p.I <= 0 || int(p.I) > len(s) {
					return skip()
				}
				if c := s[len(s)-int(p.I)]; c != '-' {
					return exact(string(c))
				}
				return skip()
			}
			if s == "" {
				return skip()
			}
			return exact(s)
		}
		if p.I <= 0 {
			return exact(s)
		}
		if int(p.I) > len(s) {
			return skip() // Django: 0, pongo2 fixture: the input
		}
		return exact(string(s[len(s)-int(p.I)]))
	case "floatformat":
		if in.K != "str" {
			return skip() // the float is handed over in its decimal spelling (see run)
		}
		dec := in.S
		places := -1
		switch p.K {
		case "nil":
		case "int":
			places = int(p.I)
		case "str":
			v, err := strconv.Atoi(p.S)
			if err != nil {
				return skip()
			}
			places = v
		default:
			return skip()
		}
		abs := places
		if abs < 0 {
			abs = -abs
		}
		if places <= 0 && isIntegralDec(dec) {
			r, _ := roundDecimal(dec, 0)
			return exact(r)
		}
		r, tie := roundDecimal(dec, abs)
		if tie {
			return skip()
		}
		if strings.Trim(r, "-0.") == "" && strings.HasPrefix(dec, "-") {
			return skip() // negative zero
		}
		return exact(r)
	case "pluralize":
		if in.K != "int" && in.K != "float" && in.K != "float32" {
			return skip()
		}
		sing, plur := "", "s"
		if c.HasParam {
			if p.K != "str" {
				return skip()
			}
			parts := strings.Split(p.S, ",")
			switch len(parts) {
			case 1:
				plur = parts[0]
			case 2:
				sing, plur = parts[0], parts[1]
			default:
				return skip()
			}
		}
		if (in.K == "int" && in.I == 1) || (in.K != "int" && in.F == 1) {
			return exact(sing) // exactly one; 1.5 of something is plural
		}
		return exact(plur)
	case "yesno":
		ch := []string{"yes", "no", "maybe"}
		if c.HasParam {
			if p.K != "str" {
				return skip()
			}
			parts := strings.Split(p.S, ",")
			if len(parts) == 3 {
				ch = parts
			} else if len(parts) == 2 {
				if in.K == "nil" {
					return skip() // Django: second choice; pongo2 fixture pins "maybe"
				}
				ch = []string{parts[0], parts[1], "maybe"}
			} else {
				return skip()
			}
		}
		switch {
		case in.K == "nil":
			return exact(ch[2])
		case truthy(in):
			return exact(ch[0])
		}
		return exact(ch[1])
	case "default":
		if p.K != "str" {
			return skip()
		}
		if truthy(in) {
			return exp{key: "kept", pred: func(out string) string { return "" }, exact: nil, skip: false}.withPrinted(in)
		}
		return exact(p.S)
	case "default_if_none":
		if p.K != "str" {
			return skip()
		}
		if in.K == "nil" {
			return exact(p.S)
		}
		return exp{}.withPrinted(in)
	case "integer":
		switch in.K {
		case "int":
			return exact(strconv.FormatInt(in.I, 10))
		case "float":
			return exact(strconv.FormatInt(int64(in.F), 10))
		case "nil":
			return exact("0")
		case "str":
			if in.S != strings.TrimSpace(in.S) {
				return skip()
			}
			f, err := strconv.ParseFloat(in.S, 64)
			if err != nil {
				return exact("0")
			}
			return exact(strconv.FormatInt(int64(f), 10))
		}
		return skip()
	case "float":
		switch in.K {
		case "int":
			return exact(fmt.Sprintf("%f", float64(in.I)))
		case "float":
			return exact(fmt.Sprintf("%f", in.F))
		case "nil":
			return exact(fmt.Sprintf("%f", 0.0))
		case "str":
			if in.S != strings.TrimSpace(in.S) {
				return skip()
			}
			f, err := strconv.ParseFloat(in.S, 64)
			if err != nil {
				f = 0
			}
			return exact(fmt.Sprintf("%f", f))
		}
		return skip()
	case "stringformat":
		if p.K != "str" {
			return skip()
		}
		return exact(fmt.Sprintf(p.S, in.Go()))
	case "date", "time":
		if in.K != "time" || p.K != "str" {
			return skip()
		}
		return exact(time.Unix(in.I, 0).UTC().Format(p.S))
	}
	return skip()
}

func (e exp) withPrinted(m univ.M) exp {
	if isSeq(m) || m.K == "map" {
		return skip()
	}
	s := printed(m)
	return exp{exact: &s}
}

func num(m univ.M) float64 {
	if m.K == "int" {
		return float64(m.I)
	}
	return m.F
}

func (c *Case) Exec(t *eng.T) {
	inV := c.In
	var goIn any
	eff := c
	if c.Filter == "floatformat" && inV.K == "str" && strings.HasSuffix(inV.S, "f") {
		// decimal spelling handed over as a float64
		f, _ := strconv.ParseFloat(strings.TrimSuffix(inV.S, "f"), 64)
		goIn = f
		c2 := *c
		c2.In = univ.Str(strings.TrimSuffix(inV.S, "f"))
		eff = &c2
	} else {
		goIn = inV.Go()
	}
	e := reference(eff)
	if e.skip {
		t.Skip()
	}
	var param *pongo2.Value
	ctx := pongo2.Context{"v": goIn}
	expr := "v|" + c.Filter
	if c.HasParam {
		param = pongo2.AsValue(c.Param.Go())
		ctx["p"] = c.Param.Go()
		expr += ":p"
	}
	// route 1: ApplyFilter
	var out1 string
	var list1 []string
	var ferr *pongo2.Error
	var v *pongo2.Value
	site, msg, panicked := eng.Protect(func() { v, ferr = pongo2.ApplyFilter(c.Filter, pongo2.AsValue(goIn), param) })
	if panicked {
		t.Fail(c.Filter+":panic:"+site, "%s panics: %s (at %s)", c.ID(), msg, site)
		return
	}
	if ferr != nil {
		if !e.skip {
			t.Fail(c.Filter+":error", "%s fails: %v", c.ID(), ferr)
		}
		return
	}
	if e.isLst {
		site, msg, panicked = eng.Protect(func() {
			for i := 0; i < v.Len(); i++ {
				list1 = append(list1, v.Index(i).String())
			}
		})
		if panicked {
			t.Fail(c.Filter+":panic:"+site, "%s: reading the result panics: %s", c.ID(), msg)
			return
		}
		out1 = strings.Join(list1, "\x1f")
	} else {
		out1 = v.String()
	}
	// route 2: template syntax under autoescape off
	src := "{% autoescape off %}{{ " + expr + " }}{% endautoescape %}"
	if e.isLst {
		src = "{% autoescape off %}{% for x in " + expr + " %}{% if not forloop.First %}\x1f{% endif %}{{ x }}{% endfor %}{% endautoescape %}"
	}
	o2 := px.Exec(tplFor(src), ctx)
	t.Outcome(c.Filter + "\x00" + out1)
	if e.skip {
		if o2.Panic != "" {
			t.Fail(c.Filter+":panic:"+o2.Panic, "%s panics in the template route: %s", c.ID(), o2.PanicMsg)
		}
		return
	}
	t.Nontrivial()
	if o2.Failed() || o2.S != out1 {
		t.Fail(c.Filter+":route-mismatch", "%s: ApplyFilter gives %q, the template route gives %s", c.ID(), out1, o2)
	}
	// route 3 (text inputs): the filter tag, the filter written behind a filter that takes a parameter and changes
	// nothing (cut of a byte no input contains)
	if s, isText := goIn.(string); isText && !e.isLst {
		src3 := "{% autoescape off %}{% filter cut:nul|" + strings.TrimPrefix(expr, "v|") + " %}{{ v }}{% endfilter %}{% endautoescape %}"
		ctx["nul"] = "\x00"
		_ = s
		if o3 := px.Exec(tplFor(src3), ctx); o3.Failed() || o3.S != out1 {
			t.Fail(c.Filter+":route-mismatch:filter-tag", "%s: ApplyFilter gives %q, {%% filter cut:nul|%s %%} around the input gives %s", c.ID(), out1, strings.TrimPrefix(expr, "v|"), o3)
		}
	}
	switch {
	case e.isLst:
		if want := strings.Join(e.list, "\x1f"); out1 != want || len(list1) != len(e.list) {
			t.Fail(c.Filter+":mismatch", "%s = %q, reference %q", c.ID(), list1, e.list)
		}
	case e.exact != nil:
		if out1 != *e.exact {
			t.Fail(c.Filter+":mismatch", "%s = %q, reference %q", c.ID(), out1, *e.exact)
		}
	case e.pred != nil:
		if why := e.pred(out1); why != "" {
			t.Fail(c.Filter+":"+e.key, "%s = %q: %s", c.ID(), out1, why)
		}
	}
}

// ---------- widthratio ----------

type WRCase struct {
	Cur, Max, Width int
	As              bool
}

func (c *WRCase) ID() string {
	return fmt.Sprintf("widthratio %d %d %d as=%v", c.Cur, c.Max, c.Width, c.As)
}

func (c *WRCase) Exec(t *eng.T) {
	if c.Max == 0 {
		// nothing to relate the value to: the documented result is 0 (Django catches the division by zero)
		src := "{% widthratio a b c %}|{% widthratio a b c as w %}[{{ w }}]"
		o := px.Exec(tplFor(src), pongo2.Context{"a": c.Cur, "b": c.Max, "c": c.Width})
		t.Nontrivial()
		t.Outcome(o.String())
		if o.Failed() || o.S != "0|[0]" {
			t.Fail("widthratio:zero-maximum", "%s renders %s, want \"0|[0]\"", c.ID(), o)
		}
		return
	}
	x := float64(c.Cur) / float64(c.Max) * float64(c.Width)
	// exact rational: cur*width / max
	numr, den := c.Cur*c.Width, c.Max
	if den < 0 {
		numr, den = -numr, -den
	}
	// floor division: numr = q*den + r with 0 <= r < den (also for negative ratios)
	q, r := numr/den, numr%den
	if r < 0 {
		q, r = q-1, r+den
	}
	if 2*r == den {
		t.Skip() // exact tie: half-up (Python 2) vs half-even (Python 3) is left open
		return
	}
	want := q
	if 2*r > den {
		want = q + 1
	}
	_ = x
	_ = math.Floor
	src := "{% widthratio a b c %}"
	if c.As {
		src = "{% widthratio a b c as w %}[{{ w }}]"
	}
	o := px.Exec(tplFor(src), pongo2.Context{"a": c.Cur, "b": c.Max, "c": c.Width})
	t.Nontrivial()
	t.Outcome(o.String())
	ws := strconv.Itoa(want)
	if c.As {
		ws = "[" + ws + "]"
	}
	if o.Failed() || o.S != ws {
		cls := "mismatch"
		if r == 0 {
			cls = "exact-ratio-rounded-up"
		}
		t.Fail("widthratio:"+cls, "%s renders %s, reference %q (= round(%d*%d/%d))", c.ID(), o, ws, c.Cur, c.Width, c.Max)
	}
}

// ---------- enumeration ----------

func strsOver(alpha []string, n int) []string {
	var out []string
	enum.Strings(alpha, n, func(s string, _ []int) bool { out = append(out, s); return true })
	return out
}

func seqsOfLen(n int) []univ.M {
	vals := make([]int, n)
	for i := range vals {
		vals[i] = i + 1
	}
	ss := make([]string, n)
	for i := range ss {
		ss[i] = string(rune('a' + i))
	}
	ascii := "abcdefghijkl"[:n]
	mb := []rune("aé€b𝄞cßdÉe1f")
	anys := make([]univ.M, n) // the same numbers and letters as an []any (what decoded JSON looks like)
	for i := range anys {
		if i%2 == 0 {
			anys[i] = univ.Int(i + 1)
		} else {
			anys[i] = univ.Str(string(rune('a' + i)))
		}
	}
	mb2 := []rune("éab€cd𝄞efßgh") // multi-byte first: the byte at a character index is an ASCII byte of ANOTHER character
	return []univ.M{univ.Ints(vals...), univ.Array(vals...), univ.PArray(vals...), univ.Strs(ss...), univ.Slice(anys...), univ.Str(ascii), univ.Str(string(mb[:n])), univ.Str(string(mb2[:n]))}
}

func run(r *eng.Runner) {
	q := r.Quick()
	do := func(f string, in univ.M, p *univ.M) {
		c := &Case{Filter: f, In: in}
		if p != nil {
			c.Param, c.HasParam = *p, true
		}
		r.Do(c)
	}
	pi := func(i int) *univ.M { m := univ.Int(i); return &m }
	ps := func(s string) *univ.M { m := univ.Str(s); return &m }

	maxLen, bnd := 6, 8
	if q {
		maxLen, bnd = 5, 7
	}
	r.Group("slice", "c18.case", fmt.Sprintf("slice bounds (-%d..%d and omitted)^2 over slices, arrays (by value and by pointer), string slices, ASCII and multi-byte strings of length 0..%d", bnd, bnd, maxLen))
	var bounds []string
	bounds = append(bounds, "")
	for b := -bnd; b <= bnd; b++ {
		bounds = append(bounds, strconv.Itoa(b))
	}
	for n := 0; n <= maxLen; n++ {
		for _, seq := range seqsOfLen(n) {
			for _, a := range bounds {
				for _, b := range bounds {
					do("slice", seq, ps(a+":"+b))
				}
			}
		}
	}
	do("slice", univ.Ints(1, 2, 3), ps(" 1 : 2 "))
	do("slice", univ.Ints(1, 2, 3), ps("99999999999:"))
	do("slice", univ.Ints(1, 2, 3), ps(":-99999999999"))

	r.Group("sequence-ops", "c18.case", fmt.Sprintf("first/last/length/length_is/join over the same sequences (length 0..%d); split/make_list/cut over all short strings", maxLen+1))
	for n := 0; n <= maxLen+1; n++ {
		for _, seq := range seqsOfLen(n) {
			do("first", seq, nil)
			do("last", seq, nil)
			do("length", seq, nil)
			for k := -1; k <= maxLen+2; k++ {
				do("length_is", seq, pi(k))
			}
			for _, sep := range []string{", ", "-", "é", "", "\n"} {
				do("join", seq, ps(sep))
			}
		}
	}
	do("length", univ.Map("a", univ.Int(1), "b", univ.Int(2)), nil)
	do("length", univ.Nil(), nil)
	do("length", univ.Int(5), nil)
	nsplit := 5
	if q {
		nsplit = 4
	}
	for _, s := range strsOver([]string{"a", ",", " ", "é"}, nsplit) {
		for _, sep := range []string{",", " ", "é", ", ", "a,"} {
			do("split", univ.Str(s), ps(sep))
		}
		for _, arg := range []string{"a", " ", "a,", "é", ",,"} {
			do("cut", univ.Str(s), ps(arg))
		}
	}
	for _, s := range strsOver([]string{"a", "b", "é", "𝄞", " "}, 4) {
		do("make_list", univ.Str(s), nil)
		do("capfirst", univ.Str(s), nil)
	}
	for _, i := range []int{0, 7, 12, 305, 1234567890} {
		do("make_list", univ.Int(i), nil)
	}

	r.Group("layout", "c18.case", "truncatechars (-1..15) / center,ljust,rjust (-3..20) over ASCII and multi-byte strings of length 0..12; truncatewords/wordcount/wordwrap over word layouts; linenumbers/linebreaksbr; upper/lower/capfirst")
	mb := []rune("aé€b𝄞cßdÉe1fg")
	for n := 0; n <= 12; n++ {
		for _, s := range []string{"abcdefghijklm"[:n], string(mb[:n])} {
			for k := -1; k <= 15; k++ {
				do("truncatechars", univ.Str(s), pi(k))
			}
			for w := -3; w <= 20; w++ {
				do("center", univ.Str(s), pi(w))
				do("ljust", univ.Str(s), pi(w))
				do("rjust", univ.Str(s), pi(w))
			}
		}
	}
	for _, v := range []univ.M{univ.Int(5), univ.Int(-12), univ.Int(12345), univ.Float(1.5)} {
		for w := -1; w <= 12; w++ {
			do("center", v, pi(w))
			do("ljust", v, pi(w))
			do("rjust", v, pi(w))
		}
	}
	nw := 5
	if q {
		nw = 4
	}
	for _, s := range strsOver([]string{"ab", "é", " ", "  ", "\n"}, nw) {
		for k := -1; k <= 5; k++ {
			do("truncatewords", univ.Str(s), pi(k))
			do("wordwrap", univ.Str(s), pi(k))
		}
		do("wordcount", univ.Str(s), nil)
	}
	for _, s := range strsOver([]string{"a", "é b", "\n", " "}, 4) {
		do("linenumbers", univ.Str(s), nil)
		do("linebreaksbr", univ.Str(s), nil)
	}
	for _, s := range strsOver([]string{"a", "B", "é", "É", "ß", "1", " ", "ǆ"}, 3) {
		do("upper", univ.Str(s), nil)
		do("lower", univ.Str(s), nil)
		do("capfirst", univ.Str(s), nil)
	}

	r.Group("numeric", "c18.case", "add/divisibleby/get_digit/floatformat/pluralize/yesno/default/default_if_none/integer/float/stringformat/date over small grids")
	for a := -3; a <= 3; a++ {
		for b := -3; b <= 3; b++ {
			do("add", univ.Int(a), pi(b))
		}
		f := univ.Float(0.5)
		do("add", univ.Int(a), &f)
		do("add", univ.Float(float64(a)+0.25), pi(2))
	}
	for _, s := range []string{"", "a", "hello "} {
		for _, p := range []string{"", "b", "é"} {
			do("add", univ.Str(s), ps(p))
		}
	}
	for a := -6; a <= 12; a++ {
		for b := -3; b <= 6; b++ {
			do("divisibleby", univ.Int(a), pi(b))
		}
	}
	for _, a := range []int{0, 6, 7} {
		for _, dv := range []univ.M{univ.Str("0"), univ.Str("abc"), univ.Str("3"), univ.Str("0.9"), univ.Str(""), univ.Float(0.5), univ.Float(-0.25), univ.Float(3.7), univ.Float(0)} {
			dv := dv
			do("divisibleby", univ.Int(a), &dv)
		}
	}
	for _, v := range []int{0, 7, 12, 305, 1234567890} {
		for pos := -1; pos <= 12; pos++ {
			do("get_digit", univ.Int(v), pi(pos))
			do("get_digit", univ.Str(strconv.Itoa(v)), pi(pos))
		}
	}
	for pos := -1; pos <= 5; pos++ {
		for _, v := range []univ.M{univ.Int(-12), univ.Int(-7), univ.Str("abc"), univ.Str("1a"), univ.Str("a1"), univ.Str("1.5"), univ.Str("12 "), univ.Str("é1"), univ.Str("-"), univ.Str("x")} {
			do("get_digit", v, pi(pos))
		}
	}
	decs := []string{"34.23234", "34.0", "34.26", "39.56", "0.1", "0.12", "2.7182", "1234.5678", "0.0", "7.0", "0.004", "99.99", "99.999", "0.5", "1.5", "2.5", "0.125", "0.375", "-2.7182", "-34.26", "-0.3", "1000000.0", "3.0001", "12.34567", "0.049", "0.951", "9.96", "9.94", "100.0", "0.25"}
	for _, d := range decs {
		for p := -4; p <= 4; p++ {
			do("floatformat", univ.Str(d), pi(p))
			do("floatformat", univ.Str(d+"f"), pi(p))
			do("floatformat", univ.Str(d+"f"), ps(strconv.Itoa(p)))
		}
		do("floatformat", univ.Str(d), nil)
		do("floatformat", univ.Str(d+"f"), nil)
	}
	for _, v := range []int{-1, 0, 1, 2, 11} {
		do("pluralize", univ.Int(v), nil)
		do("pluralize", univ.Int(v), ps("es"))
		do("pluralize", univ.Int(v), ps("y,ies"))
	}
	for _, v := range []univ.M{univ.Float(1.5), univ.Float(0.5), univ.Float(1), univ.Float(2), univ.Float(-1), univ.Float(1.0000001), {K: "float32", F: 1.25}, univ.Float(0)} {
		do("pluralize", v, nil)
		do("pluralize", v, ps("es"))
		do("pluralize", v, ps("y,ies"))
	}
	grid := []univ.M{univ.Nil(), univ.Str(""), univ.Str("a"), univ.Int(0), univ.Int(1), univ.Bool(false), univ.Bool(true), univ.Float(0), univ.Float(2.5), univ.Ints(), univ.Ints(1),
		univ.Float(0.5), univ.Float(-0.25), univ.Float(1e-9), {K: "float32", F: 0.75}, univ.Int(-1), {K: "uint8", U: 0}, {K: "uint8", U: 3}, univ.NilPtr("int"), univ.NilPtr("str"), univ.NilPtr("struct")}
	for _, v := range grid {
		do("yesno", v, nil)
		do("yesno", v, ps("ja,nein,vielleicht"))
		do("yesno", v, ps("ja,nein"))
		do("default", v, ps("d"))
		do("default_if_none", v, ps("d"))
	}
	for _, v := range []univ.M{univ.Str("12"), univ.Str("12.7"), univ.Str("-12.7"), univ.Str("abc"), univ.Str(""), univ.Str("010"), univ.Str("0755"), univ.Str("-017"), univ.Str("0x1F"), univ.Str("0b11"), univ.Str("08"), univ.Str("0o17"), univ.Str("1_000"), univ.Float(3.9), univ.Float(-3.9), univ.Int(7), univ.Nil(), univ.Str("1e3")} {
		do("integer", v, nil)
		do("float", v, nil)
	}
	for _, sf := range []struct {
		f string
		v univ.M
	}{{"%d", univ.Int(5)}, {"%03d", univ.Int(5)}, {"%s", univ.Str("a")}, {"%.2f", univ.Float(3.14159)}, {"%5s|", univ.Str("ab")}, {"%x", univ.Int(255)}, {"%v", univ.Bool(true)}, {"%q", univ.Str("é")}} {
		do("stringformat", sf.v, ps(sf.f))
	}
	for _, ts := range []int64{0, 1402414215, 1300696676} {
		for _, layout := range []string{"2006-01-02", "15:04:05", time.RFC3339, "Mon Jan _2", "", "Jan 2, 2006 at 3:04pm (MST)"} {
			do("date", univ.Time(ts), ps(layout))
			do("time", univ.Time(ts), ps(layout))
		}
	}

	r.Group("widthratio", "c18.wr", "widthratio cur (-12..12) x max (-12..12; a maximum of 0 gives 0) x width {1,10,100}, plain and `as` form (negative ratios round to the nearest integer as well)")
	for cur := -12; cur <= 12; cur++ {
		for mx := -12; mx <= 12; mx++ {
			if mx == 0 {
				r.Do(&WRCase{Cur: cur, Max: 0, Width: 100})
				continue
			}
			for _, w := range []int{1, 10, 100} {
				r.Do(&WRCase{Cur: cur, Max: mx, Width: w})
				r.Do(&WRCase{Cur: cur, Max: mx, Width: w, As: true})
			}
		}
	}
}

func init() {
	eng.RegisterCase("c18.case", func() eng.Case { return &Case{} })
	eng.RegisterCase("c18.wr", func() eng.Case { return &WRCase{} })
	eng.Register(&eng.Check{
		ID:    "C18",
		Title: "Built-in data filters match their Django/Python reference semantics",
		Rule: "bounded-exhaustive argument windows per filter (slice bounds squared over sequence kinds and lengths; widths/counts/positions over strings of every length up to the bound, ASCII and multi-byte; small value grids for numeric and choice filters; the widthratio grid), each evaluated through ApplyFilter and through {{ v|f:p }} under autoescape off (routes must agree) and compared with an independent reference: exact for sequence and numeric filters, shape predicates for the layout filters. " +
			"Non-trivial: the case lies inside the judged fragment (a reference value or predicate exists); cases outside (behaviour left open or fixture-pinned deviations) are counted as skipped but still executed for totality.",
		Assumptions: []string{
			"outside the judged fragment: truncatechars/truncatewords with n<=0, get_digit beyond the number's length, yesno with two choices on nil, add on numeric-looking strings or mixed kinds, exact rounding ties in floatformat/widthratio, split/cut with an empty argument",
			"floatformat is judged on floats given by short decimal spellings (no binary-vs-decimal tie ambiguity)",
			"wordwrap follows pongo2's fixture-pinned word-count variant; center may put the odd space on either side",
		},
		Run: run,
	})
}
