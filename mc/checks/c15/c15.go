// Package c15: whitespace control removes exactly the whitespace it names.
package c15

import (
	"fmt"
	"strings"

	"github.com/flosch/pongo2/v6"

	"verifmc/internal/eng"
	"verifmc/internal/enum"
	"verifmc/internal/px"
)

const ws = " \n\r\t"

// item of a document: literal text or a delimiter pair (one tag / variable)
type item struct {
	text  string // literal text (if tag == "")
	tag   string // inner source of the tag, e.g. "if 1", "endif", "1" (variable)
	block bool   // {% %} (true) or {{ }} (false)
	dl    bool   // dash on the left delimiter ({%- / {{-)
	dr    bool   // dash on the right delimiter (-%} / -}})
	// comment: a {# ... #} comment: renders nothing, ends the literal text on both sides, is no block tag and
	// carries no dash
	comment bool
	// verb: (with comment set) a verbatim block with this non-empty body instead of a comment: renders the body, ends
	// the literal text on both sides, is no block tag and carries no dash
	verb string
}

func (it item) src() string {
	if it.comment && it.verb != "" {
		return "{% verbatim %}" + it.verb + "{% endverbatim %}"
	}
	if it.comment {
		return "{# c #}"
	}
	if it.tag == "" {
		return it.text
	}
	o, c := "{{", "}}"
	if it.block {
		o, c = "{%", "%}"
	}
	if it.dl {
		o += "-"
	}
	if it.dr {
		c = "-" + c
	}
	return o + " " + it.tag + " " + c
}

// merge adjacent text items
func normalize(items []item) []item {
	var out []item
	for _, it := range items {
		if it.comment {
			out = append(out, it)
			continue
		}
		if it.tag == "" && len(out) > 0 && out[len(out)-1].tag == "" && !out[len(out)-1].comment {
			out[len(out)-1].text += it.text
			continue
		}
		if it.tag == "" && it.text == "" {
			continue
		}
		out = append(out, it)
	}
	return out
}

// handStrip deletes, by the rules of the property, the whitespace the markers name and removes the markers.
func handStrip(items []item, trimBlocks, lstrip bool) []item {
	items = normalize(items)
	out := make([]item, len(items))
	copy(out, items)
	for i := range out {
		if out[i].tag != "" || out[i].comment {
			out[i].dl, out[i].dr = false, false
			continue
		}
		t := out[i].text
		var prev, next *item
		if i > 0 {
			prev = &items[i-1]
		}
		if i+1 < len(items) {
			next = &items[i+1]
		}
		if lstrip && next != nil && next.block {
			t = strings.TrimRight(t, " \t")
		}
		if trimBlocks && prev != nil && prev.block && strings.HasPrefix(t, "\n") {
			t = t[1:]
		}
		if prev != nil && prev.dr {
			t = strings.TrimLeft(t, ws)
		}
		if next != nil && next.dl {
			t = strings.TrimRight(t, ws)
		}
		out[i].text = t
	}
	return out
}

func source(items []item) string {
	var b strings.Builder
	for _, it := range items {
		b.WriteString(it.src())
	}
	return b.String()
}

type DocCase struct {
	Src        eng.Q  `json:"src"`
	Twin       eng.Q  `json:"twin"` // hand-stripped source, no markers, options off
	TrimBlocks bool   `json:"trim_blocks"`
	LStrip     bool   `json:"lstrip_blocks"`
	Kind       string `json:"kind"`
	// Base: when set, Src is a child template served as /main that extends /base (= Base); OptsAfter: the options
	// are switched on on the compiled template instead of on the set
	Base      eng.Q `json:"base,omitempty"`
	OptsAfter bool  `json:"opts_after,omitempty"`
	// TwinBase: the hand-stripped form of Base (dash markers written in the base template); "" = Base itself
	TwinBase eng.Q `json:"twin_base,omitempty"`
	// Lib / TwinLib: a macro library /lib imported by Src (dash markers written in the imported file)
	Lib     eng.Q `json:"lib,omitempty"`
	TwinLib eng.Q `json:"twin_lib,omitempty"`
	// Isolate: the options are switched on on ANOTHER template of the same set (after both were compiled); Src must
	// render as if no option were on
	Isolate bool `json:"isolate,omitempty"`
	// Blocks: ExecuteBlocks(["a", "d"]) on the child instead of Execute: "a" is the child's own block, "d" exists in
	// the base only (the base's text carries whitespace too, TwinBase is its hand-stripped form)
	Blocks bool `json:"blocks,omitempty"`
	// ViaUpdate: one compiled template is walked through all four settings with Options.Update (both on first), and
	// must render each time like the source hand-stripped for THAT setting; Twins holds the four hand-stripped sources
	// in the order TT, FT, TF, FF
	ViaUpdate bool    `json:"via_update,omitempty"`
	// ViaRenderFile: like ViaUpdate, but the options are changed on the SET between calls of its RenderTemplateFile,
	// RenderTemplateString and FromFile shortcuts for the same source
	ViaRenderFile bool `json:"via_render_file,omitempty"`
	Twins     []eng.Q `json:"twins,omitempty"`
}

func (c *DocCase) ID() string {
	id := fmt.Sprintf("%q trim=%v lstrip=%v", string(c.Src), c.TrimBlocks, c.LStrip)
	if c.Base != "" {
		id += fmt.Sprintf(" base=%q after=%v", string(c.Base), c.OptsAfter)
	}
	if c.Lib != "" {
		id += fmt.Sprintf(" lib=%q", string(c.Lib))
	}
	if c.Isolate {
		id += " options-on-another-template"
	}
	if c.Blocks {
		id += " ExecuteBlocks"
	}
	if c.ViaUpdate {
		id += " via-Options.Update"
	}
	if c.ViaRenderFile {
		id += " via-set-options-and-render-shortcuts"
	}
	return id
}

func ctx() pongo2.Context { return pongo2.Context{"l": []int{1, 2}} }

func (c *DocCase) Exec(t *eng.T) {
	if strings.Contains(string(c.Src), "-") || c.TrimBlocks || c.LStrip || c.TwinBase != "" || c.Lib != "" {
		t.Nontrivial()
	}
	var got, want px.Out
	if c.ViaRenderFile {
		set, _ := px.NewSet(map[string]string{"/main": string(c.Src)})
		for i, st := range [][2]bool{{true, true}, {false, true}, {true, false}, {false, false}} {
			set.Options.TrimBlocks, set.Options.LStripBlocks = st[0], st[1]
			w := px.Render(nil, string(c.Twins[i]), ctx())
			for _, route := range []string{"RenderTemplateFile", "RenderTemplateString", "FromFile"} {
				var s string
				var err error
				site, msg, pan := eng.Protect(func() {
					switch route {
					case "RenderTemplateFile":
						s, err = set.RenderTemplateFile("/main", ctx())
					case "RenderTemplateString":
						s, err = set.RenderTemplateString(string(c.Src), ctx())
					default:
						var tp *pongo2.Template
						if tp, err = set.FromFile("/main"); err == nil {
							s, err = tp.Execute(ctx())
						}
					}
				})
				if pan || err != nil || s != w.S {
					t.Fail("ws:set-options-changed:"+route, "%s: with the set's options changed to TrimBlocks=%v LStripBlocks=%v (step %d of TT,FT,TF,FF) %s gives %q (error %v, panic %s %s); the source hand-stripped for that setting renders %s", c.ID(), st[0], st[1], i+1, route, s, err, site, msg, w)
					return
				}
			}
		}
		t.Outcome("render-file-options")
		return
	}
	if c.ViaUpdate {
		set, _ := px.NewSet(nil)
		tpl, out := px.Compile(set, string(c.Src))
		if tpl == nil {
			t.Fail("ws-error:options-update", "%s does not compile: %s", c.ID(), out)
			return
		}
		for i, st := range [][2]bool{{true, true}, {false, true}, {true, false}, {false, false}} {
			tpl.Options.Update(&pongo2.Options{TrimBlocks: st[0], LStripBlocks: st[1]})
			g := px.Exec(tpl, ctx())
			w := px.Render(nil, string(c.Twins[i]), ctx())
			if g.String() != w.String() {
				t.Fail("ws:options-update", "%s: after Options.Update(TrimBlocks=%v, LStripBlocks=%v) as step %d of TT,FT,TF,FF the template renders %s; the source hand-stripped for that setting renders %s", c.ID(), st[0], st[1], i+1, g, w)
				return
			}
		}
		t.Outcome("options-update")
		return
	}
	if c.Blocks {
		blocksOf := func(files map[string]string, tb, ls bool) px.Out {
			set, _ := px.NewSet(files)
			set.Options.TrimBlocks, set.Options.LStripBlocks = tb, ls
			tpl, out := px.CompileFile(set, "/main")
			if tpl == nil {
				return out
			}
			var res map[string]string
			var err error
			site, msg, pan := eng.Protect(func() { res, err = tpl.ExecuteBlocks(ctx(), []string{"a", "d"}) })
			switch {
			case pan:
				return px.Out{Panic: site, PanicMsg: msg}
			case err != nil:
				return px.Out{Err: err.Error()}
			}
			return px.Out{S: fmt.Sprintf("a=%q d=%q", res["a"], res["d"])}
		}
		g := blocksOf(map[string]string{"/main": string(c.Src), "/base": string(c.Base)}, c.TrimBlocks, c.LStrip)
		w := blocksOf(map[string]string{"/main": string(c.Twin), "/base": string(c.TwinBase)}, false, false)
		t.Outcome(g.String())
		if w.Failed() {
			t.Fail("harness:twin-fails", "%s: the hand-stripped twin does not render its blocks: %s", c.ID(), w)
			return
		}
		if g.String() != w.String() {
			t.Fail("ws:execute-blocks", "%s: ExecuteBlocks gives %s; the hand-stripped child %q and base %q give %s", c.ID(), g, string(c.Twin), string(c.TwinBase), w)
		}
		return
	}
	if c.Isolate {
		set, _ := px.NewSet(map[string]string{"/inc": "i"})
		tpl, out := px.Compile(set, string(c.Src))
		other, _ := px.Compile(set, "x\n{% if 1 %}\n y{% endif %}\n{% include \"inc\" %}")
		if tpl == nil || other == nil {
			got = out
		} else {
			first := px.Exec(tpl, ctx())
			other.Options.TrimBlocks, other.Options.LStripBlocks = c.TrimBlocks, c.LStrip
			px.Exec(other, ctx())
			got = px.Exec(tpl, ctx())
			if got.String() != first.String() {
				t.Fail("ws:options-of-another-template", "%s: renders %s before and %s after the options were switched on on another template of the same set", c.ID(), first, got)
				return
			}
			if set.Options.TrimBlocks || set.Options.LStripBlocks {
				t.Fail("ws:options-of-another-template", "%s: switching options on on a template switched them on on its set", c.ID())
				return
			}
			if later, _ := px.Compile(set, string(c.Src)); later != nil {
				got = px.Exec(later, ctx()) // a template compiled afterwards is not affected either
			}
		}
		want = px.Render(nil, string(c.Twin), ctx())
	} else if c.Base != "" || c.Lib != "" {
		files := map[string]string{"/main": string(c.Src)}
		twinFiles := map[string]string{"/main": string(c.Twin)}
		if c.Base != "" {
			files["/base"], twinFiles["/base"] = string(c.Base), string(c.Base)
			if c.TwinBase != "" {
				twinFiles["/base"] = string(c.TwinBase)
			}
		}
		if c.Lib != "" {
			files["/lib"], twinFiles["/lib"] = string(c.Lib), string(c.TwinLib)
		}
		set, _ := px.NewSet(files)
		if !c.OptsAfter {
			set.Options.TrimBlocks = c.TrimBlocks
			set.Options.LStripBlocks = c.LStrip
		}
		tpl, out := px.CompileFile(set, "/main")
		if tpl == nil {
			got = out
		} else {
			if c.OptsAfter {
				tpl.Options.TrimBlocks = c.TrimBlocks
				tpl.Options.LStripBlocks = c.LStrip
			}
			got = px.Exec(tpl, ctx())
		}
		want = px.RenderFile(twinFiles, "/main", ctx())
	} else {
		set, _ := px.NewSet(nil)
		set.Options.TrimBlocks = c.TrimBlocks
		set.Options.LStripBlocks = c.LStrip
		got = px.RenderIn(set, string(c.Src), ctx())
		want = px.Render(nil, string(c.Twin), ctx())
	}
	t.Outcome(got.String())
	if want.Failed() {
		t.Fail("harness:twin-fails", "hand-stripped twin %q does not render: %s", string(c.Twin), want)
		return
	}
	var marks []string
	if strings.Contains(string(c.Src), "{{-") || strings.Contains(string(c.Src), "{%-") {
		marks = append(marks, "dash-left")
	}
	if strings.Contains(string(c.Src), "-}}") || strings.Contains(string(c.Src), "-%}") {
		marks = append(marks, "dash-right")
	}
	if c.TrimBlocks {
		marks = append(marks, "trimblocks")
	}
	if c.LStrip {
		marks = append(marks, "lstripblocks")
	}
	key := strings.Join(marks, "+")
	if key == "" {
		key = "plain"
	}
	if got.Failed() {
		t.Fail("ws-error:"+key, "%s does not render: %s", c.ID(), got)
		return
	}
	if got.S != want.S {
		t.Fail("ws:"+key, "%s renders %q; the hand-stripped source %q renders %q", c.ID(), got.S, string(c.Twin), want.S)
	}
}

// ---- spaceless ----

type SpacelessCase struct {
	Body eng.Q `json:"body"`
}

func (c *SpacelessCase) ID() string { return fmt.Sprintf("spaceless %q", string(c.Body)) }

// refSpaceless removes every maximal whitespace run lying directly between a '>' and a '<'.
func refSpaceless(s string) string {
	var b strings.Builder
	for i := 0; i < len(s); {
		if strings.IndexByte(" \t\n\v\f\r", s[i]) >= 0 {
			j := i
			for j < len(s) && strings.IndexByte(" \t\n\v\f\r", s[j]) >= 0 {
				j++
			}
			if i > 0 && s[i-1] == '>' && j < len(s) && s[j] == '<' {
				i = j
				continue
			}
			b.WriteString(s[i:j])
			i = j
			continue
		}
		b.WriteByte(s[i])
		i++
	}
	return b.String()
}

// refSpacelessLine is the second reading (the one pongo2's documentation of the tag implies: a "tag" is anything
// from a '<' to a later '>' on the same line): the run is removed iff it directly follows a '>' that has a '<' before
// it on its line and directly precedes a '<' that has a '>' after it on its line.
func refSpacelessLine(s string) string {
	isWS := func(c byte) bool { return strings.IndexByte(" \t\n\v\f\r", c) >= 0 }
	var b strings.Builder
	for i := 0; i < len(s); {
		if !isWS(s[i]) {
			b.WriteByte(s[i])
			i++
			continue
		}
		j := i
		for j < len(s) && isWS(s[j]) {
			j++
		}
		remove := false
		if i > 0 && s[i-1] == '>' && j < len(s) && s[j] == '<' {
			before, after := false, false
			for k := i - 2; k >= 0 && s[k] != '\n'; k-- {
				if s[k] == '<' {
					before = true
				}
			}
			for k := j + 1; k < len(s) && s[k] != '\n'; k++ {
				if s[k] == '>' {
					after = true
				}
			}
			remove = before && after
		}
		if !remove {
			b.WriteString(s[i:j])
		}
		i = j
	}
	return b.String()
}

// refSpacelessStrict: a tag is '<', characters other than '<' and '>', '>'; a run is removed iff it lies directly
// between the end of one tag and the start of the next.
func refSpacelessStrict(s string) string {
	isWS := func(c byte) bool { return strings.IndexByte(" \t\n\v\f\r", c) >= 0 }
	tagEndsAt := func(e int) bool { // s[e] == '>' closes a tag
		for k := e - 1; k >= 0; k-- {
			if s[k] == '<' {
				return true
			}
			if s[k] == '>' {
				return false
			}
		}
		return false
	}
	tagStartsAt := func(b int) bool {
		for k := b + 1; k < len(s); k++ {
			if s[k] == '>' {
				return true
			}
			if s[k] == '<' {
				return false
			}
		}
		return false
	}
	var b strings.Builder
	for i := 0; i < len(s); {
		if !isWS(s[i]) {
			b.WriteByte(s[i])
			i++
			continue
		}
		j := i
		for j < len(s) && isWS(s[j]) {
			j++
		}
		if !(i > 0 && s[i-1] == '>' && tagEndsAt(i-1) && j < len(s) && s[j] == '<' && tagStartsAt(j)) {
			b.WriteString(s[i:j])
		}
		i = j
	}
	return b.String()
}

func (c *SpacelessCase) Exec(t *eng.T) {
	body := string(c.Body)
	want := refSpacelessStrict(body)
	// (a tag is '<', anything but angle brackets - line breaks included -, '>': a '>' in running text ends no tag)
	_ = refSpacelessLine
	_ = refSpaceless
	if want != body {
		t.Nontrivial()
	}
	got := px.Render(nil, "[{% spaceless %}"+body+"{% endspaceless %}]", nil)
	t.Outcome(got.String())
	if got.Failed() || got.S != "["+want+"]" {
		t.Fail("spaceless:mismatch", "spaceless body %q renders %s, want %q", body, got, "["+want+"]")
	}
	// a spaceless block written inside another one does its own work: its output may leave the outer block's body
	// by another way (a macro called later, a filter that measures it)
	if !strings.ContainsAny(body, "{}%#") {
		nest1 := px.Render(nil, "{% spaceless %}{% macro m() %}{% spaceless %}"+body+"{% endspaceless %}{% endmacro %}{% endspaceless %}[{{ m()|safe }}]", nil)
		if nest1.Failed() || nest1.S != "["+want+"]" {
			t.Fail("spaceless:nested-macro", "a spaceless macro body %q defined inside a spaceless block and called after it renders %s, want %q", body, nest1, "["+want+"]")
		}
		nest2 := px.Render(nil, "{% spaceless %}<i> {% filter length %}{% spaceless %}"+body+"{% endspaceless %}{% endfilter %} </i>{% endspaceless %}", nil)
		if w2 := fmt.Sprintf("<i> %d </i>", len([]rune(want))); nest2.Failed() || nest2.S != w2 {
			t.Fail("spaceless:nested-measured", "the length of a spaceless block %q inside a spaceless block renders %s, want %q", body, nest2, w2)
		}
	}
	// also with the body supplied at run time (same rendered body, same result)
	got2 := px.Render(nil, "[{% spaceless %}{{ b|safe }}{% endspaceless %}]", pongo2.Context{"b": body})
	if got2.Failed() || got2.S != "["+want+"]" {
		t.Fail("spaceless:mismatch-dynamic", "spaceless over a rendered variable %q gives %s, want %q", body, got2, "["+want+"]")
	}
}

// ---- enumeration ----

type construct struct {
	name  string
	items func(d []bool, wa, wb string) []item // d: dash flags in source order
	nd    int
}

func constructs() []construct {
	return []construct{
		{"var", func(d []bool, _, _ string) []item { return []item{{tag: "1", dl: d[0], dr: d[1]}} }, 2},
		{"set", func(d []bool, _, _ string) []item { return []item{{tag: "set z = 1", block: true, dl: d[0], dr: d[1]}} }, 2},
		{"if", func(d []bool, wa, wb string) []item {
			return []item{{tag: "if 1", block: true, dl: d[0], dr: d[1]}, {text: wa + "c" + wb}, {tag: "endif", block: true, dl: d[2], dr: d[3]}}
		}, 4},
		{"for", func(d []bool, wa, wb string) []item {
			return []item{{tag: "for i in l", block: true, dl: d[0], dr: d[1]}, {text: wa + "c" + wb}, {tag: "endfor", block: true, dl: d[2], dr: d[3]}}
		}, 4},
		{"if-blank", func(d []bool, wa, wb string) []item { // the body is whitespace only (or empty): the options can reduce it to nothing
			return []item{{tag: "if 1", block: true, dl: d[0], dr: d[1]}, {text: wa + wb}, {tag: "endif", block: true, dl: d[2], dr: d[3]}}
		}, 4},
		{"for-blank", func(d []bool, wa, wb string) []item {
			return []item{{tag: "for i in l", block: true, dl: d[0], dr: d[1]}, {text: wb + wa}, {tag: "endfor", block: true, dl: d[2], dr: d[3]}}
		}, 4},
		{"commenttag", func(d []bool, wa, wb string) []item { // a comment block: tags with dashes, a body that is never rendered
			return []item{{tag: "comment", block: true, dl: d[0], dr: d[1]}, {tag: "endcomment", block: true, dl: d[2], dr: d[3]}}
		}, 4},
		{"ifelse", func(d []bool, wa, wb string) []item {
			return []item{{tag: "if 0", block: true, dl: d[0], dr: d[1]}, {text: "n"}, {tag: "else", block: true, dl: d[2], dr: d[3]}, {text: wa + "c" + wb}, {tag: "endif", block: true}}
		}, 4},
	}
}

func flags(mask, n int) []bool {
	f := make([]bool, n)
	for i := 0; i < n; i++ {
		f[i] = mask&(1<<i) != 0
	}
	return f
}

func emitDoc(r *eng.Runner, items []item, kind string) {
	src := source(items)
	for opt := 0; opt < 4; opt++ {
		tb, ls := opt&1 != 0, opt&2 != 0
		twin := source(handStrip(items, tb, ls))
		r.Do(&DocCase{Src: eng.Q(src), Twin: eng.Q(twin), TrimBlocks: tb, LStrip: ls, Kind: kind})
	}
}

func run(r *eng.Runner) {
	cs := constructs()
	wFull := []string{"", " ", "\t", "\n", " \n\t ", "\r\n", "\r", "\n\n", "  ", "\v"}
	wBody := []string{"", " ", "\n ", "\n"}
	if r.Quick() {
		wFull = []string{"", " ", "\t", "\n", " \n\t ", "\r\n", "\r"}
		wBody = []string{"", "\n "}
	}
	r.Group("one-construct", "c15.doc", fmt.Sprintf("W a W C W b W with W over %d whitespace runs, C over 8 constructs (two with whitespace-only bodies, a comment block) carrying every subset of their dash positions, body whitespace over %d runs, all 4 TrimBlocks x LStripBlocks settings", len(wFull), len(wBody)))
	for _, c := range cs {
		enum.Tuples(len(wFull), 4, func(wi []int) bool {
			for mask := 0; mask < 1<<c.nd; mask++ {
				bodies := [][2]string{{"", ""}}
				if c.nd == 4 {
					bodies = nil
					for _, a := range wBody {
						for _, b := range wBody {
							bodies = append(bodies, [2]string{a, b})
						}
					}
				}
				for _, bd := range bodies {
					var items []item
					items = append(items, item{text: wFull[wi[0]] + "a" + wFull[wi[1]]})
					items = append(items, c.items(flags(mask, c.nd), bd[0], bd[1])...)
					items = append(items, item{text: wFull[wi[2]] + "b" + wFull[wi[3]]})
					emitDoc(r, items, c.name)
				}
			}
			return !r.Stopped()
		})
	}
	// characters that are blank to Unicode but not to the template language, inside and at the edges of the runs
	wU := []string{"", "\u00a0", " \u00a0", "\u00a0 \n", "\n\u2003\t", "\v ", "\u0085", " \f"}
	r.Group("unicode-blanks", "c15.doc", fmt.Sprintf("a W C W b with W over %d runs that mix the four whitespace characters with U+00A0, U+2003, U+0085, VT and FF (none of which is whitespace for `-`, TrimBlocks or LStripBlocks), every dash subset, body whitespace over the same runs (diagonal), all 4 option settings", len(wU)))
	for _, c := range cs {
		enum.Tuples(len(wU), 2, func(wi []int) bool {
			for mask := 0; mask < 1<<c.nd; mask++ {
				for bi := range wU {
					if c.nd != 4 && bi > 0 {
						break
					}
					var items []item
					items = append(items, item{text: "a" + wU[wi[0]]})
					items = append(items, c.items(flags(mask, c.nd), wU[bi], wU[(bi+3)%len(wU)])...)
					items = append(items, item{text: wU[wi[1]] + "b"})
					emitDoc(r, items, c.name)
				}
			}
			return !r.Stopped()
		})
	}
	w2 := []string{"", " ", "\n", " \n\t ", "\r"}
	r.Group("two-constructs", "c15.doc", "W C1 W C2 W (and with text between) with W over 4 runs, all construct pairs, every dash subset of C1 x {none, all} of C2 (and vice versa), 4 option settings")
	blank := func(c construct) bool { return strings.HasSuffix(c.name, "-blank") }
	simple := func(c construct) bool { return c.name == "set" || c.name == "var" || blank(c) }
	for _, c1 := range cs {
		for _, c2 := range cs {
			if (blank(c1) && !simple(c2)) || (blank(c2) && !simple(c1)) {
				continue // the whitespace-only bodies are paired with the body-less constructs and with each other
			}
			enum.Tuples(len(w2), 3, func(wi []int) bool {
				for _, mid := range []string{"", "m"} {
					seen := map[[2]int]bool{}
					var pairs [][2]int
					add := func(m1, m2 int) {
						if !seen[[2]int{m1, m2}] {
							seen[[2]int{m1, m2}] = true
							pairs = append(pairs, [2]int{m1, m2})
						}
					}
					for m1 := 0; m1 < 1<<c1.nd; m1++ {
						add(m1, 0)
						add(m1, 1<<c2.nd-1)
					}
					for m2 := 0; m2 < 1<<c2.nd; m2++ {
						add(0, m2)
						add(1<<c1.nd-1, m2)
					}
					for _, pr := range pairs {
						var items []item
						items = append(items, item{text: w2[wi[0]]})
						items = append(items, c1.items(flags(pr[0], c1.nd), " ", "\n")...)
						items = append(items, item{text: w2[wi[1]] + mid + w2[wi[1]]})
						items = append(items, c2.items(flags(pr[1], c2.nd), "\n", " ")...)
						items = append(items, item{text: w2[wi[2]]})
						emitDoc(r, items, c1.name+"+"+c2.name)
					}
				}
				return !r.Stopped()
			})
		}
	}
	// the document as the overriding block of a child template (the base carries no strippable whitespace)
	r.Group("inheritance", "c15.doc", "the one-construct documents (W over 5 runs) as the body of a block that overrides a block of an extended base, served from a loader; options switched on on the set before compiling and on the compiled child afterwards")
	const baseSrc = "[{% block a %}x{% endblock %}|{% block z %}z{% endblock %}]"
	for _, c := range cs {
		enum.Tuples(len(w2), 4, func(wi []int) bool {
			for mask := 0; mask < 1<<c.nd; mask++ {
				if r.Quick() && c.nd == 4 && mask != 0 && mask != 15 && mask != 5 && mask != 10 {
					continue
				}
				items := []item{{tag: `extends "base"`, block: true}, {tag: "block a", block: true}}
				items = append(items, item{text: w2[wi[0]] + "a" + w2[wi[1]]})
				items = append(items, c.items(flags(mask, c.nd), "\n ", " \n")...)
				items = append(items, item{text: w2[wi[2]] + "b" + w2[wi[3]]})
				items = append(items, item{tag: "endblock", block: true})
				src := source(items)
				for opt := 1; opt < 4; opt++ {
					tb, ls := opt&1 != 0, opt&2 != 0
					twin := source(handStrip(items, tb, ls))
					for _, after := range []bool{false, true} {
						r.Do(&DocCase{Src: eng.Q(src), Twin: eng.Q(twin), TrimBlocks: tb, LStrip: ls, Kind: "inherit:" + c.name, Base: baseSrc, OptsAfter: after})
					}
				}
			}
			return !r.Stopped()
		})
	}
	// the options are on for the whole set: the text of the base template of an executed child, and of the body of an
	// imported macro, is text after / before block tags like any other
	r.Group("options-foreign-text", "c15.doc", "W a W C W b W (W over 5 runs, no dash markers) written in the BASE template of an executed child and in the body of an imported macro, TrimBlocks / LStripBlocks switched on on the set (3 settings): equal to the hand-stripped base / library")
	for _, c := range cs {
		enum.Tuples(len(w2), 4, func(wi []int) bool {
			var doc []item
			doc = append(doc, item{text: w2[wi[0]] + "a" + w2[wi[1]]})
			doc = append(doc, c.items(flags(0, c.nd), "\n ", " \n")...)
			doc = append(doc, item{text: w2[wi[2]] + "b" + w2[wi[3]]})
			base := append([]item{{text: "["}}, doc...)
			base = append(base, item{tag: "block z", block: true}, item{text: "z"}, item{tag: "endblock", block: true}, item{text: "]"})
			child := `{% extends "base" %}{% block z %}Z{% endblock %}`
			lib := append([]item{{tag: "macro m() export", block: true}}, doc...)
			lib = append(lib, item{tag: "endmacro", block: true})
			main := `{% import "lib" m %}[{{ m() }}]`
			for opt := 1; opt < 4; opt++ {
				tb, ls := opt&1 != 0, opt&2 != 0
				r.Do(&DocCase{Src: eng.Q(child), Twin: eng.Q(child), Kind: "options-base:" + c.name, Base: eng.Q(source(base)), TwinBase: eng.Q(source(handStrip(base, tb, ls))), TrimBlocks: tb, LStrip: ls})
				r.Do(&DocCase{Src: eng.Q(main), Twin: eng.Q(main), Kind: "options-lib:" + c.name, Lib: eng.Q(source(lib)), TwinLib: eng.Q(source(handStrip(lib, tb, ls))), TrimBlocks: tb, LStrip: ls})
			}
			return !r.Stopped()
		})
	}
	// ExecuteBlocks: a block of the child and a block only the base has, both with whitespace, options on the set
	r.Group("execute-blocks", "c15.doc", "ExecuteBlocks on a child for its own block and a block only the base defines, both holding W a W C W b W (W over 5 runs, dash subsets none / all / alternating), options on the set (3 settings): each block equals the block of the hand-stripped templates")
	for _, c := range cs {
		enum.Tuples(len(w2), 4, func(wi []int) bool {
			for _, mask := range []int{0, 1<<c.nd - 1, 5 & (1<<c.nd - 1), 10 & (1<<c.nd - 1)} {
				doc := func(a, b string) []item {
					var d []item
					d = append(d, item{text: w2[wi[0]] + a + w2[wi[1]]})
					d = append(d, c.items(flags(mask, c.nd), "\n ", " \n")...)
					return append(d, item{text: w2[wi[2]] + b + w2[wi[3]]})
				}
				child := []item{{tag: `extends "base"`, block: true}, {tag: "block a", block: true}}
				child = append(append(child, doc("a", "b")...), item{tag: "endblock", block: true})
				base := []item{{text: "["}, {tag: "block a", block: true}, {text: "x"}, {tag: "endblock", block: true}, {text: "|"}, {tag: "block d", block: true}}
				base = append(append(base, doc("p", "q")...), item{tag: "endblock", block: true}, item{text: "]"})
				for opt := 1; opt < 4; opt++ {
					tb, ls := opt&1 != 0, opt&2 != 0
					r.Do(&DocCase{Src: eng.Q(source(child)), Twin: eng.Q(source(handStrip(child, tb, ls))), Base: eng.Q(source(base)), TwinBase: eng.Q(source(handStrip(base, tb, ls))),
						TrimBlocks: tb, LStrip: ls, Kind: "blocks:" + c.name, Blocks: true})
				}
			}
			return !r.Stopped()
		})
	}
	// dash markers written in a template other than the executed one: the base of an inheritance chain, an imported macro
	r.Group("foreign-dashes", "c15.doc", "W a W C W b W (W over 5 runs, every dash subset) written in the BASE template of a child that overrides another block, and in the body of a macro that the executed template imports; options off")
	for _, c := range cs {
		enum.Tuples(len(w2), 4, func(wi []int) bool {
			for mask := 1; mask < 1<<c.nd; mask++ {
				if r.Quick() && c.nd == 4 && mask != 15 && mask != 5 && mask != 10 && mask != 1 && mask != 8 {
					continue
				}
				var doc []item
				doc = append(doc, item{text: w2[wi[0]] + "a" + w2[wi[1]]})
				doc = append(doc, c.items(flags(mask, c.nd), "\n ", " \n")...)
				doc = append(doc, item{text: w2[wi[2]] + "b" + w2[wi[3]]})
				// (1) in the base
				base := append([]item{{text: "["}}, doc...)
				base = append(base, item{tag: "block z", block: true}, item{text: "z"}, item{tag: "endblock", block: true}, item{text: "]"})
				child := `{% extends "base" %}{% block z %}Z{% endblock %}`
				r.Do(&DocCase{Src: eng.Q(child), Twin: eng.Q(child), Kind: "foreign-base:" + c.name, Base: eng.Q(source(base)), TwinBase: eng.Q(source(handStrip(base, false, false)))})
				// (2) in an imported macro
				lib := append([]item{{tag: "macro m() export", block: true}}, doc...)
				lib = append(lib, item{tag: "endmacro", block: true})
				main := `{% import "lib" m %}[{{ m() }}]`
				r.Do(&DocCase{Src: eng.Q(main), Twin: eng.Q(main), Kind: "foreign-lib:" + c.name, Lib: eng.Q(source(lib)), TwinLib: eng.Q(source(handStrip(lib, false, false)))})
			}
			return !r.Stopped()
		})
	}
	// verbatim blocks as neighbours of the literal text: the text next to them is literal text like any other
	r.Group("verbatim-boundary", "c15.doc", "a W V W C W V W b (V a verbatim block with a body that starts and ends with blanks, W next to C over 4 runs, every construct with every dash subset, all 4 option settings): the text between a verbatim block and a construct is trimmed like any other, the block's body never")
	{
		w4 := []string{"", " ", "\n", " \n\t "}
		vb := item{comment: true, verb: " \n v \n "}
		for _, c := range cs {
			enum.Tuples(len(w4), 2, func(wi []int) bool {
				for mask := 0; mask < 1<<c.nd; mask++ {
					items := []item{{text: "a "}, vb, {text: w4[wi[0]]}}
					items = append(items, c.items(flags(mask, c.nd), "\n ", " \n")...)
					items = append(items, item{text: w4[wi[1]]}, vb, item{text: " b"})
					emitDoc(r, items, "verbatim:"+c.name)
					// and with some text between
					items2 := []item{{text: "a"}, vb, {text: w4[wi[0]] + "x" + w4[wi[0]]}}
					items2 = append(items2, c.items(flags(mask, c.nd), "\n ", " \n")...)
					items2 = append(items2, item{text: w4[wi[1]] + "y" + w4[wi[1]]}, vb)
					emitDoc(r, items2, "verbatim:"+c.name)
				}
				return !r.Stopped()
			})
		}
	}
	// comments between the whitespace and the construct: only the literal text directly next to a marker is affected
	r.Group("comment-neighbours", "c15.doc", "W a W {# c #} W C W {# c #} W b W with W over 3 runs, every construct with dash subsets, all 4 option settings: a comment ends the adjacent literal text (the whitespace on its far side stays)")
	{
		w3 := []string{" ", "\n", " \t\n "}
		for _, c := range cs {
			enum.Tuples(len(w3), 4, func(wi []int) bool {
				for mask := 0; mask < 1<<c.nd; mask++ {
					if c.nd == 4 && mask != 0 && mask != 15 && mask != 5 && mask != 10 && mask != 1 && mask != 8 && (r.Quick() || mask%3 != 0) {
						continue
					}
					var doc []item
					doc = append(doc, item{text: "a" + w3[wi[0]]}, item{comment: true}, item{text: w3[wi[1]]})
					doc = append(doc, c.items(flags(mask, c.nd), "\n ", " \n")...)
					doc = append(doc, item{text: w3[wi[2]]}, item{comment: true}, item{text: w3[wi[3]] + "b"})
					emitDoc(r, doc, "comments:"+c.name)
				}
				return !r.Stopped()
			})
		}
	}
	// options switched on on one template must not reach another template of the same set
	r.Group("options-isolation", "c15.doc", "the one-construct documents (W over 5 runs, no dashes) rendered before and after TrimBlocks/LStripBlocks were switched on on ANOTHER compiled template of the same set, and compiled again afterwards")
	for _, c := range cs {
		enum.Tuples(len(w2), 4, func(wi []int) bool {
			var doc []item
			doc = append(doc, item{text: w2[wi[0]] + "a" + w2[wi[1]]})
			doc = append(doc, c.items(flags(0, c.nd), "\n ", " \n")...)
			doc = append(doc, item{text: w2[wi[2]] + "b" + w2[wi[3]]})
			src := source(doc)
			for opt := 1; opt < 4; opt++ {
				r.Do(&DocCase{Src: eng.Q(src), Twin: eng.Q(src), TrimBlocks: opt&1 != 0, LStrip: opt&2 != 0, Kind: "isolation:" + c.name, Isolate: true})
			}
			return !r.Stopped()
		})
	}
	r.Group("options-update", "c15.doc", "the one-construct documents (W over 5 runs, no dashes): ONE compiled template walked through TT, FT, TF, FF with Template.Options.Update, each rendering compared with the source hand-stripped for that setting; the same walk with the SET's options changed between calls of RenderTemplateFile / RenderTemplateString / FromFile")
	for _, c := range cs {
		enum.Tuples(len(w2), 4, func(wi []int) bool {
			var doc []item
			doc = append(doc, item{text: w2[wi[0]] + "a" + w2[wi[1]]})
			doc = append(doc, c.items(flags(0, c.nd), "\n ", " \n")...)
			doc = append(doc, item{text: w2[wi[2]] + "b" + w2[wi[3]]})
			var twins []eng.Q
			for _, st := range [][2]bool{{true, true}, {false, true}, {true, false}, {false, false}} {
				twins = append(twins, eng.Q(source(handStrip(doc, st[0], st[1]))))
			}
			r.Do(&DocCase{Src: eng.Q(source(doc)), TrimBlocks: true, LStrip: true, Kind: "options-update:" + c.name, ViaUpdate: true, Twins: twins})
			// and the set's own options changed between calls of its rendering shortcuts for the same file
			r.Do(&DocCase{Src: eng.Q(source(doc)), TrimBlocks: true, LStrip: true, Kind: "set-options-changed:" + c.name, ViaRenderFile: true, Twins: twins})
			return !r.Stopped()
		})
	}
	n := 6
	if r.Quick() {
		n = 5
	}
	frs := []string{"<a>", "</a>", "<br/>", "x", " ", "\n\t", "->", "< 2", "<a\nhref=\"x\">"}
	r.Group("spaceless", "c15.spaceless", fmt.Sprintf("all sequences of <=%d fragments over %q as the body of spaceless (literal and rendered from a variable)", n, frs))
	enum.Strings(frs, n, func(s string, _ []int) bool {
		r.Do(&SpacelessCase{Body: eng.Q(s)})
		return !r.Stopped()
	})
}

func init() {
	eng.RegisterCase("c15.doc", func() eng.Case { return &DocCase{} })
	eng.RegisterCase("c15.spaceless", func() eng.Case { return &SpacelessCase{} })
	eng.Register(&eng.Check{
		ID:    "C15",
		Title: "Whitespace control removes exactly the whitespace it names",
		Rule: "bounded-exhaustive documents whose literal text carries whitespace runs around constructs with every subset of dash markers, under all four TrimBlocks x LStripBlocks settings, first render of a fresh compile; the oracle is metamorphic: the output must equal the output of the source from which the generator (which knows where every whitespace run is) deleted the named whitespace by hand and removed all markers and options. spaceless: every fragment sequence up to the bound (tags, text, whitespace, stray '->' and '< 2') against 'delete the runs that lie directly between the end of one tag and the start of the next'; bodies whose stray brackets make two readings of 'tag' disagree are skipped. " +
			"Non-trivial: the document carries a marker or an option is on (docs) / the reference actually removes something (spaceless). Cases deduplicated by source+options.",
		Assumptions: []string{
			"a dash deletes the maximal run of space, tab, CR, LF of the adjacent literal text; TrimBlocks one LF that is the first byte after %}; LStripBlocks the trailing spaces/tabs before {% (variable tags are not block tags)",
			"a comment ends the literal text on both of its sides and is neither a block tag nor a carrier of dash markers",
		},
		Run: run,
	})
}
