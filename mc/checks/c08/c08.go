// Package c08: names resolve through maps, sequences, structs, pointers, methods, calls.
package c08

import (
	"errors"
	"fmt"
	"sort"
	"strconv"
	"strings"

	"github.com/flosch/pongo2/v6"

	"verifmc/internal/eng"
	"verifmc/internal/px"
)

// ---------- Go side: the object graph handed to the engine ----------

type Leaf struct {
	Name   string
	N      int
	secret string
	Tags   []string
	Cnt    map[string]int
}

func (l Leaf) Upper() string    { return strings.ToUpper(l.Name) }
func (l *Leaf) PtrOnly() string { return "ptr:" + l.Name }
func (l Leaf) Add(a, b int) int { return a + b + l.N }
func (l Leaf) Sum(xs ...int) int {
	s := 0
	for _, x := range xs {
		s += x
	}
	return s
}
func (l Leaf) Greet(s string) string { return "hi " + s }
func (l Leaf) MayFail(fail bool) (string, error) {
	if fail {
		return "", errors.New("leaf failure")
	}
	return "fine", nil
}
func (l Leaf) ViaValue(v *pongo2.Value) string { return "v:" + v.String() }
func (l Leaf) WithCtx(ctx *pongo2.ExecutionContext, s string) string {
	return fmt.Sprintf("ctx(%v):%s", ctx != nil, s)
}
func (l Leaf) GetLeaf() Leaf           { return Leaf{Name: "made", N: 7} }
func (l Leaf) GetValue() *pongo2.Value { return pongo2.AsValue("wrapped") }
func (l Leaf) AnyArg(x any) string     { return fmt.Sprintf("any:%v", x) }

type Root struct {
	In    Leaf
	P     *Leaf
	NilP  *Leaf
	Iface any
	L     []Leaf
	A     [2]int
	M     map[string]Leaf
	IM    map[int]string
	F     func(int) int
	S     string
	Zero  int
	PP    **Leaf
}

type stringerT int

func (s stringerT) String() string { return fmt.Sprintf("S%d", int(s)) }

func goRoot() *Root {
	leaf := &Leaf{Name: "pl", N: 2, secret: "hidden", Tags: []string{"t0", "t1"}, Cnt: map[string]int{"x": 1}}
	return &Root{
		In:    Leaf{Name: "in", N: 1, secret: "hidden", Tags: []string{"a"}, Cnt: map[string]int{"k": 9}},
		P:     leaf,
		Iface: Leaf{Name: "if", N: 3},
		L:     []Leaf{{Name: "l0", N: 10}, {Name: "l1", N: 11}},
		A:     [2]int{4, 5},
		M:     map[string]Leaf{"k": {Name: "mk", N: 20}, "Name": {Name: "keyNamedName"}},
		IM:    map[int]string{1: "one", 2: "two"},
		F:     func(i int) int { return i * 2 },
		S:     "str",
		PP:    &leaf,
	}
}

func goCtx() pongo2.Context {
	r := goRoot()
	return pongo2.Context{
		"r":    r,         // pointer to struct
		"rv":   *goRoot(), // struct by value
		"m":    map[string]any{"a": 1, "s": "ms", "nested": map[string]any{"deep": []int{7, 8}}, "nilv": nil, "leaf": Leaf{Name: "ml"}},
		"im":   map[int]string{1: "one", 2: "two"},
		"l":    []any{"e0", 1, []string{"x", "y"}, nil},
		"arr":  [3]string{"a0", "a1", "a2"},
		"s":    "héllo",
		"i":    42,
		"nilv": nil,
		"k":    "a",
		"ki":   1,
		"kneg": -1, "kneg2": int64(-2),
		"kbad": 3.5,
		"f0":   func() string { return "f0!" },
		"f2":   func(a int, b string) string { return fmt.Sprintf("%d-%s", a, b) },
		"fvar": func(p string, xs ...int) string { return fmt.Sprintf("%s%v", p, xs) },
		"ferr": func(fail bool) (int, error) {
			if fail {
				return 0, errors.New("ferr failed")
			}
			return 5, nil
		},
		"fval": func(v *pongo2.Value) *pongo2.Value { return pongo2.AsValue("got:" + v.String()) },
		"fctx": func(ctx *pongo2.ExecutionContext) string { return "implicit" },
		"fstr": func(s fmt.Stringer) string { return "stringer:" + s.String() },
		"stg":  stringerT(3),
		"fmap": func() map[string]int { return map[string]int{"z": 26} },
		"val":  pongo2.AsValue(map[string]any{"inner": "viaValue"}),
		// maps whose key type is not plain string
		"am":   map[any]any{"a": "any-a", "k": 7},
		"cm":   map[colorT]string{"a": "color-a", "red": "R"},
		"nm":   namedMapT{"a": 11, "zz9": 12},
		"qm":   queryT{"a": "qa", "k": "qk"},
		"cel":  celsiusT(100),
		"nms":  namesT{"n0", "n1"},
		"usr":  userT{baseT{7, "root"}, "u-name"},
		// struct types without a name (and two different types both called "row" in their functions) whose fields of
		// the same name sit at different positions
		"an1": struct {
			Name string
			ID   int
		}{"n1", 1},
		"an2": struct {
			ID   int
			Name string
		}{2, "n2"},
		"an3":  struct{ Name int }{33},
		"row1": localRow1(), "row2": localRow2(),
		"usrp": &userT{baseT{8, "admin"}, "up-name"},
		"usrq": userPT{&baseT{9, "ptr"}, "uq-name"},
		// implicit execution context in front of 3, 5 and 7 written arguments
		"fc3": func(ctx *pongo2.ExecutionContext, a int, b string, c int) string {
			return fmt.Sprintf("%d/%s/%d", a, b, c)
		},
		"fc5": func(ctx *pongo2.ExecutionContext, a, b, c, d, e int) string {
			return fmt.Sprintf("%d%d%d%d%d", a, b, c, d, e)
		},
		"fc7": func(ctx *pongo2.ExecutionContext, a, b, c, d, e, f, g int) int {
			return a + 2*b + 3*c + 4*d + 5*e + 6*f + 7*g
		},
		"two": []int{1, 2},
		// callables that panic: with a string, with an error value, with a custom value; and one whose typed
		// pointer parameter receives nil (the reflective call itself panics)
		"fps": func() string { panic("panic with a plain string") },
		"fpe": func() string { panic(errors.New("panic with an error value")) },
		"fpc": func(i int) string { panic(struct{ Code int }{i}) },
		"fpp": func(p *Leaf) string { return p.Name },
	}
}

type codeErr struct{ Code int }

func (e *codeErr) Error() string { return fmt.Sprint("code ", e.Code) }

func localRow1() any {
	type row struct {
		Name string
		ID   int
	}
	return row{"r1", 11}
}

func localRow2() any {
	type row struct {
		By   string
		ID   int
		Name string
	}
	return row{"b2", 22, "r2"}
}

type colorT string
type namedMapT map[string]int

// named non-struct types that carry methods (like url.Values, time.Duration, sort.StringSlice)
type queryT map[string]string

func (q queryT) Fetch(k string) string { return "q:" + q[k] }
func (q queryT) Size() int             { return len(q) }

type celsiusT int

func (c celsiusT) Fahrenheit() int     { return int(c)*9/5 + 32 }
func (c celsiusT) Plus(d int) celsiusT { return c + celsiusT(d) }

type namesT []string

func (n namesT) Joined(sep string) string { return strings.Join(n, sep) }

// fields promoted through an embedded struct of an unexported type (by value and by pointer)
type baseT struct {
	ID int
	By string
}
type userT struct {
	baseT
	Name string
}
type userPT struct {
	*baseT
	Name string
}

// ---------- model side ----------

type Node struct {
	K       string // nil int str bool map imap seq struct func
	P       string // printed form (for scalars)
	Len     int
	Map     map[string]*Node
	IMap    map[int]*Node
	Seq     []*Node
	Hidden  []string         // unexported fields
	Methods map[string]*Func // methods reachable by an identifier step (on this receiver kind)
	Fn      *Func
	IsPtr   bool // the Go value is a pointer (pointer-receiver methods exist)
	PtrMeth map[string]*Func
	// DynKey: map keys that equal method names etc. are left open
}

type Func struct {
	Params   []string                         // int str bool value any
	Variadic bool                             // last param repeats
	Call     func(args []*Node) (*Node, bool) // result, failed
}

func nInt(i int) *Node      { return &Node{K: "int", P: strconv.Itoa(i)} }
func nStr(s string) *Node   { return &Node{K: "str", P: s, Len: len([]rune(s))} }
func nNil() *Node           { return &Node{K: "nil"} }
func nSeq(e ...*Node) *Node { return &Node{K: "seq", Seq: e, Len: len(e)} }
func nMap(kv ...any) *Node {
	n := &Node{K: "map", Map: map[string]*Node{}}
	for i := 0; i+1 < len(kv); i += 2 {
		n.Map[kv[i].(string)] = kv[i+1].(*Node)
	}
	n.Len = len(n.Map)
	return n
}

func argInt(n *Node) int { i, _ := strconv.Atoi(n.P); return i }

func leafMethods(name string, N int) map[string]*Func {
	return map[string]*Func{
		"Upper": {Call: func(a []*Node) (*Node, bool) { return nStr(strings.ToUpper(name)), false }},
		"Add":   {Params: []string{"int", "int"}, Call: func(a []*Node) (*Node, bool) { return nInt(argInt(a[0]) + argInt(a[1]) + N), false }},
		"Sum": {Params: []string{"int"}, Variadic: true, Call: func(a []*Node) (*Node, bool) {
			s := 0
			for _, x := range a {
				s += argInt(x)
			}
			return nInt(s), false
		}},
		"Greet": {Params: []string{"str"}, Call: func(a []*Node) (*Node, bool) { return nStr("hi " + a[0].P), false }},
		"MayFail": {Params: []string{"bool"}, Call: func(a []*Node) (*Node, bool) {
			if a[0].P == "True" {
				return nil, true
			}
			return nStr("fine"), false
		}},
		"ViaValue": {Params: []string{"value"}, Call: func(a []*Node) (*Node, bool) { return nStr("v:" + a[0].P), false }},
		"WithCtx":  {Params: []string{"str"}, Call: func(a []*Node) (*Node, bool) { return nStr("ctx(true):" + a[0].P), false }},
		"GetLeaf":  {Call: func(a []*Node) (*Node, bool) { return leafNode("made", 7, nil, nil, false), false }},
		"GetValue": {Call: func(a []*Node) (*Node, bool) { return nStr("wrapped"), false }},
		"AnyArg": {Params: []string{"any"}, Call: func(a []*Node) (*Node, bool) {
			p := a[0].P
			if a[0].K == "bool" {
				p = strings.ToLower(p) // Go's %v
			}
			return nStr("any:" + p), false
		}},
	}
}

func leafNode(name string, N int, tags []string, cnt map[string]int, isPtr bool) *Node {
	n := &Node{K: "struct", Map: map[string]*Node{}, Hidden: []string{"secret"}, Methods: leafMethods(name, N), IsPtr: isPtr}
	n.Map["Name"] = nStr(name)
	n.Map["N"] = nInt(N)
	var ts []*Node
	for _, t := range tags {
		ts = append(ts, nStr(t))
	}
	n.Map["Tags"] = nSeq(ts...)
	c := &Node{K: "map", Map: map[string]*Node{}}
	for k, v := range cnt {
		c.Map[k] = nInt(v)
	}
	c.Len = len(cnt)
	n.Map["Cnt"] = c
	if isPtr {
		n.PtrMeth = map[string]*Func{"PtrOnly": {Call: func(a []*Node) (*Node, bool) { return nStr("ptr:" + name), false }}}
	}
	return n
}

func rootNode(isPtr bool) *Node {
	n := &Node{K: "struct", Map: map[string]*Node{}, IsPtr: isPtr}
	n.Map["In"] = leafNode("in", 1, []string{"a"}, map[string]int{"k": 9}, false)
	n.Map["P"] = leafNode("pl", 2, []string{"t0", "t1"}, map[string]int{"x": 1}, true)
	n.Map["NilP"] = nNil()
	n.Map["Iface"] = leafNode("if", 3, nil, nil, false)
	n.Map["L"] = nSeq(leafNode("l0", 10, nil, nil, false), leafNode("l1", 11, nil, nil, false))
	n.Map["A"] = nSeq(nInt(4), nInt(5))
	mm := &Node{K: "map", Map: map[string]*Node{"k": leafNode("mk", 20, nil, nil, false), "Name": leafNode("keyNamedName", 0, nil, nil, false)}, Len: 2}
	n.Map["M"] = mm
	n.Map["IM"] = &Node{K: "imap", IMap: map[int]*Node{1: nStr("one"), 2: nStr("two")}, Len: 2}
	n.Map["F"] = &Node{K: "func", Fn: &Func{Params: []string{"int"}, Call: func(a []*Node) (*Node, bool) { return nInt(argInt(a[0]) * 2), false }}}
	n.Map["S"] = nStr("str")
	n.Map["Zero"] = nInt(0)
	n.Map["PP"] = &Node{K: "opaque"} // **T: left open
	return n
}

func modelCtx() map[string]*Node {
	fn := func(params []string, variadic bool, call func(a []*Node) (*Node, bool)) *Node {
		return &Node{K: "func", Fn: &Func{Params: params, Variadic: variadic, Call: call}}
	}
	return map[string]*Node{
		"r":  rootNode(true),
		"rv": rootNode(false),
		"m": nMap("a", nInt(1), "s", nStr("ms"), "nested", nMap("deep", nSeq(nInt(7), nInt(8))), "nilv", nNil(),
			"leaf", leafNode("ml", 0, nil, nil, false)),
		"im":   {K: "imap", IMap: map[int]*Node{1: nStr("one"), 2: nStr("two")}, Len: 2},
		"l":    nSeq(nStr("e0"), nInt(1), nSeq(nStr("x"), nStr("y")), nNil()),
		"arr":  nSeq(nStr("a0"), nStr("a1"), nStr("a2")),
		"s":    nStr("héllo"),
		"i":    nInt(42),
		"nilv": nNil(),
		"k":    nStr("a"),
		"ki":   nInt(1),
		"kneg": nInt(-1), "kneg2": nInt(-2),
		"kbad": {K: "float", P: "3.500000"},
		"f0":   fn(nil, false, func(a []*Node) (*Node, bool) { return nStr("f0!"), false }),
		"f2":   fn([]string{"int", "str"}, false, func(a []*Node) (*Node, bool) { return nStr(a[0].P + "-" + a[1].P), false }),
		"fvar": fn([]string{"str", "int"}, true, func(a []*Node) (*Node, bool) {
			var xs []string
			for _, x := range a[1:] {
				xs = append(xs, x.P)
			}
			return nStr(a[0].P + "[" + strings.Join(xs, " ") + "]"), false
		}),
		"ferr": fn([]string{"bool"}, false, func(a []*Node) (*Node, bool) {
			if a[0].P == "True" {
				return nil, true
			}
			return nInt(5), false
		}),
		"fval": fn([]string{"value"}, false, func(a []*Node) (*Node, bool) { return nStr("got:" + a[0].P), false }),
		"fctx": fn(nil, false, func(a []*Node) (*Node, bool) { return nStr("implicit"), false }),
		"fstr": fn([]string{"stringer"}, false, func(a []*Node) (*Node, bool) { return nStr("stringer:" + a[0].P), false }),
		"stg":  {K: "stringer", P: "S3"},
		"fmap": fn(nil, false, func(a []*Node) (*Node, bool) { return nMap("z", nInt(26)), false }),
		"val":  nMap("inner", nStr("viaValue")),
		"am":   nMap("a", nStr("any-a"), "k", nInt(7)),
		"cm":   {K: "opaque"}, // a named string type as key: what a name step finds is left open (never a panic)
		"nm":   nMap("a", nInt(11), "zz9", nInt(12)),
		"qm": func() *Node {
			n := nMap("a", nStr("qa"), "k", nStr("qk"))
			n.Methods = map[string]*Func{
				"Fetch": {Params: []string{"str"}, Call: func(a []*Node) (*Node, bool) {
					v := map[string]string{"a": "qa", "k": "qk"}[a[0].P]
					return nStr("q:" + v), false
				}},
				"Size": {Call: func(a []*Node) (*Node, bool) { return nInt(2), false }},
			}
			return n
		}(),
		"cel": func() *Node {
			n := nInt(100)
			n.Methods = map[string]*Func{
				"Fahrenheit": {Call: func(a []*Node) (*Node, bool) { return nInt(212), false }},
				"Plus":       {Params: []string{"int"}, Call: func(a []*Node) (*Node, bool) { return nInt(100 + argInt(a[0])), false }},
			}
			return n
		}(),
		"nms": func() *Node {
			n := nSeq(nStr("n0"), nStr("n1"))
			n.Methods = map[string]*Func{"Joined": {Params: []string{"str"}, Call: func(a []*Node) (*Node, bool) { return nStr("n0" + a[0].P + "n1"), false }}}
			return n
		}(),
		"usr":  {K: "struct", Map: map[string]*Node{"ID": nInt(7), "By": nStr("root"), "Name": nStr("u-name")}, Hidden: []string{"baseT"}},
		"an1":  {K: "struct", Map: map[string]*Node{"Name": nStr("n1"), "ID": nInt(1)}},
		"an2":  {K: "struct", Map: map[string]*Node{"Name": nStr("n2"), "ID": nInt(2)}},
		"an3":  {K: "struct", Map: map[string]*Node{"Name": nInt(33)}},
		"row1": {K: "struct", Map: map[string]*Node{"Name": nStr("r1"), "ID": nInt(11)}},
		"row2": {K: "struct", Map: map[string]*Node{"Name": nStr("r2"), "ID": nInt(22), "By": nStr("b2")}},
		"usrp": {K: "struct", Map: map[string]*Node{"ID": nInt(8), "By": nStr("admin"), "Name": nStr("up-name")}, Hidden: []string{"baseT"}, IsPtr: true},
		"usrq": {K: "struct", Map: map[string]*Node{"ID": nInt(9), "By": nStr("ptr"), "Name": nStr("uq-name")}, Hidden: []string{"baseT"}},
		"fps":  fn(nil, false, func(a []*Node) (*Node, bool) { return nil, true }),
		"fpe":  fn(nil, false, func(a []*Node) (*Node, bool) { return nil, true }),
		"fpc":  fn([]string{"int"}, false, func(a []*Node) (*Node, bool) { return nil, true }),
		"fpp":  fn([]string{"leafptr"}, false, func(a []*Node) (*Node, bool) { return nil, true }), // no model value is a *Leaf: other kinds are errors, nil is left open
		"fc3":  fn([]string{"int", "str", "int"}, false, func(a []*Node) (*Node, bool) { return nStr(a[0].P + "/" + a[1].P + "/" + a[2].P), false }),
		"fc5": fn([]string{"int", "int", "int", "int", "int"}, false, func(a []*Node) (*Node, bool) {
			return nStr(a[0].P + a[1].P + a[2].P + a[3].P + a[4].P), false
		}),
		"fc7": fn([]string{"int", "int", "int", "int", "int", "int", "int"}, false, func(a []*Node) (*Node, bool) {
			sum := 0
			for i, x := range a {
				sum += (i + 1) * argInt(x)
			}
			return nInt(sum), false
		}),
	}
}

// ---------- paths ----------

type Step struct {
	Kind string   `json:"kind"` // name, index, call, sub-str, sub-int, sub-var
	S    string   `json:"s,omitempty"`
	I    int      `json:"i,omitempty"`
	Args []string `json:"args,omitempty"` // literal argument sources for a call
}

func (s Step) src() string {
	switch s.Kind {
	case "name":
		return "." + s.S
	case "index":
		return "." + strconv.Itoa(s.I)
	case "call":
		return "(" + strings.Join(s.Args, ", ") + ")"
	case "sub-str":
		return "[" + strconv.Quote(s.S) + "]"
	case "sub-int":
		return "[" + strconv.Itoa(s.I) + "]"
	case "sub-var":
		return "[" + s.S + "]"
	}
	return "?"
}

// outcome of the reference resolver
const (
	oVal  = "value"
	oErr  = "error"
	oSkip = "skip"
)

func argNode(src string, ctx map[string]*Node) *Node {
	switch {
	case src == "true":
		return &Node{K: "bool", P: "True"}
	case src == "false":
		return &Node{K: "bool", P: "False"}
	case strings.HasPrefix(src, `"`):
		u, _ := strconv.Unquote(src)
		return nStr(u)
	}
	if i, err := strconv.Atoi(src); err == nil {
		return nInt(i)
	}
	if n, ok := ctx[src]; ok {
		return n
	}
	return nNil()
}

func callFn(f *Func, args []*Node) (*Node, string) {
	np := len(f.Params)
	if f.Variadic {
		if len(args) < np-1 {
			return nil, oErr
		}
	} else if len(args) != np {
		return nil, oErr
	}
	for i, a := range args {
		pi := i
		if pi >= np {
			pi = np - 1
		}
		want := f.Params[pi]
		switch want {
		case "value":
			if a.P == "" && a.K != "str" && a.K != "nil" {
				return nil, oSkip
			}
		case "any":
			if a.K == "nil" {
				return nil, oSkip // nil into an interface parameter: left open
			}
			if a.P == "" && a.K != "str" {
				return nil, oSkip
			}
		case "stringer":
			if a.K == "nil" {
				return nil, oSkip
			}
			if a.K != "stringer" {
				return nil, oErr // the argument's type does not implement the interface
			}
		default:
			if a.K != want {
				if a.K == "nil" {
					return nil, oSkip // nil for a typed parameter: error or panic-guard, left open
				}
				return nil, oErr
			}
		}
	}
	res, failed := f.Call(args)
	if failed {
		return nil, oErr
	}
	return res, oVal
}

// resolve follows the steps through the model.
func resolve(first string, steps []Step, ctx map[string]*Node) (*Node, string) {
	cur, ok := ctx[first]
	if !ok {
		cur = nNil()
	}
	i := 0
	// a call directly on the first name
	for {
		// auto-call: a function value without parentheses is called with no arguments
		if cur.K == "func" {
			var args []*Node
			if i < len(steps) && steps[i].Kind == "call" {
				for _, a := range steps[i].Args {
					args = append(args, argNode(a, ctx))
				}
				i++
			}
			res, st := callFn(cur.Fn, args)
			if st != oVal {
				return nil, st
			}
			cur = res
			continue
		}
		if i >= len(steps) {
			return cur, oVal
		}
		st := steps[i]
		i++
		if st.Kind == "call" {
			if cur.K == "nil" {
				return nil, oSkip // calling a missing name / nil: empty or error, left open
			}
			return nil, oErr // calling something that is not a function
		}
		if cur.K == "nil" {
			return nNil(), oVal // nil along the way: empty, whatever follows
		}
		if cur.K == "opaque" {
			return nil, oSkip
		}
		switch st.Kind {
		case "name", "sub-str":
			name := st.S
			// methods (identifier steps only)
			if st.Kind == "name" {
				if f, ok := cur.Methods[name]; ok {
					if _, isKey := cur.Map[name]; cur.K == "map" && isKey {
						return nil, oSkip // a key that equals a method name: left open
					}
					cur = &Node{K: "func", Fn: f}
					continue
				}
				if f, ok := cur.PtrMeth[name]; ok && cur.IsPtr {
					cur = &Node{K: "func", Fn: f}
					continue
				}
			}
			switch cur.K {
			case "map":
				if _, isMeth := cur.Methods[name]; isMeth {
					return nil, oSkip
				}
				if n, ok := cur.Map[name]; ok {
					cur = n
				} else {
					cur = nNil()
				}
			case "imap":
				// a string key on an int-keyed map: nothing there
				cur = nNil()
			case "struct":
				if n, ok := cur.Map[name]; ok {
					cur = n
				} else {
					cur = nNil() // unknown or unexported field: empty
				}
			case "seq", "str":
				if st.Kind == "sub-str" {
					return nil, oSkip // a string subscript on a sequence (converted to an index): left open
				}
				return nil, oErr
			default: // scalar
				return nil, oErr
			}
		case "index", "sub-int":
			switch cur.K {
			case "seq":
				if st.I >= 0 && st.I < len(cur.Seq) {
					cur = cur.Seq[st.I]
				} else {
					cur = nNil()
				}
			case "str":
				return nil, oSkip // dot-index into a string: left open
			case "map":
				if st.Kind == "index" {
					return nil, oSkip // integer dot-step on a map: left open
				}
				cur = nNil() // int key on a string-keyed map: nothing there
			case "imap":
				if st.Kind == "index" {
					return nil, oSkip
				}
				if n, ok := cur.IMap[st.I]; ok {
					cur = n
				} else {
					cur = nNil()
				}
			case "struct":
				if st.Kind == "sub-int" {
					return nil, oSkip
				}
				return nil, oErr
			default:
				return nil, oErr
			}
		}
	}
}

// ---------- the case ----------

type Case struct {
	First  string `json:"first"`
	Steps  []Step `json:"steps"`
	Sink   string `json:"sink"`             // print, length, if
	SubVar string `json:"subvar,omitempty"` // for sub-var steps: which context variable holds the key
}

func (c *Case) path() string {
	var b strings.Builder
	b.WriteString(c.First)
	for _, s := range c.Steps {
		b.WriteString(s.src())
	}
	return b.String()
}

func (c *Case) ID() string { return c.Sink + ": " + c.path() }

func (c *Case) Exec(t *eng.T) {
	model := modelCtx()
	// sub-var steps are resolved to their literal meaning for the reference
	steps := make([]Step, len(c.Steps))
	copy(steps, c.Steps)
	for i, s := range steps {
		if s.Kind == "sub-var" {
			kv := model[s.S]
			switch {
			case kv == nil || kv.K == "nil":
				steps[i] = Step{Kind: "sub-nil"}
			case kv.K == "str":
				steps[i] = Step{Kind: "sub-str", S: kv.P}
			case kv.K == "int":
				steps[i] = Step{Kind: "sub-int", I: argInt(kv)}
			default:
				steps[i] = Step{Kind: "sub-other"}
			}
		}
	}
	var want *Node
	status := oVal
	skip := false
	for _, s := range steps {
		if s.Kind == "sub-nil" || s.Kind == "sub-other" {
			skip = true
		}
	}
	if skip {
		status = oSkip
	} else {
		want, status = resolve(c.First, steps, model)
	}
	p := c.path()
	var src string
	switch c.Sink {
	case "print":
		src = "[{{ " + p + " }}]"
	case "length":
		src = "[{{ " + p + "|length }}]"
	case "if":
		src = "[{% if " + p + " %}T{% else %}F{% endif %}]"
	case "repeat":
		// the same written expression evaluated three times (two loop passes, then once more by a second
		// execution of the compiled template)
		src = "{% for q in two %}[{{ " + p + " }}]{% endfor %}"
	}
	out := px.Render(nil, src, goCtx())
	if c.Sink == "repeat" && !out.Failed() {
		if tpl, o1 := px.Compile(pongo2.NewSet("c08-repeat", pongo2.MustNewLocalFileSystemLoader("")), src); tpl != nil {
			px.Exec(tpl, goCtx())
			if o2 := px.Exec(tpl, goCtx()); o2.String() != out.String() {
				t.Fail("resolve:second-execution-differs", "%s renders %s on the second execution of the compiled template and %s on the first", src, o2, out)
				return
			}
		} else {
			_ = o1
		}
	}
	t.Outcome(out.Kind())
	if out.Panic != "" {
		t.Fail("resolve:panic:"+out.Panic, "%s panics: %s", src, out.PanicMsg)
		return
	}
	if out.Compile && out.Err != "" {
		t.Skip() // the form is not in the grammar (e.g. a subscript that is not the last step)
		return
	}
	if status == oSkip {
		t.Skip()
		return
	}
	t.Nontrivial()
	kind := func(n *Node) string {
		if n == nil {
			return "-"
		}
		return n.K
	}
	if status == oErr {
		if out.Err == "" {
			t.Fail("resolve:no-error:"+c.Sink, "%s renders %q; the reference resolver expects an execution error (wrong arity/type, indexing a scalar)", src, out.S)
		}
		return
	}
	if out.Err != "" {
		t.Fail("resolve:error:"+c.Sink+":"+kind(want), "%s fails: %s; the reference resolves it to a %s value", src, out.Err, kind(want))
		return
	}
	var exp string
	switch c.Sink {
	case "print":
		switch want.K {
		case "nil":
			exp = "[]"
		case "int", "str", "bool", "float":
			exp = "[" + want.P + "]"
		default:
			return // printed form of collections/structs/funcs is not specified
		}
	case "repeat":
		switch want.K {
		case "nil":
			exp = "[][]"
		case "int", "str", "bool", "float":
			exp = "[" + want.P + "][" + want.P + "]"
		default:
			return
		}
	case "length":
		switch want.K {
		case "str", "seq", "map", "imap":
			exp = "[" + strconv.Itoa(want.Len) + "]"
		case "nil", "int", "bool", "struct":
			exp = "[0]"
		default:
			return
		}
	case "if":
		tr := false
		switch want.K {
		case "int":
			tr = want.P != "0"
		case "float":
			tr = true
		case "str", "seq", "map", "imap":
			tr = want.Len > 0
		case "bool":
			tr = want.P == "True"
		case "struct":
			tr = true
		case "nil":
			tr = false
		default:
			return
		}
		exp = "[F]"
		if tr {
			exp = "[T]"
		}
	}
	if out.S != exp {
		t.Fail("resolve:value:"+c.Sink+":"+kind(want), "%s renders %q; following the steps through the context gives %q", src, out.S, exp)
	}
}

// ---------- shadowing: tag scope > context > globals ----------

// TagBoundCase: names bound by tags from OTHER names of the surrounding scope (every right-hand side is evaluated
// where the tag is written) and paths through them.
type TagBoundCase struct {
	Src  string `json:"src"`
	Want string `json:"want"`
}

func (c *TagBoundCase) ID() string { return "tag-bound: " + c.Src }

func (c *TagBoundCase) Exec(t *eng.T) {
	t.Nontrivial()
	one, two := 1, uint8(2)
	ctx := pongo2.Context{"x": map[string]any{"v": "X"}, "y": map[string]any{"v": "Y"}, "z": map[string]any{"v": "Z"}, "l": []string{"l0", "l1", "l2"}, "pk": &one, "pk8": &two, "arr": [3]int{10, 11, 12}, "s": "héllo",
		// typed nil values handed to parameters of exactly their type
		"np": (*Leaf)(nil), "lp": &Leaf{Name: "L"}, "nm": map[string]int(nil), "ns": []string(nil),
		"fnil": func(p *Leaf) string {
			if p == nil {
				return "nil-leaf"
			}
			return p.Name
		},
		"fmapn": func(m map[string]int) int { return len(m) }, "fsln": func(l []string) int { return len(l) },
		"fany": func(a any) string { return fmt.Sprint(a == nil) },
		"fvar": func(ps ...*Leaf) int { return len(ps) },
		"add2": func(a, b int) int { return a + b }, "one": func(a int) int { return a },
		"an1": struct {
			Name string
			ID   int
		}{"n1", 1},
		"an2": struct {
			ID   int
			Name string
		}{2, "n2"},
		"an3":  struct{ Name int }{33},
		"row1": localRow1(), "row2": localRow2(),
		// functions whose second result is a concrete error type: a nil pointer of it is "no error"
		// *pongo2.Value behind an interface inside a container, with further steps behind it
		"vitems": []any{1, pongo2.AsValue(map[string]any{"n": 7, "l": []int{4, 5}})},
		"vrow":   map[string]any{"cell": pongo2.AsValue(struct{ N int }{8})},
		"vbox":   struct{ Payload any }{pongo2.AsValue([]string{"p0", "p1"})},
		"fte":    func() (string, *codeErr) { return "ok", nil },
		"ftef": func() (string, *codeErr) { return "", &codeErr{Code: 7} }}
	out := px.Render(nil, c.Src, ctx)
	t.Outcome(out.String())
	if c.Want == "ERROR" {
		if !out.Failed() || out.Panic != "" {
			t.Fail("resolve:no-error", "%s renders %s; it must be a compile or execution error (wrong number of arguments / not callable)", c.Src, out)
		}
		return
	}
	if out.Failed() || out.S != c.Want {
		t.Fail("resolve:tag-bound", "%s renders %s, want %q", c.Src, out, c.Want)
	}
}

type ShadowCase struct {
	Mask int `json:"mask"` // bit0 globals, bit1 context, bit2 tag scope (with), bit3 tag scope (set)
	// for the omitted macro parameter (bit4): the scope that defines and calls the macro binds the name as well
	// (1 = set, 2 = with), and the parameter may have a default
	Outer   int  `json:"outer,omitempty"`
	Default bool `json:"default,omitempty"`
	// Inc: the name is read inside an included file (1 = static include, 2 = name computed at run time), which sees
	// the includer's names with the same precedence
	Inc int `json:"inc,omitempty"`
}

func (c *ShadowCase) ID() string {
	return fmt.Sprintf("shadow mask=%04b outer=%d default=%v inc=%d", c.Mask, c.Outer, c.Default, c.Inc)
}

func (c *ShadowCase) Exec(t *eng.T) {
	t.Nontrivial()
	set, _ := px.NewSet(map[string]string{"/probe": "{{ x.v }}"})
	if c.Mask&1 != 0 {
		set.Globals["x"] = map[string]any{"v": "G"}
	}
	ctx := pongo2.Context{"pn": "probe"}
	if c.Mask&2 != 0 {
		ctx["x"] = map[string]any{"v": "C"}
	}
	src := "{{ x.v }}"
	switch c.Inc {
	case 1:
		src = `{% include "probe" %}`
	case 2:
		src = `{% include pn %}`
	}
	want := ""
	if c.Mask&1 != 0 {
		want = "G"
	}
	if c.Mask&2 != 0 {
		want = "C"
	}
	if c.Mask&8 != 0 {
		src = "{% set x = y %}" + src
		want = "S"
	}
	if c.Mask&4 != 0 {
		src = "{% with x=z %}" + src + "{% endwith %}"
		if c.Mask&8 == 0 {
			want = "W"
		}
	}
	if c.Mask&16 != 0 {
		// the name is a macro parameter the caller omits: inside the macro it is empty, whatever the context holds
		param := "x"
		want = "[]"
		if c.Default {
			param, want = "x=d", "[D]"
		}
		src = "{% macro mm(" + param + ") %}[" + src + "]{% endmacro %}{{ mm() }}"
		if c.Mask&8 != 0 {
			want = "[S]"
		} else if c.Mask&4 != 0 {
			want = "[W]"
		}
		switch c.Outer {
		case 1:
			src = "{% set x = o %}" + src
		case 2:
			src = "{% with x=o %}" + src + "{% endwith %}"
		}
	}
	ctx["o"] = map[string]any{"v": "O"}
	ctx["d"] = map[string]any{"v": "D"}
	ctx["y"] = map[string]any{"v": "S"}
	ctx["z"] = map[string]any{"v": "W"}
	out := px.RenderIn(set, src, ctx)
	t.Outcome(out.String())
	if out.Failed() || out.S != want {
		t.Fail("resolve:shadowing", "%s with mask %04b (globals/context/with/set) renders %s, want %q", src, c.Mask, out, want)
	}
}

// ---------- enumeration ----------

func stepsFor() []Step {
	return []Step{
		{Kind: "name", S: "a"}, {Kind: "name", S: "s"}, {Kind: "name", S: "nested"}, {Kind: "name", S: "deep"}, {Kind: "name", S: "nilv"}, {Kind: "name", S: "leaf"}, {Kind: "name", S: "zz"},
		{Kind: "name", S: "In"}, {Kind: "name", S: "P"}, {Kind: "name", S: "NilP"}, {Kind: "name", S: "Iface"}, {Kind: "name", S: "L"}, {Kind: "name", S: "A"}, {Kind: "name", S: "M"}, {Kind: "name", S: "IM"}, {Kind: "name", S: "F"}, {Kind: "name", S: "S"}, {Kind: "name", S: "Zero"}, {Kind: "name", S: "PP"},
		{Kind: "name", S: "Name"}, {Kind: "name", S: "N"}, {Kind: "name", S: "secret"}, {Kind: "name", S: "Tags"}, {Kind: "name", S: "Cnt"}, {Kind: "name", S: "k"}, {Kind: "name", S: "x"}, {Kind: "name", S: "z"}, {Kind: "name", S: "inner"},
		{Kind: "name", S: "Upper"}, {Kind: "name", S: "PtrOnly"}, {Kind: "name", S: "GetLeaf"}, {Kind: "name", S: "GetValue"},
		{Kind: "name", S: "Add"}, {Kind: "name", S: "Sum"}, {Kind: "name", S: "Greet"}, {Kind: "name", S: "MayFail"}, {Kind: "name", S: "ViaValue"}, {Kind: "name", S: "WithCtx"}, {Kind: "name", S: "AnyArg"},
		{Kind: "index", I: 0}, {Kind: "index", I: 1}, {Kind: "index", I: 2}, {Kind: "index", I: 9},
		{Kind: "name", S: "Fetch"}, {Kind: "name", S: "Size"}, {Kind: "name", S: "Fahrenheit"}, {Kind: "name", S: "Plus"}, {Kind: "name", S: "Joined"},
		{Kind: "name", S: "ID"}, {Kind: "name", S: "By"}, {Kind: "name", S: "baseT"},
	}
}

func finalSubs() []Step {
	return []Step{
		{Kind: "sub-str", S: "a"}, {Kind: "sub-str", S: "k"}, {Kind: "sub-str", S: "zz"}, {Kind: "sub-str", S: "Name"}, {Kind: "sub-str", S: "secret"}, {Kind: "sub-str", S: "Size"}, {Kind: "sub-str", S: "Upper"}, {Kind: "sub-str", S: "Fetch"},
		{Kind: "sub-int", I: 0}, {Kind: "sub-int", I: 1}, {Kind: "sub-int", I: 9},
		{Kind: "sub-var", S: "k"}, {Kind: "sub-var", S: "ki"}, {Kind: "sub-var", S: "kneg"}, {Kind: "sub-var", S: "kneg2"}, {Kind: "sub-var", S: "nilv"}, {Kind: "sub-var", S: "kbad"}, {Kind: "sub-var", S: "missing"},
	}
}

func callForms() []Step {
	mk := func(a ...string) Step { return Step{Kind: "call", Args: a} }
	return []Step{
		mk(), mk("1"), mk(`"s"`), mk("1", "2"), mk("1", `"s"`), mk(`"s"`, "1"), mk(`"p"`, "1", "2"), mk("1", "2", "3"), mk("true"), mk("false"), mk("nilv"), mk("i"), mk(`"s"`, `"t"`), mk("stg"),
		mk("1", `"s"`, "3"), mk("1", "2", "3", "4", "5"), mk("1", "2", "3", "4", "5", "6", "7"), mk("i", "ki", "3", "4", "i"), mk("1", "2", "3", "4", "5", "6"),
	}
}

func run(r *eng.Runner) {
	firsts := []string{"fps", "fpe", "fpp", "an1", "an2", "an3", "row1", "row2", "qm", "cel", "nms", "usr", "usrp", "usrq", "am", "cm", "nm", "r", "rv", "m", "im", "l", "arr", "s", "i", "nilv", "missing", "f0", "f2", "fvar", "ferr", "fval", "fctx", "fmap", "val", "stg"}
	sinks := []string{"print", "length", "if"}
	callSinks := []string{"print", "length", "if", "repeat"}
	steps := stepsFor()
	subs := finalSubs()
	calls := callForms()
	depth := 2
	if !r.Quick() {
		depth = 3
	}
	r.Group("paths", "c08.case", fmt.Sprintf("every path of <=%d dot steps (43 step forms: valid and invalid keys, fields, unexported fields, methods, indices) from 27 context roots (struct pointer and value, unnamed and same-named local struct types with their fields in different positions, maps with string, int, any and named-string keys, a named map type, slices, arrays, strings, scalars, nil, funcs of every accepted signature, *Value), optionally ending in one of 16 subscript forms (string subscripts that are also method names of the value included), x 3 sinks", depth))
	var rec func(first string, path []Step)
	emit := func(first string, path []Step) {
		for _, sk := range sinks {
			r.Do(&Case{First: first, Steps: append([]Step{}, path...), Sink: sk})
		}
	}
	// prune: a prefix that already resolves to nil, an error or a scalar is only extended by a few representative steps
	model := modelCtx()
	rec = func(first string, path []Step) {
		emit(first, path)
		for _, s := range subs {
			emit(first, append(append([]Step{}, path...), s))
		}
		if len(path) == depth || r.Stopped() {
			return
		}
		n, st := resolve(first, path, model)
		dead := st != oVal || n == nil || n.K == "nil" || n.K == "int" || n.K == "str" || n.K == "bool" || n.K == "float" || n.K == "opaque"
		for i, s := range steps {
			if dead && !(s.S == "a" || s.S == "Name" || s.S == "zz" || (s.Kind == "index" && s.I == 0)) {
				continue
			}
			_ = i
			rec(first, append(append([]Step{}, path...), s))
		}
	}
	for _, f := range firsts {
		rec(f, nil)
	}

	r.Group("calls", "c08.case", "every callable reachable within one step (context funcs and struct methods) x 19 argument lists (arity 0..7, right and wrong types, nil, variables; functions taking the implicit execution context in front of 0, 3, 5 and 7 written arguments) x 4 sinks (the fourth evaluates the same written call in two loop passes and in a second execution of the compiled template), and one further step on the result")
	type callee struct {
		first string
		pre   []Step
	}
	var cs []callee
	for _, f := range []string{"f0", "f2", "fvar", "ferr", "fval", "fctx", "fc3", "fc5", "fc7", "fmap", "fstr", "i", "m", "missing", "fps", "fpe", "fpc", "fpp"} {
		cs = append(cs, callee{f, nil})
	}
	for _, mc := range [][2]string{{"qm", "Fetch"}, {"qm", "Size"}, {"cel", "Fahrenheit"}, {"cel", "Plus"}, {"nms", "Joined"}} {
		cs = append(cs, callee{mc[0], []Step{{Kind: "name", S: mc[1]}}})
	}
	for _, root := range []string{"r", "rv"} {
		for _, holder := range [][]Step{{{Kind: "name", S: "In"}}, {{Kind: "name", S: "P"}}, {{Kind: "name", S: "Iface"}}, {{Kind: "name", S: "L"}, {Kind: "index", I: 1}}, {{Kind: "name", S: "M"}, {Kind: "name", S: "k"}}, {{Kind: "name", S: "NilP"}}} {
			for _, m := range []string{"Upper", "PtrOnly", "Add", "Sum", "Greet", "MayFail", "ViaValue", "WithCtx", "GetLeaf", "GetValue", "AnyArg", "Name", "NoSuch"} {
				cs = append(cs, callee{root, append(append([]Step{}, holder...), Step{Kind: "name", S: m})})
			}
		}
		cs = append(cs, callee{root, []Step{{Kind: "name", S: "F"}}})
	}
	emitCall := func(first string, path []Step) {
		for _, sk := range callSinks {
			r.Do(&Case{First: first, Steps: append([]Step{}, path...), Sink: sk})
		}
	}
	for _, c := range cs {
		for _, call := range calls {
			p := append(append([]Step{}, c.pre...), call)
			emitCall(c.first, p)
			for _, s := range []Step{{Kind: "name", S: "Name"}, {Kind: "name", S: "z"}, {Kind: "index", I: 0}, {Kind: "name", S: "inner"}} {
				emit(c.first, append(append([]Step{}, p...), s))
			}
		}
	}

	r.Group("tag-bound", "c08.tagbound", "with pairs that exchange or chain names of the surrounding scope (new and old style), for/set/macro bindings used in paths; subscripts whose key is a pointer to a number; typed nil pointers, maps and slices as arguments of functions whose parameter has exactly that type")
	for _, tb := range []TagBoundCase{
		{`{% with x=y y=x %}{{ x.v }}/{{ y.v }}{% endwith %}|{{ x.v }}/{{ y.v }}`, "Y/X|X/Y"},
		{`{% with x=y y=z z=x %}{{ x.v }}{{ y.v }}{{ z.v }}{% endwith %}`, "YZX"},
		{`{% with y.v as x x.v as y %}{{ x }}/{{ y }}{% endwith %}`, "Y/X"},
		{`{% with a=x.v b=a %}[{{ a }}|{{ b }}]{% endwith %}`, "[X|]"},
		{`{% set a = x %}{% with x=y a=x %}{{ a.v }}{{ x.v }}{% endwith %}{{ a.v }}`, "XYX"},
		{`{% for x in l %}{% with y=x x=y %}{{ y }}{{ x.v }};{% endwith %}{% endfor %}`, "l0Y;l1Y;l2Y;"},
		{`{% macro m(x, y) %}{% with x=y y=x %}{{ x }}{{ y }}{% endwith %}{% endmacro %}{{ m("1", "2") }}`, "21"},
		{`{{ l[pk] }}|{{ l[pk8] }}|{{ arr[pk] }}|{{ l[pk]|upper }}`, "l1|l2|11|L1"},
		{`{% with k=pk %}{{ l[k] }}{% endwith %}{% set j = pk8 %}{{ arr[j] }}`, "l112"},
		{`{{ fnil(lp) }}|{{ fnil(np) }}|{% with q=np %}{{ fnil(q) }}{% endwith %}`, "L|nil-leaf|nil-leaf"},
		{`{{ fmapn(nm) }}|{{ fsln(ns) }}|{{ fvar(lp, np) }}|{{ fany(missing) }}`, "0|0|2|true"},
		// different struct types with fields of the same name, one after the other in ONE rendering
		{`{{ an1.Name }}|{{ an2.Name }}|{{ an3.Name }}|{{ row1.Name }}|{{ row2.Name }}|{{ an2.ID }}|{{ an1.ID }}|{{ row2.ID }}|{{ row1.ID }}|{{ row1.By }}|{{ row2.By }}`, "n1|n2|33|r1|r2|2|1|22|11||b2"},
		{`{{ row2["Name"] }}|{{ row1["Name"] }}|{{ an3["Name"] }}|{{ an2["Name"] }}|{{ an1["Name"] }}|{{ an3.ID }}|{{ an1.ID }}`, "r2|r1|33|n2|n1||1"},
		{`{{ vitems.1.n }}|{{ vitems.1.l.1 }}|{{ vrow.cell.N }}|{{ vbox.Payload.1 }}|{{ vitems.1.l|length }}|{{ vitems.1["n"] }}`, "7|5|8|p1|2|7"},
		{`{{ fte() }}|{{ fte()|upper }}`, "ok|OK"}, {`{{ ftef() }}`, "ERROR"},
		// an argument list written after an argument list is not more arguments for the first call
		{`{{ add2(1)(2) }}`, "ERROR"}, {`{{ add2(1, 2) }}`, "3"}, {`{{ one(1)(2) }}`, "ERROR"}, {`{{ add2()(1, 2) }}`, "ERROR"}, {`{{ fvar()(lp) }}`, "ERROR"},
	} {
		tb := tb
		r.Do(&tb)
	}
	r.Group("shadowing", "c08.shadow", "the same name in globals / caller context / tag scope (with) / tag scope (set) / an omitted macro parameter (with and without a default, with the name also bound by set / with in the scope that defines and calls the macro), read directly and inside an included file (static and computed name): all presence combinations")
	for m := 0; m < 32; m++ {
		r.Do(&ShadowCase{Mask: m})
		r.Do(&ShadowCase{Mask: m, Inc: 1})
		r.Do(&ShadowCase{Mask: m, Inc: 2})
		if m&16 != 0 {
			for outer := 0; outer <= 2; outer++ {
				for _, d := range []bool{false, true} {
					if outer != 0 || d {
						r.Do(&ShadowCase{Mask: m, Outer: outer, Default: d})
					}
				}
			}
		}
	}
	_ = sort.Strings
}

func init() {
	eng.RegisterCase("c08.case", func() eng.Case { return &Case{} })
	eng.RegisterCase("c08.tagbound", func() eng.Case { return &TagBoundCase{} })
	eng.RegisterCase("c08.shadow", func() eng.Case { return &ShadowCase{} })
	eng.Register(&eng.Check{
		ID:    "C08",
		Title: "Names resolve through maps, sequences, structs, pointers, methods, calls",
		Rule:  "bounded-exhaustive: every access path up to the step bound over a step alphabet of valid and invalid keys/fields/indices/methods from every context root of a fixed object graph (built twice: as Go values for the engine and as a model tree for the reference resolver), in dot and final-subscript form, every call form on every callable, observed through {{ p }}, {{ p|length }} and {% if p %}; compared with the step-wise reference resolver (value / empty / execution error - never a panic). Non-trivial: the reference defines an outcome; paths whose meaning the property leaves open or that the grammar does not accept are counted as skipped.",
		Assumptions: []string{
			"left open (skipped): integer dot-step on a map, indexing into a string, a map key equal to a method name, **T, nil passed for a typed or interface parameter, printed form of collections",
			"a subscript is only generated as the last step of a name (the grammar accepts it nowhere else)",
			"a method with a pointer receiver exists only on a pointer",
		},
		Run: run,
	})
}
