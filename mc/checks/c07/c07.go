// Package c07: expressions evaluate according to the documented C-like semantics.
package c07

import (
	"fmt"
	"math"
	"strconv"
	"strings"

	"github.com/flosch/pongo2/v6"

	"verifmc/internal/eng"
	"verifmc/internal/px"
)

// ---- expression trees ----

type Expr struct {
	Op   string // "" = atom; "neg", "not" unary; otherwise binary operator (canonical spelling)
	Atom string // source spelling of the atom
	L, R *Expr
}

// value kinds of the reference evaluator
type val struct {
	k string // I F S B L(list of ints)
	i int
	f float64
	s string
	b bool
}

func (v val) truthy() bool {
	switch v.k {
	case "I":
		return v.i != 0
	case "F":
		return v.f != 0
	case "S":
		return v.s != ""
	case "B":
		return v.b
	case "L":
		return true
	}
	return false
}

func (v val) print() string {
	switch v.k {
	case "I":
		return strconv.Itoa(v.i)
	case "F":
		return fmt.Sprintf("%f", v.f)
	case "S":
		return v.s
	case "B":
		if v.b {
			return "True"
		}
		return "False"
	}
	return "?"
}

func (v val) num() float64 {
	if v.k == "I" {
		return float64(v.i)
	}
	return v.f
}

type evalState struct {
	tt, ff int // call counters of the short-circuit probes
}

const (
	stOK = iota
	stErr
	stSkip
)

var atoms = map[string]val{
	"0": {k: "I", i: 0}, "1": {k: "I", i: 1}, "2": {k: "I", i: 2}, "3": {k: "I", i: 3}, "7": {k: "I", i: 7},
	"0.5": {k: "F", f: 0.5}, "2.0": {k: "F", f: 2.0},
	`""`: {k: "S", s: ""}, `"a"`: {k: "S", s: "a"},
	"true": {k: "B", b: true}, "false": {k: "B", b: false},
	"vi": {k: "I", i: 5}, "vf": {k: "F", f: 2.5}, "vs": {k: "S", s: "xa"},
	"pf": {k: "F", f: 1.5}, "pi": {k: "I", i: 4}, // the same kinds behind a pointer (*float64, *int)
	"tt()": {k: "B", b: true}, "ff()": {k: "B", b: false},
	"vl": {k: "L"},
	// other spellings and sizes of integers: a leading zero is decimal all the same; neighbours beyond 2^53 differ
	"[1, 2, 3]": {k: "L"}, // the same list as vl, written in the template
	"010": {k: "I", i: 10}, "9007199254740993": {k: "I", i: 9007199254740993}, "vbig": {k: "I", i: 9007199254740992},
}

var listVals = []int{1, 2, 3}

var (
	ptrF = 1.5
	ptrI = 4
)

// eval is the independent typed evaluator of the TREE (precedence never enters it).
func eval(e *Expr, st *evalState) (val, int) {
	if e.Op == "" {
		switch e.Atom {
		case "tt()":
			st.tt++
		case "ff()":
			st.ff++
		}
		return atoms[e.Atom], stOK
	}
	switch e.Op {
	case "neg":
		v, s := eval(e.L, st)
		if s != stOK {
			return v, s
		}
		switch v.k {
		case "I":
			return val{k: "I", i: -v.i}, stOK
		case "F":
			return val{k: "F", f: -v.f}, stOK
		}
		return v, stSkip
	case "not":
		v, s := eval(e.L, st)
		if s != stOK {
			return v, s
		}
		if v.k == "L" {
			return v, stSkip
		}
		r := val{k: "B", b: !v.truthy()}
		if v.k != "B" || v.s == "numeric-not" {
			r.s = "numeric-not" // printed form left open; truth value defined
		}
		return r, stOK
	case "and", "or":
		l, s := eval(e.L, st)
		if s != stOK {
			return l, s
		}
		if l.k == "L" {
			return l, stSkip
		}
		if e.Op == "and" && !l.truthy() {
			return val{k: "B", b: false}, stOK
		}
		if e.Op == "or" && l.truthy() {
			return val{k: "B", b: true}, stOK
		}
		r, s := eval(e.R, st)
		if s != stOK {
			return r, s
		}
		if r.k == "L" {
			return r, stSkip
		}
		return val{k: "B", b: r.truthy()}, stOK
	}
	l, s := eval(e.L, st)
	if s != stOK {
		return l, s
	}
	r, s := eval(e.R, st)
	if s != stOK {
		return r, s
	}
	if l.s == "numeric-not" || r.s == "numeric-not" {
		return l, stSkip
	}
	isNum := func(v val) bool { return v.k == "I" || v.k == "F" }
	switch e.Op {
	case "+":
		if l.k == "S" || r.k == "S" {
			if l.k == "B" || r.k == "B" || l.k == "L" || r.k == "L" {
				return l, stSkip
			}
			return val{k: "S", s: l.print() + r.print()}, stOK
		}
		if !isNum(l) || !isNum(r) {
			return l, stSkip
		}
		if l.k == "F" || r.k == "F" {
			return val{k: "F", f: l.num() + r.num()}, stOK
		}
		return val{k: "I", i: l.i + r.i}, stOK
	case "-", "*", "/":
		if !isNum(l) || !isNum(r) {
			return l, stSkip
		}
		if l.k == "F" || r.k == "F" {
			a, b := l.num(), r.num()
			switch e.Op {
			case "-":
				return val{k: "F", f: a - b}, stOK
			case "*":
				return val{k: "F", f: a * b}, stOK
			}
			if b == 0 {
				return l, stErr
			}
			return val{k: "F", f: a / b}, stOK
		}
		switch e.Op {
		case "-":
			return val{k: "I", i: l.i - r.i}, stOK
		case "*":
			return val{k: "I", i: l.i * r.i}, stOK
		}
		if r.i == 0 {
			return l, stErr
		}
		return val{k: "I", i: l.i / r.i}, stOK
	case "%":
		if l.k != "I" || r.k != "I" {
			return l, stSkip
		}
		if r.i == 0 {
			return l, stErr
		}
		return val{k: "I", i: l.i % r.i}, stOK
	case "^":
		if !isNum(l) || !isNum(r) {
			return l, stSkip
		}
		return val{k: "F", f: math.Pow(l.num(), r.num())}, stOK
	case "<", "<=", ">", ">=":
		if !isNum(l) || !isNum(r) {
			return l, stSkip
		}
		var b bool
		if l.k == "F" || r.k == "F" {
			a, c := l.num(), r.num()
			switch e.Op {
			case "<":
				b = a < c
			case "<=":
				b = a <= c
			case ">":
				b = a > c
			case ">=":
				b = a >= c
			}
		} else {
			switch e.Op {
			case "<":
				b = l.i < r.i
			case "<=":
				b = l.i <= r.i
			case ">":
				b = l.i > r.i
			case ">=":
				b = l.i >= r.i
			}
		}
		return val{k: "B", b: b}, stOK
	case "==", "!=":
		if l.k != r.k || l.k == "L" {
			return l, stSkip
		}
		var eq bool
		switch l.k {
		case "I":
			eq = l.i == r.i
		case "F":
			if math.IsNaN(l.f) || math.IsNaN(r.f) {
				return l, stSkip
			}
			eq = l.f == r.f
		case "S":
			eq = l.s == r.s
		case "B":
			eq = l.b == r.b
		}
		if e.Op == "!=" {
			eq = !eq
		}
		return val{k: "B", b: eq}, stOK
	case "in":
		switch {
		case l.k == "S" && r.k == "S":
			return val{k: "B", b: strings.Contains(r.s, l.s)}, stOK
		case l.k == "I" && r.k == "L":
			for _, x := range listVals {
				if x == l.i {
					return val{k: "B", b: true}, stOK
				}
			}
			return val{k: "B", b: false}, stOK
		}
		return l, stSkip
	}
	return l, stSkip
}

// ---- printer: minimal parentheses for the DOCUMENTED grammar ----
// levels: 1 and/or, 2 comparison/in, 3 additive, 4 multiplicative, 5 unary, 6 power, 7 atom

func level(e *Expr) int {
	switch e.Op {
	case "":
		return 7
	case "^":
		return 6
	case "neg", "not":
		return 5
	case "*", "/", "%":
		return 4
	case "+", "-":
		return 3
	case "and", "or":
		return 1
	}
	return 2
}

type style struct {
	alt   bool   // alternate spellings: && || ! <>
	space string // spacing around symbolic operators: "", " ", "  "
}

func spell(op string, st style) (string, bool) {
	// returns the spelling and whether it is a word (needs spaces)
	switch op {
	case "and":
		if st.alt {
			return "&&", false
		}
		return "and", true
	case "or":
		if st.alt {
			return "||", false
		}
		return "or", true
	case "!=":
		if st.alt {
			return "<>", false
		}
		return "!=", false
	case "in":
		return "in", true
	}
	return op, false
}

// print returns the source; skip=true if the tree has no faithful spelling inside the judged fragment.
// pos: "first" = the node is the first operand of an additive-level context (a sign/not may be written bare).
func (e *Expr) print(st style, first bool) (string, bool) {
	paren := func(c *Expr) (string, bool) {
		s, sk := c.print(st, true)
		return "(" + s + ")", sk
	}
	switch e.Op {
	case "":
		return e.Atom, false
	case "neg", "not":
		if !first {
			// the grammar allows a prefix operator only at the start of an additive expression
			s, sk := e.print(st, true)
			return "(" + s + ")", sk
		}
		var opnd string
		var sk bool
		if level(e.L) >= 6 { // atom or power
			opnd, sk = e.L.print(st, false)
		} else {
			opnd, sk = paren(e.L)
		}
		if e.Op == "neg" {
			return "-" + opnd, sk
		}
		if st.alt {
			return "!" + opnd, sk
		}
		return "not " + opnd, sk
	}
	lv := level(e)
	var ls, rs string
	var lsk, rsk bool
	sp, word := spell(e.Op, st)
	switch {
	case e.Op == "^": // right associative
		if level(e.L) > 6 {
			ls, lsk = e.L.print(st, false)
		} else {
			ls, lsk = paren(e.L)
		}
		if level(e.R) >= 6 {
			rs, rsk = e.R.print(st, false)
		} else {
			rs, rsk = paren(e.R)
		}
	case lv == 4 || lv == 3: // left associative
		leftFirst := first && lv == 3 || first && lv == 4
		if level(e.L) >= lv {
			if level(e.L) == 5 {
				// unary as the first factor/term: written bare only at the start of the additive expression
				if e.L.Op == "not" && lv == 4 {
					ls, lsk = paren(e.L) // `not a*b` would read not(a*b) in the implementation's grammar: outside the fragment, parenthesise
				} else {
					ls, lsk = e.L.print(st, leftFirst)
				}
			} else {
				ls, lsk = e.L.print(st, leftFirst)
			}
		} else {
			ls, lsk = paren(e.L)
		}
		if level(e.R) > lv && level(e.R) != 5 {
			rs, rsk = e.R.print(st, false)
		} else {
			rs, rsk = paren(e.R)
		}
	case lv == 2: // non-associative
		if level(e.L) > 2 {
			ls, lsk = e.L.print(st, true)
		} else {
			ls, lsk = paren(e.L)
		}
		if level(e.R) > 2 {
			rs, rsk = e.R.print(st, true)
		} else {
			rs, rsk = paren(e.R)
		}
	default: // and/or: same operator chains to the right without parentheses, anything else is parenthesised
		if level(e.L) > 1 {
			ls, lsk = e.L.print(st, true)
		} else {
			ls, lsk = paren(e.L)
		}
		if level(e.R) > 1 || e.R.Op == e.Op {
			rs, rsk = e.R.print(st, true)
		} else {
			rs, rsk = paren(e.R)
		}
	}
	gap := st.space
	if word {
		gap = " "
		if st.space == "  " {
			gap = "  "
		}
	}
	// avoid gluing two symbols into a different token
	if gap == "" {
		if sp == "-" && strings.HasPrefix(rs, "-") || sp == "<" && strings.HasPrefix(rs, ">") {
			gap = " "
		}
		// `a ^-b` etc. cannot occur: a prefix operator on the right is always parenthesised
	}
	return ls + gap + sp + gap + rs, lsk || rsk
}

// ---- the case ----

type Case struct {
	Src  string `json:"src"`  // expression source
	Sink string `json:"sink"` // "print" or "if"
	Tree string `json:"tree"` // fully parenthesised reading (for the report)
	Want string `json:"want"` // expected output, or "ERROR"
	TT   int    `json:"tt"`   // expected number of calls of tt()
	FF   int    `json:"ff"`
	Ops  string `json:"ops"`
}

func (c *Case) ID() string { return c.Sink + ": " + c.Src }

func (c *Case) Exec(t *eng.T) {
	t.Nontrivial()
	var tt, ff int
	ctx := pongo2.Context{
		"vi": 5, "vf": 2.5, "vs": "xa", "vl": []int{1, 2, 3},
		"pf": &ptrF, "pi": &ptrI, "vbig": 9007199254740992,
		"tt": func() bool { tt++; return true },
		"ff": func() bool { ff++; return false },
	}
	src := "{{ " + c.Src + " }}"
	if c.Sink == "if" {
		src = "{% if " + c.Src + " %}T{% else %}F{% endif %}"
	}
	out := px.Render(nil, src, ctx)
	t.Outcome(out.String())
	key := "expr:" + c.Ops + ":" + c.Sink
	if c.Want == "OPEN" {
		if out.Panic != "" {
			t.Fail(key+":panic", "%s (tree %s) panics: %s", src, c.Tree, out.PanicMsg)
		}
		return
	}
	if out.Compile && out.Err != "" || out.Panic != "" {
		t.Fail(key+":rejected", "%s (tree %s) does not compile/run: %s", src, c.Tree, out)
		return
	}
	if c.Want == "ERROR" {
		if out.Err == "" {
			t.Fail(key+":no-error", "%s (tree %s) renders %q, want an execution error (zero divisor)", src, c.Tree, out.S)
		}
		return
	}
	if out.Err != "" {
		t.Fail(key+":error", "%s (tree %s) fails: %s; want %q", src, c.Tree, out.Err, c.Want)
		return
	}
	if out.S != c.Want && strings.ReplaceAll(out.S, "-0.000000", "0.000000") == strings.ReplaceAll(c.Want, "-0.000000", "0.000000") && strings.Contains(c.Ops, "neg(") {
		// the only difference is the sign of a floating-point zero under a prefix minus
		t.Fail("expr:signed-zero:prefix-minus-applies-to-whole-product", "%s renders %q; its fully parenthesised reading %s evaluates to %q (the implementation negates the whole product, the documented reading only the first factor)", src, out.S, c.Tree, c.Want)
		return
	}
	if out.S != c.Want {
		t.Fail(key+":value", "%s renders %q; its fully parenthesised reading %s evaluates to %q", src, out.S, c.Tree, c.Want)
		return
	}
	if tt != c.TT || ff != c.FF {
		t.Fail(key+":short-circuit", "%s (tree %s): probe functions called tt=%d ff=%d times, want tt=%d ff=%d", src, c.Tree, tt, ff, c.TT, c.FF)
	}
}

func (e *Expr) full() string {
	switch e.Op {
	case "":
		return e.Atom
	case "neg":
		return "(-" + e.L.full() + ")"
	case "not":
		return "(not " + e.L.full() + ")"
	}
	return "(" + e.L.full() + " " + e.Op + " " + e.R.full() + ")"
}

func (e *Expr) ops() string {
	switch e.Op {
	case "":
		return ""
	case "neg", "not":
		return e.Op + "(" + e.L.ops() + ")"
	}
	return e.Op + "(" + e.L.ops() + "," + e.R.ops() + ")"
}

var binOps = []string{"+", "-", "*", "/", "%", "^", "==", "!=", "<", "<=", ">", ">=", "in", "and", "or"}
var unOps = []string{"neg", "not"}

func atomList(reduced bool) []*Expr {
	names := []string{"0", "1", "2", "3", "7", "0.5", "2.0", `""`, `"a"`, "true", "false", "vi", "vf", "vs", "tt()", "ff()", "vl"}
	if reduced {
		names = []string{"0", "2", "7", "0.5", `"a"`, "true", "vi", "ff()"}
	}
	var out []*Expr
	for _, n := range names {
		out = append(out, &Expr{Atom: n})
	}
	return out
}

// trees enumerates all trees with exactly n operators.
func trees(n int, at []*Expr, bops, uops []string, f func(*Expr) bool) bool {
	if n == 0 {
		for _, a := range at {
			if !f(a) {
				return false
			}
		}
		return true
	}
	for _, u := range uops {
		if !trees(n-1, at, bops, uops, func(c *Expr) bool { return f(&Expr{Op: u, L: c}) }) {
			return false
		}
	}
	for _, b := range bops {
		for k := 0; k <= n-1; k++ {
			ok := trees(k, at, bops, uops, func(l *Expr) bool {
				return trees(n-1-k, at, bops, uops, func(r *Expr) bool { return f(&Expr{Op: b, L: l, R: r}) })
			})
			if !ok {
				return false
			}
		}
	}
	return true
}

func emit(r *eng.Runner, e *Expr, styles []style) {
	st := &evalState{}
	v, status := eval(e, st)
	if status == stSkip {
		// the value of this tree is left open (mixed operand kinds etc.); whatever it evaluates to, it must be a
		// value or an execution error - never a panic: one spelling is still executed
		r.AddExtra("trees_outside_fragment", 1)
		if src, sk := e.print(styles[0], true); !sk {
			r.Do(&Case{Src: src, Sink: "print", Tree: e.full(), Want: "OPEN", Ops: e.ops()})
		}
		return
	}
	for _, sty := range styles {
		src, sk := e.print(sty, true)
		if sk {
			continue
		}
		want := "ERROR"
		wantIf := "ERROR"
		if status == stOK {
			want = v.print()
			wantIf = "F"
			if v.truthy() {
				wantIf = "T"
			}
		}
		ops := e.ops()
		if !(status == stOK && v.s == "numeric-not") && !(status == stOK && v.k == "L") {
			r.Do(&Case{Src: src, Sink: "print", Tree: e.full(), Want: want, TT: st.tt, FF: st.ff, Ops: ops})
		}
		if status != stOK || v.k != "L" {
			r.Do(&Case{Src: src, Sink: "if", Tree: e.full(), Want: wantIf, TT: st.tt, FF: st.ff, Ops: ops})
		}
	}
}

func run(r *eng.Runner) {
	all := []style{{false, " "}, {true, ""}, {false, "  "}, {true, " "}, {false, ""}}
	quickStyles := []style{{false, " "}, {true, ""}}
	styles := all
	if r.Quick() {
		styles = quickStyles
	}
	at := atomList(false)
	ptrs := []*Expr{{Atom: "pf"}, {Atom: "pi"}} // a *float64 and a *int from the context
	ptrs = append(ptrs, &Expr{Atom: "[1, 2, 3]"}, &Expr{Atom: "010"}, &Expr{Atom: "9007199254740993"}, &Expr{Atom: "vbig"})
	r.Group("ops<=1", "c07.case", "all expression trees with 0..1 operators over 15 binary + 2 unary operators and 22 atoms (incl. a *float64 and a *int, an integer literal with a leading zero, two neighbouring integers beyond 2^53), every spelling/spacing style, printed and in if-position")
	for n := 0; n <= 1; n++ {
		trees(n, append(append([]*Expr{}, at...), ptrs...), binOps, unOps, func(e *Expr) bool { emit(r, e, all); return !r.Stopped() })
	}
	r.Group("ops=2-pointers", "c07.case", "all trees with exactly 2 operators over the pointer atoms, the leading-zero literal, the two big integers and 2, 0.5, vi")
	trees(2, append([]*Expr{{Atom: "2"}, {Atom: "0.5"}, {Atom: "vi"}}, ptrs...), binOps, unOps, func(e *Expr) bool { emit(r, e, quickStyles[:1]); return !r.Stopped() })
	r.Group("ops=2", "c07.case", fmt.Sprintf("all expression trees with exactly 2 operators over the full operator set and 17 atoms, %d spelling/spacing styles", len(styles)))
	trees(2, at, binOps, unOps, func(e *Expr) bool { emit(r, e, styles); return !r.Stopped() })
	red := atomList(true)
	if r.Quick() {
		// one representative operator per precedence level plus all same-level partners
		r.Group("ops=3-reduced", "c07.case", "all trees with exactly 3 operators over one representative per precedence level (^ neg not * / + - < == in and or) and 5 atoms")
		trees(3, red[:5], []string{"^", "*", "/", "+", "-", "<", "==", "and", "or"}, unOps, func(e *Expr) bool { emit(r, e, quickStyles[:1]); return !r.Stopped() })
	} else {
		r.Group("ops=3-reduced", "c07.case", "all trees with exactly 3 operators over the full operator set and 8 atoms")
		trees(3, red, binOps, unOps, func(e *Expr) bool { emit(r, e, quickStyles); return !r.Stopped() })
	}
}

func init() {
	eng.RegisterCase("c07.case", func() eng.Case { return &Case{} })
	eng.Register(&eng.Check{
		ID:    "C07",
		Title: "Expressions evaluate according to the documented C-like semantics",
		Rule: "bounded-exhaustive: every expression TREE up to the operator bound is evaluated by an independent typed evaluator (precedence never enters it), printed with minimal parentheses for the documented grammar in several operator spellings and spacings, rendered by the real engine in {{ }} and in {% if %} position and compared (value, error-ness for zero divisors, number of calls of two probe functions for short-circuiting). " +
			"Trees whose meaning the property leaves open (bools/strings in arithmetic, cross-type equality, ordering of non-numbers, % on floats, printed form of a negated number, `not` directly in front of a product) are not generated as cases and counted in trees_outside_fragment. Every executed case is non-trivial; cases are deduplicated by source text.",
		Assumptions: []string{
			"a prefix operator is written bare only at the start of an additive expression (the grammar accepts it nowhere else) and parenthesised otherwise",
			"-a*b is judged although the implementation reads it -(a*b): both readings agree for numbers under truncated division",
		},
		Run: run,
	})
}
