// Package c12: scoping - bindings stay in their construct; caller data is never modified.
package c12

import (
	"fmt"
	"reflect"

	"github.com/flosch/pongo2/v6"

	"verifmc/internal/eng"
	"verifmc/internal/prog"
	"verifmc/internal/px"
	. "verifmc/internal/ref"
)

func v(name string, steps ...string) Expr { return Var{Name: name, Steps: steps} }
func lits(s string) Expr                  { return Lit{V: StrV(s)} }
func T(s string) Node                     { return Text{S: s} }
func O(e Expr) Node                       { return Out{E: e} }

// probe prints both names
func probe(tag string) []Node {
	return []Node{T("{" + tag + ":"), O(v("a")), T(","), O(v("b")), T("}")}
}

type gen struct {
	n     int // counter for unique literals
	files map[string][]Node
}

func (g *gen) lit(prefix string) Expr {
	g.n++
	return lits(fmt.Sprintf("%s%d", prefix, g.n))
}

// constructs: each takes the nested content and returns nodes
const nKinds = 18

func (g *gen) build(kind int, inner []Node) []Node {
	g.n++
	id := g.n
	p := func(s string) []Node { return probe(fmt.Sprintf("%s%d", s, id)) }
	cat := func(parts ...[]Node) []Node {
		var out []Node
		for _, x := range parts {
			out = append(out, x...)
		}
		return out
	}
	switch kind {
	case 0: // with a=literal
		return []Node{With{Pairs: []Pair{{"a", g.lit("w")}}, Body: cat(p("w"), inner, p("w'"))}}
	case 1: // with a=b b=a  (pairs are evaluated in the outer scope: a swap)
		return []Node{With{Pairs: []Pair{{"a", v("b")}, {"b", v("a")}}, Body: cat(p("x"), inner, p("x'"))}}
	case 2: // old style with
		return []Node{With{OldStyle: true, Pairs: []Pair{{"b", g.lit("o")}}, Body: cat(p("o"), inner, p("o'"))}}
	case 3: // for a in [..]
		l := List{Items: []Expr{g.lit("f"), g.lit("f")}}
		return []Node{For{Key: "a", Over: l, Body: cat(p("f"), inner, p("f'"))}}
	case 4: // set a (no scope of its own)
		return cat([]Node{Set{Name: "a", E: g.lit("s")}}, p("s"), inner, p("s'"))
	case 5: // set b from a
		return cat([]Node{Set{Name: "b", E: Bin{Op: "+", L: v("a"), R: lits("!")}}}, p("t"), inner)
	case 6: // if (no scope): a set inside is visible after
		return []Node{If{Conds: []Expr{lits("y")}, Bodies: [][]Node{cat([]Node{Set{Name: "a", E: g.lit("i")}}, inner, p("i"))}}}
	case 7: // macro with parameter a, called right away
		name := fmt.Sprintf("m%d", id)
		return []Node{Macro{Name: name, Params: []Param{{Name: "a"}}, Body: cat(p("m"), inner, p("m'"))}, O(Call{Name: name, Args: []Expr{g.lit("M")}})}
	case 8: // macro with default referring to the outer b, set inside the body
		name := fmt.Sprintf("m%d", id)
		return []Node{Macro{Name: name, Params: []Param{{Name: "a", Default: v("b")}}, Body: cat(p("n"), []Node{Set{Name: "b", E: g.lit("ms")}}, inner, p("n'"))}, O(Call{Name: name})}
	case 9: // include with a=..., included file sets a and b
		file := fmt.Sprintf("inc%d", id)
		g.files["/"+file] = cat(p("inc"), []Node{Set{Name: "a", E: g.lit("is")}, Set{Name: "b", E: g.lit("is")}}, p("inc'"))
		return cat([]Node{Include{File: file, Pairs: []Pair{{"a", g.lit("I")}}}}, inner)
	case 10: // include ... only
		file := fmt.Sprintf("inc%d", id)
		g.files["/"+file] = cat(p("only"), []Node{Set{Name: "b", E: g.lit("os")}})
		return cat([]Node{Include{File: file, Pairs: []Pair{{"a", v("b")}}, Only: true}}, inner)
	case 11: // macro with parameters (a, b) called with ONE argument: the omitted b is empty inside, whatever b is outside
		name := fmt.Sprintf("m%d", id)
		return []Node{Macro{Name: name, Params: []Param{{Name: "a"}, {Name: "b"}}, Body: cat(p("p"), inner, p("p'"))}, O(Call{Name: name, Args: []Expr{g.lit("P")}})}
	case 13: // ssi parsed: the file sees the bindings of the place it is written at, and what it sets stays inside
		file := fmt.Sprintf("ssi%d", id)
		g.files["/"+file] = cat(p("ssi"), []Node{Set{Name: "a", E: g.lit("ss")}, Set{Name: "b", E: g.lit("ss")}}, p("ssi'"))
		return cat([]Node{Include{File: file, SSI: true}}, inner)
	case 17: // a macro WITHOUT parameters: its body is a scope of its own all the same
		name := fmt.Sprintf("m%d", id)
		return cat([]Node{Macro{Name: name, Body: cat([]Node{Set{Name: "a", E: g.lit("z")}, Set{Name: "b", E: g.lit("z")}}, p("z"), inner)}, O(Call{Name: name})}, p("z'"))
	case 14: // autoescape (no scope of its own): a set inside it is visible after it
		return cat([]Node{Autoescape{On: false, Body: cat([]Node{Set{Name: "a", E: g.lit("ae")}}, p("ae"), inner)}}, p("ae'"))
	case 15: // set to nothing: the name is bound (to nothing) and hides the caller's and the set's entries
		return cat([]Node{Set{Name: "a", E: v("nothing")}}, p("sn"), inner, p("sn'"))
	case 16: // autoescape on inside a with: the set made inside belongs to the with scope, not to an autoescape scope
		return []Node{With{Pairs: []Pair{{"b", g.lit("wb")}}, Body: cat([]Node{Autoescape{On: true, Body: cat([]Node{Set{Name: "b", E: g.lit("ab")}}, inner)}}, p("wa"))}}
	case 12: // for over nothing: the empty branch is part of the loop's scope, a set inside it must not leak
		return []Node{For{Key: "a", Over: v("nothing"), Body: []Node{T("never")}, HasEmpty: true, Empty: cat(p("e"), []Node{Set{Name: "a", E: g.lit("es")}, Set{Name: "b", E: g.lit("es")}}, inner, p("e'"))}}
	}
	panic("kind")
}

// ---- context keys ----

type KeyCase struct {
	Key    eng.Q `json:"key"`
	Macro  bool  `json:"macro_clash"` // the template exports a macro with that name
	Reject bool  `json:"reject"`
	// Extends: the executed template extends a base (the exported macro, if any, is the executed template's own);
	// Via: "" = Execute, "globals" = the key sits in the set's Globals, "globals-nil" = the same with a nil Context, "blocks" = ExecuteBlocks
	Extends bool   `json:"extends,omitempty"`
	Via     string `json:"via,omitempty"`
	// InBase: (with Extends and Macro) the macro of that name is exported by the BASE template of the executed one
	InBase bool `json:"in_base,omitempty"`
}

func (c *KeyCase) ID() string {
	return fmt.Sprintf("context key %q macro=%v extends=%v via=%s in-base=%v", string(c.Key), c.Macro, c.Extends, c.Via, c.InBase)
}

func (c *KeyCase) Exec(t *eng.T) {
	t.Nontrivial()
	src := "x{{ ok }}"
	if c.Macro {
		src = "{% macro " + string(c.Key) + "() export %}m{% endmacro %}x{{ ok }}"
	}
	baseSrc := "B{% block a %}b{% endblock %}{{ ok }}"
	if c.InBase {
		baseSrc = "B{% macro " + string(c.Key) + "() export %}m{% endmacro %}{% block a %}b{% endblock %}{{ ok }}"
	}
	set, _ := px.NewSet(map[string]string{"/base": baseSrc})
	if c.Extends {
		src = "{% extends \"base\" %}{% block a %}x{% endblock %}"
		if c.Macro && !c.InBase {
			src = "{% extends \"base\" %}{% macro " + string(c.Key) + "() export %}m{% endmacro %}{% block a %}x{% endblock %}"
		}
	}
	tpl, out := px.Compile(set, src)
	if tpl == nil {
		t.Fail("ctxkey:harness", "%s: probe template does not compile: %s", c.ID(), out)
		return
	}
	ctx := pongo2.Context{"ok": "1", string(c.Key): "v"}
	before := pongo2.Context{"ok": "1", string(c.Key): "v"}
	if c.Via == "globals" {
		set.Globals[string(c.Key)] = "v"
		ctx = pongo2.Context{"ok": "1"}
		before = pongo2.Context{"ok": "1"}
	}
	if c.Via == "globals-nil" {
		// the key sits in the Globals and the caller passes no context at all
		set.Globals[string(c.Key)] = "v"
		set.Globals["ok"] = "1"
		ctx, before = nil, nil
	}
	var o px.Out
	if c.Via == "blocks" || c.Via == "blocks-none" {
		names := []string{"a"}
		if c.Via == "blocks-none" {
			names = []string{"no_such_block"} // nothing to render: the context is checked all the same
		}
		site, msg, pan := eng.Protect(func() {
			if _, err := tpl.ExecuteBlocks(ctx, names); err != nil {
				o.Err = err.Error()
			}
		})
		if pan {
			o.Panic, o.PanicMsg = site, msg
		}
	} else {
		o = px.Exec(tpl, ctx)
	}
	t.Outcome(o.Kind())
	if !reflect.DeepEqual(ctx, before) {
		t.Fail("caller-context-modified", "%s: the caller's Context changed", c.ID())
	}
	if c.Reject && !o.Failed() {
		t.Fail("ctxkey:accepted", "%s is accepted (renders %q), the property requires it to be rejected", c.ID(), o.S)
	}
	if !c.Reject && o.Failed() {
		t.Fail("ctxkey:rejected", "%s is rejected: %s", c.ID(), o)
	}
	if o.Panic != "" {
		t.Fail("ctxkey:panic", "%s panics: %s", c.ID(), o.PanicMsg)
	}
}

// ---- ExecuteBlocks: every block is rendered in a scope of its own ----

type BlocksCase struct {
	Child  string            `json:"child"`
	Base   string            `json:"base"`
	Blocks []string          `json:"blocks"`
	Want   map[string]string `json:"want"`
}

func (c *BlocksCase) ID() string {
	return fmt.Sprintf("ExecuteBlocks %v child=%q base=%q", c.Blocks, c.Child, c.Base)
}

func (c *BlocksCase) Exec(t *eng.T) {
	t.Nontrivial()
	set, _ := px.NewSet(map[string]string{"/main": c.Child, "/base": c.Base})
	set.Globals["b"] = "gb"
	tpl, out := px.CompileFile(set, "/main")
	if tpl == nil {
		t.Fail("blocks:harness", "%s does not compile: %s", c.ID(), out)
		return
	}
	ctx := pongo2.Context{"a": "ca", "l": []int{1, 2}}
	var res map[string]string
	var err error
	site, msg, pan := eng.Protect(func() { res, err = tpl.ExecuteBlocks(ctx, c.Blocks) })
	t.Outcome(fmt.Sprint(res, err, pan))
	if pan {
		t.Fail("blocks:panic", "%s panics: %s (%s)", c.ID(), msg, site)
		return
	}
	if err != nil {
		t.Fail("blocks:error", "%s fails: %v", c.ID(), err)
		return
	}
	if !reflect.DeepEqual(res, c.Want) {
		t.Fail("blocks:scope", "%s gives %v, want %v (a binding made while one block was rendered must be gone when the next block is rendered)", c.ID(), res, c.Want)
	}
	if !reflect.DeepEqual(ctx, pongo2.Context{"a": "ca", "l": []int{1, 2}}) {
		t.Fail("caller-context-modified", "%s: the caller's Context changed", c.ID())
	}
}

func run(r *eng.Runner) {
	ctx := map[string]V{"a": StrV("ca"), "c": StrV("cc")}
	globals := map[string]V{"a": StrV("ga"), "b": StrV("gb")}
	depth := 3
	if !r.Quick() {
		depth = 4
	}
	r.Group("nestings", "prog.case", fmt.Sprintf("all nestings of depth 1..%d over %d binding constructs (with new/old/swap, for, set, set to nothing, if+set, autoescape+set, macro param/default, include with/only, ssi parsed) binding the names a and b that also exist in the caller context and the set's globals; probes before, inside and after every construct", depth, nKinds))
	var rec func(kinds []int)
	emit := func(kinds []int) {
		g := &gen{files: map[string][]Node{}}
		var inner []Node
		for i := len(kinds) - 1; i >= 0; i-- {
			inner = g.build(kinds[i], inner)
		}
		main := append(append(probe("pre"), inner...), probe("post")...)
		g.files["/main"] = main
		label := fmt.Sprint("nest", kinds)
		c, ok := prog.BuildTwice(g.files, ctx, prog.Vary(ctx), globals, "scope", label, false)
		if !ok {
			r.AddExtra("programs_outside_fragment", 1)
			return
		}
		r.Do(c)
	}
	rec = func(kinds []int) {
		if len(kinds) > 0 {
			emit(kinds)
		}
		if len(kinds) == depth || r.Stopped() {
			return
		}
		for k := 0; k < nKinds; k++ {
			rec(append(append([]int{}, kinds...), k))
		}
	}
	rec(nil)

	// sequences at one level: construct, then construct (bindings of the first must be gone / persist as specified)
	r.Group("sequences", "prog.case", "all sequences of two constructs at the same level, each optionally containing a third")
	for k1 := 0; k1 < nKinds; k1++ {
		for k2 := 0; k2 < nKinds; k2++ {
			for k3 := -1; k3 < nKinds; k3++ {
				g := &gen{files: map[string][]Node{}}
				var in []Node
				if k3 >= 0 {
					in = g.build(k3, nil)
				}
				first := g.build(k1, in)
				second := g.build(k2, nil)
				main := append(append(append(probe("pre"), first...), probe("mid")...), append(second, probe("post")...)...)
				g.files["/main"] = main
				c, ok := prog.BuildTwice(g.files, ctx, prog.Vary(ctx), globals, "scope", fmt.Sprint("seq", k1, k2, k3), false)
				if !ok {
					r.AddExtra("programs_outside_fragment", 1)
					continue
				}
				r.Do(c)
			}
		}
	}

	// globals vs context precedence, all presence combinations
	r.Group("globals", "prog.case", "name present in {globals, context, tag scope}: all 8 combinations; globals visible in included and imported templates")
	for mask := 0; mask < 8; mask++ {
		gl, cx := map[string]V{}, map[string]V{}
		if mask&1 != 0 {
			gl["a"] = StrV("G")
		}
		if mask&2 != 0 {
			cx["a"] = StrV("C")
		}
		var main []Node
		if mask&4 != 0 {
			main = append(main, Set{Name: "a", E: lits("T")})
		}
		main = append(main, probe("m")...)
		main = append(main, Include{File: "inc"})
		files := map[string][]Node{"/main": main, "/inc": probe("inc")}
		c, ok := prog.Build(files, cx, gl, "globals", fmt.Sprint("presence", mask), false)
		if ok {
			r.Do(c)
		}
	}

	// the names a loop binds belong to ONE activation of the loop
	r.Group("loop-activations", "prog.case", "a macro whose body holds a loop and calls itself from inside that loop (depth 0..3): forloop and the loop variable of the outer activation are what they were when the inner activations have ended")
	for depth := 0; depth <= 3; depth++ {
		for _, xs := range []V{ListV(IntV(5), IntV(6)), ListV(IntV(1), IntV(2), IntV(3)), ListV(IntV(9))} {
			body := []Node{For{Key: "x", Over: v("xs"), Body: []Node{O(v("x")), O(v("forloop", "Counter")), T("<"), If{Conds: []Expr{Bin{Op: ">", L: v("n"), R: Lit{V: IntV(0)}}}, Bodies: [][]Node{{O(Call{Name: "tree", Args: []Expr{Bin{Op: "-", L: v("n"), R: Lit{V: IntV(1)}}}})}}},
				T(">"), O(v("x")), O(v("forloop", "Counter")), T("/"), O(v("forloop", "Revcounter")), O(v("forloop", "Last")), T(";")}}}
			main := []Node{Macro{Name: "tree", Params: []Param{{Name: "n"}}, Body: body}, O(Call{Name: "tree", Args: []Expr{Lit{V: IntV(depth)}}}), T("|"), O(v("x"))}
			cx := map[string]V{"xs": xs, "x": StrV("ctx-x")}
			if c, ok := prog.BuildTwice(map[string][]Node{"/main": main}, cx, prog.Vary(cx), nil, "loop-activations", fmt.Sprint("loop-activations depth ", depth), false); ok {
				r.Do(c)
			} else {
				r.AddExtra("programs_outside_fragment", 1)
			}
		}
	}

	// a name keeps the value it was given
	r.Group("set-is-a-value", "prog.case", "a name set (or bound by with) to a field of the forloop record in the first / every second pass of a loop is printed in every pass: it keeps the value of the pass it was set in")
	{
		cx := map[string]V{"xs": ListV(IntV(5), IntV(6), IntV(7), IntV(8))}
		for _, field := range []string{"Counter", "Counter0", "Revcounter", "Revcounter0", "First", "Last"} {
			for _, cond := range []Expr{v("forloop", "First"), Bin{Op: "==", L: Bin{Op: "%", L: v("forloop", "Counter0"), R: Lit{V: IntV(2)}}, R: Lit{V: IntV(0)}}} {
				body := []Node{If{Conds: []Expr{cond}, Bodies: [][]Node{{Set{Name: "c", E: v("forloop", field)}}}}, O(v("c")), T(",")}
				main := []Node{For{Key: "x", Over: v("xs"), Body: body}, T("|"), O(v("c"))}
				if c, ok := prog.BuildTwice(map[string][]Node{"/main": main}, cx, prog.Vary(cx), nil, "set-value", "set-is-a-value "+field, false); ok {
					r.Do(c)
				} else {
					r.AddExtra("programs_outside_fragment", 1)
				}
				// nested: the outer loop's field bound by with around an inner loop, and set inside the inner loop
				inner := For{Key: "y", Over: v("xs"), Body: []Node{If{Conds: []Expr{v("forloop", "Last")}, Bodies: [][]Node{{Set{Name: "d", E: v("forloop", "Parentloop", field)}}}}, O(v("d")), T(";")}}
				main2 := []Node{For{Key: "x", Over: v("xs"), Body: []Node{With{Pairs: []Pair{{"w", v("forloop", field)}}, Body: []Node{inner, O(v("w"))}}, T(",")}}}
				if c, ok := prog.BuildTwice(map[string][]Node{"/main": main2}, cx, prog.Vary(cx), nil, "set-value", "set-is-a-value nested "+field, false); ok {
					r.Do(c)
				} else {
					r.AddExtra("programs_outside_fragment", 1)
				}
			}
		}
	}

	// sequences owned by the caller (context) or the set (globals) that loops reorder
	r.Group("caller-data", "prog.case", "loops with every subset of {reversed, sorted} over lists and maps that belong to the caller's context or the set's globals, reached directly, through with / set aliases and as a macro argument: the data is the same afterwards (deep comparison) and a second loop sees the original order")
	{
		cx := map[string]V{"l": ListV(IntV(3), IntV(1), IntV(2)), "ls": ListV(StrV("b"), StrV("c"), StrV("a")), "m": MapV("z", IntV(1), "y", IntV(2))}
		gl := map[string]V{"gl": ListV(IntV(9), IntV(7), IntV(8)), "gs": ListV(StrV("q"), StrV("p"))}
		for _, name := range []string{"l", "ls", "m", "gl", "gs"} {
			for mask := 1; mask < 4; mask++ {
				for route := 0; route < 4; route++ {
					loop := func(over Expr) Node {
						return For{Key: "x", Over: over, Reversed: mask&1 != 0, Sorted: mask&2 != 0, Body: []Node{O(v("x")), T(",")}}
					}
					plain := For{Key: "x", Over: v(name), Body: []Node{O(v("x")), T(";")}}
					var main []Node
					switch route {
					case 0:
						main = []Node{loop(v(name))}
					case 1:
						main = []Node{With{Pairs: []Pair{{"q", v(name)}}, Body: []Node{loop(v("q"))}}}
					case 2:
						main = []Node{Set{Name: "q", E: v(name)}, loop(v("q"))}
					case 3:
						main = []Node{Macro{Name: "mm", Params: []Param{{Name: "q"}}, Body: []Node{loop(v("q"))}}, O(Call{Name: "mm", Args: []Expr{v(name)}})}
					}
					if name == "m" {
						plain = For{Key: "x", Over: v(name), Sorted: true, Body: []Node{O(v("x")), T(";")}}
					}
					main = append(append([]Node{T("<")}, main...), T("|"), plain, T(">"))
					c, ok := prog.BuildTwice(map[string][]Node{"/main": main}, cx, prog.Vary(cx), gl, "caller-data", fmt.Sprint("caller-data ", name, mask, route), false)
					if !ok {
						r.AddExtra("programs_outside_fragment", 1)
						continue
					}
					r.Do(c)
				}
			}
		}
	}

	r.Group("execute-blocks", "c12.blocks", "ExecuteBlocks on a child whose requested blocks are spread over child and base: a set / with / for binding made in one block is not visible in the next block")
	probe := "{{ a }},{{ b }}"
	for _, bw := range [][2]string{{`{% set a = "child" %}{% set b = "child" %}`, "[one:child,child]"}, {`{% with a="w" %}{% set b = "ws" %}{% endwith %}{% set a = "after" %}`, "[one:after,gb]"}, {`{% for a in l %}{% set b = a %}{% endfor %}{% set q = 1 %}`, "[one:ca,gb]"}} {
		r.Do(&BlocksCase{Child: `{% extends "base" %}{% block one %}` + bw[0] + `[one:` + probe + `]{% endblock %}`, Base: `{% block one %}base-one{% endblock %}{% block two %}[two:` + probe + `]{% endblock %}{% block three %}[three:{{ q }}` + probe + `]{% endblock %}`,
			Blocks: []string{"one", "two", "three"}, Want: map[string]string{"one": bw[1], "two": "[two:ca,gb]", "three": "[three:ca,gb]"}})
	}
	r.Group("context-keys", "c12.key", "context keys: identifiers are accepted; keys that are not identifiers or clash with an exported macro are rejected")
	for _, k := range []struct {
		k      string
		reject bool
	}{{"a", false}, {"A_1", false}, {"_x", false}, {"x1", false}, {"1x", false}, {"1", false}, {"a b", true}, {"", true}, {"a-b", true}, {"ä", true}, {"a\n", true}, {"a.b", true}, {"'q", true}, {"{{", true}} {
		r.Do(&KeyCase{Key: eng.Q(k.k), Reject: k.reject})
	}
	r.Do(&KeyCase{Key: "mac", Macro: true, Reject: true})
	// the same rules when the executed template extends a base, when the key comes from the set's Globals, and for ExecuteBlocks
	for _, via := range []string{"", "globals", "blocks", "globals-nil", "blocks-none"} {
		r.Do(&KeyCase{Key: "mac", Macro: true, Reject: true, Extends: true, Via: via})
		r.Do(&KeyCase{Key: "mac", Macro: true, Reject: true, Extends: true, Via: via, InBase: true})
		r.Do(&KeyCase{Key: "other", Reject: false, Extends: true, Via: via})
		r.Do(&KeyCase{Key: "a-b", Reject: true, Extends: true, Via: via})
		r.Do(&KeyCase{Key: "fine", Reject: false, Extends: true, Via: via})
		if via == "globals" || via == "globals-nil" {
			r.Do(&KeyCase{Key: "mac", Macro: true, Reject: true, Via: via})
			r.Do(&KeyCase{Key: "a b", Reject: true, Via: via})
		}
	}
	r.Do(&KeyCase{Key: "other", Macro: false, Reject: false})
}

func init() {
	eng.RegisterCase("c12.key", func() eng.Case { return &KeyCase{} })
	eng.RegisterCase("c12.blocks", func() eng.Case { return &BlocksCase{} })
	eng.Register(&eng.Check{
		ID:    "C12",
		Title: "Scoping: bindings stay in their construct; caller data is never modified",
		Rule: "bounded-exhaustive: every nesting up to depth 3 and every two-construct sequence over 14 binding constructs that bind the names a and b (colliding with caller context and globals), with probes {{ a }},{{ b }} before, inside and after every construct, each binding a unique literal so the output names the binding that is visible; compared with the reference environment model. " +
			"In every program the caller's Context map and the set's Globals are deep-compared before/after execution. Every executed case is non-trivial; deduplicated by source.",
		Assumptions: []string{
			"reference environment of DESIGN.md Appendix A.5; macro bodies refer only to parameters and to names of their definition level and are called where they are defined",
			"a key starting with a digit (accepted by the implementation's identifier pattern) is not judged",
		},
		Run: run,
	})
}
