// Package c16: diagnostics point at the right place.
package c16

import (
	"fmt"
	"regexp"
	"strconv"
	"strings"

	"github.com/flosch/pongo2/v6"

	"verifmc/internal/eng"
	"verifmc/internal/enum"
	"verifmc/internal/px"
)

// offsetOf converts (line, col) by the convention line = 1 + newlines before, col = 1 + bytes since line start.
func offsetOf(src string, line, col int) (int, bool) {
	if line < 1 || col < 1 {
		return 0, false
	}
	off := 0
	for l := 1; l < line; l++ {
		i := strings.IndexByte(src[off:], '\n')
		if i < 0 {
			return 0, false
		}
		off += i + 1
	}
	end := strings.IndexByte(src[off:], '\n')
	lineLen := len(src) - off
	if end >= 0 {
		lineLen = end + 1 // the newline itself is a valid position
	}
	if col-1 > lineLen {
		return 0, false
	}
	return off + col - 1, true
}

// spelledAt checks that the token's source spelling starts at off.
func spelledAt(src string, off int, tok *pongo2.Token) string {
	rest := src[off:]
	switch tok.Typ {
	case pongo2.TokenString:
		if rest == "" || (rest[0] != '"' && rest[0] != '\'') {
			return "a string token does not point at its opening quote"
		}
		q := rest[0]
		var b strings.Builder
		i := 1
		for i < len(rest) && rest[i] != q {
			if rest[i] == '\\' && i+1 < len(rest) && (rest[i+1] == '"' || rest[i+1] == '\\') {
				b.WriteByte(rest[i+1])
				i += 2
				continue
			}
			b.WriteByte(rest[i])
			i++
		}
		if b.String() != tok.Val {
			return fmt.Sprintf("the string literal at the position reads %q, the token holds %q", b.String(), tok.Val)
		}
		return ""
	case pongo2.TokenSymbol:
		sp := tok.Val
		if tok.TrimWhitespaces {
			switch tok.Val {
			case "{{", "{%":
				sp = tok.Val + "-"
			case "}}", "%}":
				sp = "-" + tok.Val
			}
		}
		if !strings.HasPrefix(rest, sp) {
			return fmt.Sprintf("symbol %q is not found at the position (source there: %q)", sp, head(rest))
		}
		return ""
	default:
		if !strings.HasPrefix(rest, tok.Val) {
			return fmt.Sprintf("token text %q is not found at the position (source there: %q)", head(tok.Val), head(rest))
		}
		return ""
	}
}

func head(s string) string {
	if len(s) > 24 {
		return s[:24] + "..."
	}
	return s
}

func typName(t pongo2.TokenType) string {
	switch t {
	case pongo2.TokenHTML:
		return "html"
	case pongo2.TokenKeyword:
		return "keyword"
	case pongo2.TokenIdentifier:
		return "identifier"
	case pongo2.TokenString:
		return "string"
	case pongo2.TokenNumber:
		return "number"
	case pongo2.TokenSymbol:
		return "symbol"
	case pongo2.TokenNil:
		return "nil"
	case pongo2.TokenError:
		return "error"
	}
	return "other"
}

// ---- (a) lexer tokens ----

type LexCase struct {
	Src eng.Q `json:"src"`
}

func (c *LexCase) ID() string { return fmt.Sprintf("%q", string(c.Src)) }

// context: what kind of construct precedes a byte offset (for the violation key)
func precededBy(src string, off int) string {
	p := src[:off]
	switch {
	case strings.Contains(p, "{% endverbatim %}"):
		return "after-verbatim"
	case strings.Contains(p, "#}"):
		return "after-comment"
	case strings.ContainsAny(p, "\"'"):
		return "after-string"
	case strings.Contains(p, "\n"):
		return "after-newline"
	case strings.ContainsAny(p, "{"):
		return "after-delimiter"
	}
	return "at-start"
}

func (c *LexCase) Exec(t *eng.T) {
	src := string(c.Src)
	toks, err := pongo2.VerifLex("/main", src)
	if err != nil {
		t.Outcome("lexerr")
		if err.Filename != "/main" {
			t.Fail("lex-error:filename", "lexer error for %q names %q instead of the template", src, err.Filename)
		}
		if err.Line > 0 {
			off, ok := offsetOf(src, err.Line, err.Column)
			if !ok {
				t.Fail("lex-error:position-outside-source", "lexer error for %q at line %d col %d, outside the source (%v)", src, err.Line, err.Column, err.OrigError)
			} else if msg := fmt.Sprint(err.OrigError); strings.Contains(msg, "string not closed") || strings.Contains(msg, "Unknown escape sequence") || strings.Contains(msg, "Newline in string") {
				// errors of a string literal are reported at the literal (its opening quotation mark)
				if off >= len(src) || (src[off] != '"' && src[off] != '\'') {
					t.Fail("lex-error:string-literal-position", "lexer error for %q (%v) at line %d col %d, which is not the quotation mark the literal starts with", src, err.OrigError, err.Line, err.Column)
				}
			}
		}
		return
	}
	if len(toks) > 1 {
		t.Nontrivial()
	}
	t.Outcome(fmt.Sprint(len(toks)))
	last := -1
	for i, tok := range toks {
		off, ok := offsetOf(src, tok.Line, tok.Col)
		if !ok {
			t.Fail("token:position-outside-source:"+typName(tok.Typ), "%q: token %d (%s %q) at line %d col %d lies outside the source", src, i, typName(tok.Typ), tok.Val, tok.Line, tok.Col)
			return
		}
		if why := spelledAt(src, off, tok); why != "" {
			t.Fail("token:wrong-position:"+typName(tok.Typ)+":"+precededBy(src, off), "%q: token %d (%s %q) reports line %d col %d (offset %d): %s", src, i, typName(tok.Typ), head(tok.Val), tok.Line, tok.Col, off, why)
			return
		}
		if off < last {
			t.Fail("token:order", "%q: token %d starts before its predecessor", src, i)
			return
		}
		last = off
		if tok.Filename != "/main" {
			t.Fail("token:filename", "%q: token %d carries filename %q", src, i, tok.Filename)
		}
	}
}

// ---- (b) error positions ----

type ErrCase struct {
	Files  map[string]string `json:"files"`
	Prefix eng.Q             `json:"prefix"` // inserted in front of /main for the shift check ("" = none)
	Kind   string            `json:"kind"`   // corpus program + edit, for the id
}

func (c *ErrCase) ID() string {
	id := fmt.Sprintf("%s main=%q prefix=%q", c.Kind, c.Files["/main"], string(c.Prefix))
	if sub, ok := c.Files["/sub"]; ok {
		id += fmt.Sprintf(" sub=%q", sub)
	}
	if strings.HasPrefix(c.Kind, "comp") {
		var ks []string
		for k := range c.Files {
			if k != "/main" && k != "/sub" {
				ks = append(ks, k)
			}
		}
		sortStrings(ks)
		for _, k := range ks {
			id += fmt.Sprintf(" %s=%q", k, c.Files[k])
		}
	}
	return id
}

func errCtx() pongo2.Context {
	return pongo2.Context{
		"a": 1, "b": "s", "l": []int{1, 2}, "m": map[string]any{"k": 1},
		"f":    func(i int) int { return i },
		"fail": func() (string, error) { return "", fmt.Errorf("boom") },
	}
}

var nestedPos = regexp.MustCompile(`\[Error \(where: [^)]*\) in (\S+) \| Line (\d+) Col (\d+) near '([^']*)'\]`)

func headStr(s string, n int) string {
	if len(s) > n {
		return s[:n]
	}
	return s
}

type errObs struct {
	kind string // none, compile, exec, panic
	e    *pongo2.Error
	msg  string
}

func observe(files map[string]string) errObs {
	set, _ := px.NewSet(files)
	tpl, out := px.CompileFile(set, "/main")
	if out.Panic != "" {
		return errObs{kind: "panic", msg: out.Panic}
	}
	if tpl == nil {
		return errObs{kind: "compile", e: out.PErr, msg: out.Err}
	}
	o := px.Exec(tpl, errCtx())
	if o.Panic != "" {
		return errObs{kind: "panic", msg: o.Panic}
	}
	if o.Err != "" {
		return errObs{kind: "exec", e: o.PErr, msg: o.Err}
	}
	return errObs{kind: "none"}
}

func (c *ErrCase) Exec(t *eng.T) {
	ob := observe(c.Files)
	t.Outcome(ob.kind + ob.msg)
	if ob.kind == "none" {
		return
	}
	if ob.kind == "panic" {
		// totality is C01's business; nothing to say about positions
		t.Skip()
		return
	}
	if ob.e == nil {
		// a context-level error (no *Error): nothing positional
		return
	}
	t.Nontrivial()
	e := ob.e
	sender := e.Sender
	if i := strings.IndexByte(sender, ':'); i > 0 {
		sender = sender[:i]
	}
	// errors wrapped inside this one (an error raised inside a macro or a nested call travels as OrigError): each
	// of them that carries a position is an error that carries a position
	for in, depth := e.OrigError, 1; in != nil && depth < 6; depth++ {
		ne, ok := in.(*pongo2.Error)
		if !ok || ne == nil {
			break
		}
		if ne.Line > 0 {
			nsrc, nknown := c.Files[ne.Filename]
			switch {
			case !nknown:
				t.Fail("nested-error:unknown-file", "%s: the error wrapped at depth %d names %q, not one of the templates involved, with line %d col %d (%s)", c.ID(), depth, ne.Filename, ne.Line, ne.Column, ob.msg)
			case ne.Token != nil && ne.Token.Filename != "" && ne.Token.Filename != ne.Filename:
				t.Fail("nested-error:token-from-other-file", "%s: the error wrapped at depth %d names %s at line %d col %d but carries the token %q of %s (%s)", c.ID(), depth, ne.Filename, ne.Line, ne.Column, ne.Token.Val, ne.Token.Filename, ob.msg)
			default:
				if off, ok := offsetOf(nsrc, ne.Line, ne.Column); !ok {
					t.Fail("nested-error:position-outside-source", "%s: the error wrapped at depth %d points to line %d col %d of %s, outside that source (%s)", c.ID(), depth, ne.Line, ne.Column, ne.Filename, ob.msg)
				} else if ne.Token != nil {
					if why := spelledAt(nsrc, off, ne.Token); why != "" {
						t.Fail("nested-error:token-not-at-position", "%s: the error wrapped at depth %d, in %s at line %d col %d: %s (%s)", c.ID(), depth, ne.Filename, ne.Line, ne.Column, why, ob.msg)
					}
				}
			}
		}
		in = ne.OrigError
	}
	// positions quoted inside the message text (an inner error that travelled as text): "in FILE | Line L Col C near 'TOK'"
	if ms := nestedPos.FindAllStringSubmatch(ob.msg, -1); len(ms) > 1 {
		for _, m := range ms[1:] {
			nsrc, nknown := c.Files[m[1]]
			line, _ := strconv.Atoi(m[2])
			col, _ := strconv.Atoi(m[3])
			if !nknown {
				continue // e.g. <string>; judged for the outer error only
			}
			off, ok := offsetOf(nsrc, line, col)
			if !ok {
				t.Fail("nested-message:position-outside-source", "%s: the message quotes an inner error in %s at line %d col %d, outside that source (%s)", c.ID(), m[1], line, col, ob.msg)
				continue
			}
			rest := nsrc[off:]
			if !(strings.HasPrefix(rest, m[4]) || (len(rest) > 0 && (rest[0] == '"' || rest[0] == '\'') && strings.HasPrefix(rest[1:], m[4]))) {
				t.Fail("nested-message:token-not-at-position", "%s: the message quotes an inner error in %s at line %d col %d near %q, but that source reads %q there (%s)", c.ID(), m[1], line, col, m[4], headStr(rest, 12), ob.msg)
			}
		}
	}
	src, known := c.Files[e.Filename]
	if !known {
		cls := "unknown-file"
		if e.Sender == "fromfile" {
			cls = "load-failure-names-missing-file"
		}
		if e.Line > 0 {
			t.Fail("error:filename:"+cls+":with-position", "%s: %s error names %q, which is not one of the templates involved, and carries line %d col %d (%s)", c.ID(), ob.kind, e.Filename, e.Line, e.Column, ob.msg)
		} else if ob.kind == "compile" && e.Sender != "fromfile" {
			t.Fail("error:filename:"+cls, "%s: compile error names %q, which is not one of the templates involved (%s)", c.ID(), e.Filename, ob.msg)
		}
		return
	}
	if e.Line <= 0 {
		return
	}
	off, ok := offsetOf(src, e.Line, e.Column)
	if !ok {
		t.Fail("error:position-outside-source:"+sender, "%s: %s error in %s at line %d col %d lies outside that source (%s)", c.ID(), ob.kind, e.Filename, e.Line, e.Column, ob.msg)
		return
	}
	if e.Token != nil && e.Token.Filename != "" && e.Token.Filename != e.Filename {
		// the token belongs to another template than the one the error names
		cls := "own-position"
		if e.Token.Line == e.Line && e.Token.Col == e.Column {
			cls = "position-of-referrer"
		}
		t.Fail("error:token-from-other-file:"+cls, "%s: %s error names %s at line %d col %d but carries the token %q of %s (%s)", c.ID(), ob.kind, e.Filename, e.Line, e.Column, e.Token.Val, e.Token.Filename, ob.msg)
		return
	}
	if e.Token != nil {
		if why := spelledAt(src, off, e.Token); why != "" {
			t.Fail("error:token-not-at-position:"+sender+":"+typName(e.Token.Typ), "%s: %s error in %s at line %d col %d: %s (%s)", c.ID(), ob.kind, e.Filename, e.Line, e.Column, why, ob.msg)
			return
		}
	}
	// shift invariance
	if c.Prefix != "" && e.Filename == "/main" {
		files2 := map[string]string{}
		for k, v := range c.Files {
			files2[k] = v
		}
		pre := string(c.Prefix)
		files2["/main"] = pre + c.Files["/main"]
		ob2 := observe(files2)
		if ob2.e == nil || ob2.kind != ob.kind {
			t.Fail("shift:error-changed:"+sender, "%s: with the prefix the outcome changes from %s(%s) to %s(%s)", c.ID(), ob.kind, ob.msg, ob2.kind, ob2.msg)
			return
		}
		nl := strings.Count(pre, "\n")
		wantLine := e.Line + nl
		wantCol := e.Column
		if e.Line == 1 {
			wantCol = e.Column + len(pre) - (strings.LastIndexByte(pre, '\n') + 1)
		}
		if ob2.e.Line != wantLine || ob2.e.Column != wantCol {
			t.Fail("shift:wrong-shift:"+sender, "%s: error at %d:%d moves to %d:%d after inserting %q, want %d:%d", c.ID(), e.Line, e.Column, ob2.e.Line, ob2.e.Column, pre, wantLine, wantCol)
		}
	}
}

// corpus: each program is a list of pieces; a piece is literal text or a tag/variable given as a token list.
type piece struct {
	text string
	toks []string
}

func tx(s string) piece        { return piece{text: s} }
func tg(toks ...string) piece  { return piece{toks: toks} }
func vr(toks ...string) piece  { return piece{toks: append(append([]string{"{{"}, toks...), "}}")} }
func blk(toks ...string) piece { return piece{toks: append(append([]string{"{%"}, toks...), "%}")} }

func corpus() map[string][]piece {
	return map[string][]piece{
		"var":         {tx("x"), vr("a", "|", "add", ":", "1"), tx("y")},
		"var-path":    {vr("m", ".", "k"), vr("l", ".", "0"), vr("f", "(", "a", ")")},
		"var-str":     {vr(`"s\"q"`, "|", "upper"), vr("'t'")},
		"expr":        {vr("a", "+", "2", "*", "(", "a", "-", "1", ")"), vr("a", "==", "1", "and", "not", "b")},
		"if":          {blk("if", "a", ">", "0"), tx("p"), blk("elif", "b"), tx("q"), blk("else"), tx("r"), blk("endif")},
		"for":         {blk("for", "i", "in", "l"), vr("i"), blk("empty"), tx("e"), blk("endfor")},
		"for-kv":      {blk("for", "k", ",", "v", "in", "m", "sorted"), vr("k"), blk("endfor")},
		"with":        {blk("with", "z", "=", "a"), vr("z"), blk("endwith")},
		"set":         {blk("set", "z", "=", "a", "+", "1"), vr("z")},
		"macro":       {blk("macro", "mm", "(", "p", ",", "q", "=", "2", ")"), vr("p"), blk("endmacro"), vr("mm", "(", "1", ")")},
		"filter":      {blk("filter", "upper", "|", "cut", ":", `"A"`), tx("abc"), blk("endfilter")},
		"firstof":     {blk("firstof", "b", "a", `"d"`)},
		"cycle":       {blk("for", "i", "in", "l"), blk("cycle", `"x"`, `"y"`, "as", "c", "silent"), blk("endfor")},
		"ifchanged":   {blk("for", "i", "in", "l"), blk("ifchanged", "i"), tx("c"), blk("else"), tx("s"), blk("endifchanged"), blk("endfor")},
		"ifequal":     {blk("ifequal", "a", "1"), tx("e"), blk("else"), tx("n"), blk("endifequal")},
		"include":     {blk("include", `"inc"`, "with", "z", "=", "a", "only")},
		"include-l":   {blk("include", "b", "if_exists")},
		"import":      {blk("import", `"lib"`, "mac", "as", "mm"), vr("mm", "(", "1", ")")},
		"ssi":         {blk("ssi", `"inc"`, "parsed")},
		"block":       {blk("block", "bb"), tx("t"), vr("block", ".", "Super"), blk("endblock", "bb")},
		"extends":     {blk("extends", `"base"`), blk("block", "c"), tx("t"), blk("endblock")},
		"autoescape":  {blk("autoescape", "off"), vr("b"), blk("endautoescape")},
		"spaceless":   {blk("spaceless"), tx("<a> </a>"), blk("endspaceless")},
		"templatetag": {blk("templatetag", "openblock")},
		"widthratio":  {blk("widthratio", "a", "2", "100", "as", "w"), vr("w")},
		"now":         {blk("now", `"2006"`, "fake")},
		"lorem":       {blk("lorem", "2", "w")},
		"comment":     {blk("comment"), tx("c"), blk("endcomment"), vr("a")},
		"exec-err":    {tx("x"), vr("fail", "(", ")"), tx("y")},
		"exec-div":    {tx("x\n"), vr("a", "/", "0")},
		"exec-call":   {vr("f", "(", `"s"`, ")")},
		"exec-index":  {vr("a", ".", "x")},
		"exec-filter": {tx("x"), vr("b", "|", "pluralize"), tx("y")},
		"exec-slice":  {tx("x\n"), blk("if", "a"), vr("l", "|", "slice", ":", `"x"`), blk("endif")},
		"exec-date":   {vr("a", "|", "date", ":", `"2006"`)},
		"trim":        {tx("x "), piece{toks: []string{"{{-", "a", "-}}"}}, tx(" y"), piece{toks: []string{"{%-", "if", "a", "-%}"}}, tx("z"), blk("endif")},
	}
}

var extraFiles = map[string]string{
	"/inc":  "I{{ z }}",
	"/lib":  "{% macro mac(p) export %}<{{ p }}>{% endmacro %}",
	"/base": "B{% block c %}b{% endblock %}",
	"/s":    "S",
}

var replacements = []string{"a", "1", `"s"`, "(", ")", "|", ":", ".", ",", "=", "in", "%}", "}}", "endif", "nosuchtag"}

func renderPieces(ps []piece, gap, sep string) string {
	var b strings.Builder
	for i, p := range ps {
		if i > 0 {
			b.WriteString(sep)
		}
		if p.toks == nil {
			b.WriteString(p.text)
			continue
		}
		for j, tk := range p.toks {
			if j > 0 {
				b.WriteString(gap)
			}
			b.WriteString(tk)
		}
	}
	return b.String()
}

// TwinCase: two files with byte-identical text are two templates: an error raised in the second one names the
// second one (file name, token) although the first one was compiled - and failed - just before.
type TwinCase struct {
	Text eng.Q `json:"text"`
}

func (c *TwinCase) ID() string { return fmt.Sprintf("two files with the text %q", string(c.Text)) }

func (c *TwinCase) Exec(t *eng.T) {
	t.Nontrivial()
	files := map[string]string{"/pages/first.tpl": string(c.Text), "/pages/second.tpl": string(c.Text), "/pages/inc": "I"}
	set, _ := px.NewSet(files)
	cx := pongo2.Context{"zero": 0, "fail": func() (string, error) { return "", fmt.Errorf("boom") }}
	var errs []*pongo2.Error
	for _, name := range []string{"/pages/first.tpl", "/pages/second.tpl", "/pages/first.tpl"} {
		tpl, out := px.CompileFile(set, name)
		if tpl != nil {
			out = px.Exec(tpl, cx)
		}
		if out.Panic != "" {
			t.Fail("twin:panic", "%s: %s panics: %s", c.ID(), name, out.PanicMsg)
			return
		}
		if out.PErr == nil {
			t.Outcome("no-error")
			return // the text does not fail: nothing to compare
		}
		errs = append(errs, out.PErr)
		if out.PErr.Filename != name && out.PErr.Line > 0 {
			t.Fail("twin:foreign-filename", "%s: the error raised for %s names %q (line %d col %d: %v)", c.ID(), name, out.PErr.Filename, out.PErr.Line, out.PErr.Column, out.PErr.OrigError)
			return
		}
		if out.PErr.Token != nil && out.PErr.Token.Filename != name {
			t.Fail("twin:foreign-token", "%s: the error raised for %s carries a token of %q", c.ID(), name, out.PErr.Token.Filename)
			return
		}
	}
	t.Outcome(fmt.Sprint(errs[0].Line, errs[0].Column))
	if errs[0].Line != errs[1].Line || errs[0].Column != errs[1].Column {
		t.Fail("twin:position-differs", "%s: the same text fails at %d:%d in the first file and at %d:%d in the second", c.ID(), errs[0].Line, errs[0].Column, errs[1].Line, errs[1].Column)
	}
}

func run(r *eng.Runner) {
	// (a)
	alpha := []string{"{", "}", "%", "#", "-", "\"", "'", "\\", "|", ":", ".", "(", "=", " ", "\n", "a", "1", "\xc3\xa9"}
	L := 4
	if !r.Quick() {
		L = 5
	}
	r.Group("lex-strings", "c16.lex", fmt.Sprintf("every string of <=%d symbols over %d lexer-significant symbols: every token's (line,col) checked against the source", L, len(alpha)))
	r.NoDedup()
	enum.Strings(alpha, L, func(s string, _ []int) bool {
		r.Do(&LexCase{Src: eng.Q(s)})
		return !r.Stopped()
	})
	pres := []string{"", "x", "\n", "\xc3\xa9\n", "x\r\n", "{# c #}", "{% verbatim %}{{\n{% endverbatim %}", "{{ \"q\\\"\" }}", "a\n\nb", "a\n{ b ", "{ }\n{\n", "\n{\n{ c: d }\n"}
	opens := []string{"{{", "{%", "{{-", "{%-", "{#"}
	closes := []string{"}}", "%}", "-}}", "-%}", "#}", ""}
	mid := []string{"a", "1", " ", "\"", "'", "\\", "|", ".", "-", "(", "=", "\xc3\xa9", "\n", "=="}
	posts := []string{"", "x", "\n{{ a }}"}
	M := 3
	if !r.Quick() {
		M = 4
	}
	r.Group("lex-structured", "c16.lex", fmt.Sprintf("prefix (12; three with braces that start nothing after line breaks) + opening delimiter (5) + <=%d inner symbols (14) + closing delimiter (6) + suffix (3)", M))
	for _, pre := range pres {
		for _, op := range opens {
			enum.Strings(mid, M, func(m string, _ []int) bool {
				for _, cl := range closes {
					for _, po := range posts {
						r.Do(&LexCase{Src: eng.Q(pre + op + m + cl + po)})
					}
				}
				return !r.Stopped()
			})
		}
	}

	// (b)
	cp := corpus()
	var names []string
	for k := range cp {
		names = append(names, k)
	}
	sortStrings(names)
	gaps := []string{" ", "  "}
	seps := []string{"", "x", "\n", "\xc3\xa9\n", "\r\n"}
	prefixes := []string{"", "x", "\n", "\xc3\xa9", "xy\n\nz", "\xef\xbb\xbf", "s {\n t { u }\n"}
	if r.Quick() {
		gaps = []string{" "}
		seps = []string{"", "\n", "\xc3\xa9\n"}
		prefixes = []string{"", "\xc3\xa9", "xy\n\nz", "\xef\xbb\xbf", "s {\n t { u }\n"} // a byte order mark in front of the file; inline CSS: braces that start nothing
	}
	r.Group("error-positions", "c16.err", fmt.Sprintf("%d corpus programs (every tag) x every single-token edit (delete, duplicate, replace by each of %d tokens) x %d gaps x %d separators x %d prefixes; compile and execution errors", len(names), len(replacements), len(gaps), len(seps), len(prefixes)))
	for _, name := range names {
		ps := cp[name]
		// positions of editable tokens
		type pos struct{ p, t int }
		var positions []pos
		for pi, p := range ps {
			for ti := range p.toks {
				positions = append(positions, pos{pi, ti})
			}
		}
		emit := func(kind string, edited []piece) {
			for _, gap := range gaps {
				for _, sep := range seps {
					main := renderPieces(edited, gap, sep)
					for _, pre := range prefixes {
						files := map[string]string{"/main": main}
						for k, v := range extraFiles {
							files[k] = v
						}
						r.Do(&ErrCase{Files: files, Prefix: eng.Q(pre), Kind: kind})
					}
				}
			}
		}
		emit(name+"/orig", ps)
		for _, po := range positions {
			clone := func() []piece {
				out := make([]piece, len(ps))
				for i, p := range ps {
					out[i] = piece{text: p.text}
					if p.toks != nil {
						out[i].toks = append([]string{}, p.toks...)
					}
				}
				return out
			}
			// delete
			e := clone()
			e[po.p].toks = append(e[po.p].toks[:po.t], e[po.p].toks[po.t+1:]...)
			if len(e[po.p].toks) == 0 {
				e[po.p] = tx("")
			}
			emit(fmt.Sprintf("%s/del%d.%d", name, po.p, po.t), e)
			// duplicate
			e = clone()
			tk := e[po.p].toks[po.t]
			e[po.p].toks = append(e[po.p].toks[:po.t+1], append([]string{tk}, e[po.p].toks[po.t+1:]...)...)
			emit(fmt.Sprintf("%s/dup%d.%d", name, po.p, po.t), e)
			// replace
			for _, rep := range replacements {
				if rep == ps[po.p].toks[po.t] {
					continue
				}
				e = clone()
				e[po.p].toks[po.t] = rep
				emit(fmt.Sprintf("%s/rep%d.%d=%s", name, po.p, po.t, rep), e)
			}
			if r.Stopped() {
				return
			}
		}
	}

	// errors inside included / extended / imported files
	r.Group("error-in-subtemplate", "c16.err", "a broken or failing sub-template reached by include (static, lazy), extends, import, ssi: the error must name the sub-template and point into its source")
	broken := []string{"\xef\xbb\xbf{% if %}", "\xef\xbb\xbfab {{ fail() }}", "\xef\xbb\xbf\n{% for %}", "ab\n{% block a %}1{% endblock %}\n{% block a %}2{% endblock %}", "{% block a %}{% block a %}{% endblock %}{% endblock %}", "\n\n{% macro mac() export %}{% endmacro %}{% macro mac() export %}{% endmacro %}",
		"{% if a %}x{% elif %}y{% endif %}", "ab\n{% if a %}x{% else 1 %}y{% endif %}", "{% for i in l %}x{% empty 1 %}{% endfor %}", "\n{% ifequal a 1 %}{% else x %}{% endifequal %}", "{% for i in l %}{% endfor 1 %}", "{% block a %}{% endblock b %}", "{% with %}x{% endwith %}",
		"ok{{ }", "x\n{% if %}", "{% nosuchtag %}", "é{{ 1|nosuchfilter }}", "a\n\n{{ fail() }}", "{{ a/0 }}", "{% for %}", "{{ \"unterminated }}"}
	for _, bsrc := range broken {
		for _, ref := range []string{`{% include "sub" %}`, `{% include b_sub %}`, `{% extends "sub" %}`, `{% import "sub" mac %}`, `{% ssi "sub" parsed %}`, "pre\n{% include \"sub\" %}"} {
			files := map[string]string{"/main": ref, "/sub": bsrc}
			r.Do(&ErrCase{Files: files, Kind: "sub"})
		}
	}
	// execution failures inside a composition: the error must name the file the failing construct is written in
	r.Group("error-in-composition", "c16.err", "a construct that fails at execution time, written in: the overriding block of a child (1 and 2 levels), a block of a base or middle template that is not overridden, a parent block reached through block.Super, an imported macro, a locally defined macro, an included file that itself extends; x layouts in front of it")
	fails := []string{"{{ fail() }}", "{{ a/0 }}", "{{ f(\"s\") }}", "{{ b|pluralize }}", "{% include b_nofile %}", "{{ a.x.y }}", "{% widthratio a 0 0 %}", "{% for i in l %}{{ fail() }}{% endfor %}", "{% if a %}{{ l|slice:\"x\" }}{% endif %}"}
	lays := []string{"", "\n  ", "é\n\n"}
	for _, f := range fails {
		for _, lay := range lays {
			F := lay + f
			comps := []map[string]string{
				{"/main": "{% extends \"base\" %}\n{% block c %}" + F + "{% endblock %}", "/base": "B\n\n\n[{% block c %}b{% endblock %}]"},
				{"/main": "{% extends \"base\" %}{% block d %}x{% endblock %}", "/base": "B\n[{% block c %}" + F + "{% endblock %}]{% block d %}{% endblock %}"},
				{"/main": "{% extends \"base\" %}\n\n{% block c %}<{{ block.Super }}>{% endblock %}", "/base": "B[{% block c %}" + F + "{% endblock %}]"},
				{"/main": "{% extends \"mid\" %}\n{% block c %}" + F + "{% endblock %}", "/mid": "{% extends \"base\" %}{% block d %}m{% endblock %}", "/base": "B[{% block c %}b{% endblock %}{% block d %}{% endblock %}]"},
				{"/main": "{% extends \"mid\" %}\n{% block c %}ok{% endblock %}", "/mid": "\n\n{% extends \"base\" %}{% block d %}" + F + "{% endblock %}", "/base": "B[{% block c %}b{% endblock %}{% block d %}{% endblock %}]"},
				{"/main": "x\n{% import \"lib\" mac %}{{ mac(1) }}", "/lib": "{% macro mac(p) export %}" + F + "{% endmacro %}"},
				{"/main": "{% macro mm(p) %}" + F + "{% endmacro %}\n\n{{ mm(1) }}"},
				{"/main": "x{% include \"sub\" %}", "/sub": "{% extends \"base\" %}{% block c %}" + F + "{% endblock %}", "/base": "B[{% block c %}b{% endblock %}]"},
				{"/main": "x{% include \"sub\" %}", "/sub": "\n{% import \"lib\" mac %}{{ mac(1) }}", "/lib": "\n\n{% macro mac(p) export %}" + F + "{% endmacro %}"},
				// an error raised by the macro machinery itself (too many arguments) while the macro lives in another file
				{"/main": "x\n" + lay + "{% import \"lib\" mac %}{{ mac(1, 2, 3) }}", "/lib": "\n\n {% macro mac(p) export %}" + f + "{% endmacro %}"},
				{"/main": lay + "{% macro mm(p) %}" + f + "{% endmacro %}\n{{ mm(1, 2) }}"},
			}
			for _, files := range comps {
				r.Do(&ErrCase{Files: files, Kind: "comp"})
			}
		}
	}
	// load failures
	r.Group("identical-texts", "c16.twin", "two files of one set with byte-identical text that fails (compile errors of the lexer and the parser, execution errors in a variable, a filter, a call, a tag argument, inside a macro and a block): compiled and executed one after the other, each error names the file it was raised for")
	for _, txt := range []string{"x\n{{ 1 / zero }}", "{{ \"abc", "a {% if %}", "\n\n  {{ fail() }}", "{{ zero|pluralize:\"a,b,c\" }}", "{% macro m() %}{{ fail() }}{% endmacro %}\n{{ m() }}", "{% block b %}\n {{ 5 % zero }}{% endblock %}",
		"{% for i in \"ab\" %}{% widthratio 1 zero fail() %}{% endfor %}", "{% include \"inc\" %}{% nosuchtag %}", "{{ 1|nosuchfilter }}", "{% with a=fail() %}{% endwith %}", "{% filter add:fail() %}x{% endfilter %}"} {
		r.Do(&TwinCase{Text: eng.Q(txt)})
	}
	r.Group("load-failure", "c16.err", "references to a file no loader has (include, extends, import, ssi): the error must name a template that is involved")
	for _, ref := range []string{`{% include "nofile" %}`, `x{% include b_nofile %}`, "\n{% extends \"nofile\" %}", `{% import "nofile" mac %}`, `{% ssi "nofile" parsed %}`, `{% ssi "nofile" %}`} {
		r.Do(&ErrCase{Files: map[string]string{"/main": ref}, Kind: "load"})
	}
}

func sortStrings(s []string) {
	for i := 1; i < len(s); i++ {
		for j := i; j > 0 && s[j] < s[j-1]; j-- {
			s[j], s[j-1] = s[j-1], s[j]
		}
	}
}

func init() {
	eng.RegisterCase("c16.lex", func() eng.Case { return &LexCase{} })
	eng.RegisterCase("c16.err", func() eng.Case { return &ErrCase{} })
	eng.RegisterCase("c16.twin", func() eng.Case { return &TwinCase{} })
	eng.Register(&eng.Check{
		ID:    "C16",
		Title: "Diagnostics point at the right place",
		Rule: "(a) every string up to the length bound over the lexer alphabet, and every structured string prefix+opener+inner+closer+suffix, is lexed by the real lexer (hook VerifLex) and every token's (line, col) is converted to a byte offset at which the token's source spelling must be found; " +
			"(b) every single-token edit of a corpus covering every tag, in every layout, is compiled and executed; each *Error must name a template involved, point inside that source, at its token's spelling, and shift by exactly the inserted lines/columns when a prefix is inserted. Non-trivial: (a) more than one token, (b) an error with position information was produced.",
		Assumptions: []string{
			"position convention read from the lexer: line = 1 + number of LF before the token, column = 1 + bytes since the line start; string tokens point at their opening quote; trimming delimiters at their 3-character spelling",
			"errors without a position (Line 0) are only checked for their file name",
		},
		Run: run,
	})
}
