// Package c02: autoescape - context strings never reach the output unescaped.
package c02

import (
	"fmt"
	"sort"
	"strings"
	"time"

	"github.com/flosch/pongo2/v6"

	"verifmc/internal/eng"
	"verifmc/internal/px"
)

const taint = `q<7>w&e'r"t`
const twin = `qa7bwcedrft`

// a context text that LOOKS escaped already: its ampersands are text like any other
const entityTaint = `x&lt;y&#60;z&amp;w`

var entityPieces = []string{"&lt;y", "&#60;z", "&amp;w"}

type stringerT struct{ s string }

func (s stringerT) String() string { return s.s }

type holder struct {
	F  string
	Sg stringerT
}

func (h holder) Method() string      { return h.F }
func (h *holder) PtrMethod() string  { return h.F }
func (h holder) Arg(s string) string { return s }
func (h holder) Val() *pongo2.Value  { return pongo2.AsValue(h.F) }

func ctxFor(m string) pongo2.Context {
	ps := m
	return pongo2.Context{
		"t":   m,
		"m":   map[string]any{"k": m, "n": map[string]string{"d": m}},
		"mk":  map[string]int{m: 1},
		"l":   []string{m, "x"},
		"la":  []any{m, 1},
		"arr": [2]string{m, "y"},
		"st":  holder{F: m, Sg: stringerT{m}},
		"p":   &holder{F: m, Sg: stringerT{m}},
		"ps":  &ps,
		"sg":  stringerT{m},
		"fn":  func() string { return m },
		"fa":  func(s string) string { return s },
		"val": pongo2.AsValue(m),
		"n":   5,
		"e":   "",
		// a type whose String method has a pointer receiver, reached BY VALUE in addressable places
		"pts": []ptrStringerT{{m}, {"y"}},
		"pp":  &pholder{T: ptrStringerT{m}},
		// a value Go code marked safe (its own markup), to be combined with tainted text
		"sv":  pongo2.AsSafeValue("<u>"),
		"svl": []*pongo2.Value{pongo2.AsSafeValue("<u>"), pongo2.AsSafeValue("<b>")},
		// a named string type whose own text is harmless while its String method returns the context's text
		"tagd": taggedT{text: m}.named(), "ptagd": taggedT{text: m}.namedPtr(), "tagl": []taggedName{taggedT{text: m}.named()},
		// the same pointer-receiver Stringer type by value (not a Stringer) and behind a pointer (a Stringer)
		"ptv": []ptrStringerT{{"harmless"}}, "ptp": &ptrStringerT{m},
	}
}

// taggedName prints as the text registered for it (the underlying string stays a harmless key)
type taggedName string

var taggedTexts = map[taggedName]string{}

func (n taggedName) String() string { return taggedTexts[n] }

type taggedT struct{ text string }

func (t taggedT) named() taggedName {
	taggedTexts["key"] = t.text
	return taggedName("key")
}

func (t taggedT) namedPtr() *taggedName { n := t.named(); return &n }

type ptrStringerT struct{ s string }

func (p *ptrStringerT) String() string { return p.s }

type pholder struct{ T ptrStringerT }

type gen struct {
	n     int
	files map[string]string
	pre   strings.Builder // definitions that must precede (macros)
}

func (g *gen) name(p string) string { g.n++; return fmt.Sprintf("%s%d", p, g.n) }

type source struct {
	name string
	expr string
	// wrap, if set, is needed to bring the value into scope (e.g. iterating map keys)
	wrap func(g *gen, inner func(e string) string) string
}

func sources() []source {
	return []source{
		{name: "string", expr: "t"},
		{name: "map-value", expr: "m.k"},
		{name: "nested-map-value", expr: "m.n.d"},
		{name: "slice-item", expr: "l.0"},
		{name: "any-slice-item", expr: "la.0"},
		{name: "array-item", expr: "arr.0"},
		{name: "struct-field", expr: "st.F"},
		{name: "pointer-field", expr: "p.F"},
		{name: "string-pointer", expr: "ps"},
		{name: "stringer", expr: "sg"},
		{name: "stringer-field", expr: "st.Sg"},
		{name: "func-result", expr: "fn()"},
		{name: "func-auto-call", expr: "fn"},
		{name: "method-result", expr: "st.Method"},
		{name: "ptr-method-result", expr: "p.PtrMethod()"},
		{name: "method-arg-echo", expr: "st.Arg(t)"},
		{name: "func-arg-echo", expr: "fa(t)"},
		{name: "value-wrapper", expr: "val"},
		{name: "method-value-result", expr: "st.Val"},
		{name: "subscript", expr: `m["k"]`},
		{name: "list-joined", expr: `l|join:","`},
		{name: "list-first", expr: `l|first`},
		{name: "any-list-joined", expr: `la|join:"+"`},
		{name: "map-value-default", expr: `e|default:m.k`},
		{name: "ptr-stringer-slice-item", expr: "pts.0"},
		{name: "ptr-stringer-field", expr: "pp.T"},
		{name: "ptr-stringer-iteration", wrap: func(g *gen, inner func(e string) string) string {
			x := g.name("x")
			return "{% for " + x + " in pts %}" + inner(x) + "{% endfor %}"
		}},
		{name: "map-key", wrap: func(g *gen, inner func(e string) string) string {
			k := g.name("k")
			return "{% for " + k + ", v in mk %}" + inner(k) + "{% endfor %}"
		}},
		{name: "slice-iteration", wrap: func(g *gen, inner func(e string) string) string {
			x := g.name("x")
			return "{% for " + x + " in l %}" + inner(x) + "{% endfor %}"
		}},
		{name: "string-chars", wrap: func(g *gen, inner func(e string) string) string {
			x := g.name("c")
			return "{% for " + x + " in t %}" + inner(x) + "{% endfor %}"
		}},
	}
}

type carrier struct {
	name  string
	apply func(g *gen, e string, inner func(e2 string) string) string
}

func carriers() []carrier {
	return []carrier{
		{"set", func(g *gen, e string, in func(string) string) string {
			x := g.name("s")
			return "{% set " + x + " = " + e + " %}" + in(x)
		}},
		{"with", func(g *gen, e string, in func(string) string) string {
			x := g.name("w")
			return "{% with " + x + "=" + e + " %}" + in(x) + "{% endwith %}"
		}},
		{"with-old", func(g *gen, e string, in func(string) string) string {
			x := g.name("w")
			return "{% with " + e + " as " + x + " %}" + in(x) + "{% endwith %}"
		}},
		{"macro-arg", func(g *gen, e string, in func(string) string) string {
			m, p := g.name("m"), g.name("p")
			return "{% macro " + m + "(" + p + ") %}" + in(p) + "{% endmacro %}{{ " + m + "(" + e + ") }}"
		}},
		{"macro-default", func(g *gen, e string, in func(string) string) string {
			m, p := g.name("m"), g.name("p")
			return "{% macro " + m + "(" + p + "=" + e + ") %}" + in(p) + "{% endmacro %}{{ " + m + "() }}"
		}},
		{"macro-result-set", func(g *gen, e string, in func(string) string) string {
			// the macro prints its (escaped) argument; its result is markup that is stored and printed again
			m, p, x := g.name("m"), g.name("p"), g.name("r")
			return "{% macro " + m + "(" + p + ") %}{{ " + p + " }}{% endmacro %}{% set " + x + " = " + m + "(" + e + ") %}{{ " + x + " }}" + in(e)
		}},
		{"imported-macro", func(g *gen, e string, in func(string) string) string {
			f, p := g.name("lib"), g.name("p")
			g.files["/"+f] = "{% macro mac(" + p + ") export %}" + in(p) + "{% endmacro %}"
			al := g.name("im")
			return `{% import "` + f + `" mac as ` + al + ` %}{{ ` + al + "(" + e + ") }}"
		}},
		{"include-with", func(g *gen, e string, in func(string) string) string {
			f, x := g.name("inc"), g.name("i")
			g.files["/"+f] = in(x)
			return `{% include "` + f + `" with ` + x + "=" + e + " %}"
		}},
		{"include-with-only", func(g *gen, e string, in func(string) string) string {
			f, x := g.name("inc"), g.name("i")
			g.files["/"+f] = in(x)
			return `{% include "` + f + `" with ` + x + "=" + e + " only %}"
		}},
		{"include-lazy-with", func(g *gen, e string, in func(string) string) string {
			f, x := g.name("inc"), g.name("i")
			g.files["/"+f] = in(x)
			return `{% include "` + f + `"|lower with ` + x + "=" + e + " %}"
		}},
		{"include-inherits", func(g *gen, e string, in func(string) string) string {
			f, x := g.name("inc"), g.name("s")
			g.files["/"+f] = in(x)
			return "{% set " + x + " = " + e + ` %}{% include "` + f + `" %}`
		}},
		{"ssi-parsed", func(g *gen, e string, in func(string) string) string {
			f, x := g.name("ssi"), g.name("s")
			g.files["/"+f] = in(x)
			return "{% set " + x + " = " + e + ` %}{% ssi "` + f + `" parsed %}`
		}},
		{"array-for", func(g *gen, e string, in func(string) string) string {
			x := g.name("a")
			return "{% for " + x + " in [" + e + ", 1] %}" + in(x) + "{% endfor %}"
		}},
		{"array-first", func(g *gen, e string, in func(string) string) string { return in("[" + e + "]|first") }},
		{"array-last", func(g *gen, e string, in func(string) string) string { return in("[1, " + e + "]|last") }},
		{"array-join", func(g *gen, e string, in func(string) string) string { return in("[" + e + ", " + e + `]|join:"-"`) }},
		{"array-slice-join", func(g *gen, e string, in func(string) string) string {
			return in("[" + e + `, 2]|slice:":1"|join:""`)
		}},
		{"array-set-index", func(g *gen, e string, in func(string) string) string {
			x := g.name("a")
			return "{% set " + x + " = [" + e + "] %}" + in(x+".0")
		}},
		{"concat-right", func(g *gen, e string, in func(string) string) string { return in("(" + e + ` + "")`) }},
		{"concat-left", func(g *gen, e string, in func(string) string) string { return in(`("" + ` + e + ")") }},
		{"concat-self", func(g *gen, e string, in func(string) string) string { return in("(" + e + " + " + e + ")") }},
		// tainted text combined with markup that is legitimately safe (a macro result, a value marked safe by Go code)
		{"concat-safe-macro-left", func(g *gen, e string, in func(string) string) string {
			m := g.name("sm")
			return "{% macro " + m + "() %}<i>{% endmacro %}" + in("("+m+"() + "+e+")")
		}},
		{"concat-safe-macro-right", func(g *gen, e string, in func(string) string) string {
			m := g.name("sm")
			return "{% macro " + m + "() %}<i>{% endmacro %}" + in("("+e+" + "+m+"())")
		}},
		{"concat-go-safe-left", func(g *gen, e string, in func(string) string) string { return in("(sv + " + e + ")") }},
		{"concat-go-safe-right", func(g *gen, e string, in func(string) string) string { return in("(" + e + " + sv)") }},
		// an explicit escape earlier in the chain does not make what later filters bring in safe
		{"escape-then-default-arg", func(g *gen, e string, in func(string) string) string { return in("e|escape|default:" + atom(e)) }},
		{"escape-then-add-arg", func(g *gen, e string, in func(string) string) string { return in(`"z"|escape|add:` + atom(e)) }},
		{"escape-then-join-arg", func(g *gen, e string, in func(string) string) string { return in(`"ab"|escape|join:` + atom(e)) }},
		// a list of legitimately safe items joined with a tainted separator
		{"join-safe-items-arg", func(g *gen, e string, in func(string) string) string {
			m := g.name("sm")
			return "{% macro " + m + "() %}<i>{% endmacro %}" + in("["+m+"(), "+m+"()]|join:"+atom(e))
		}},
		{"join-go-safe-items-arg", func(g *gen, e string, in func(string) string) string { return in("svl|join:" + atom(e)) }},
		{"default-arg", func(g *gen, e string, in func(string) string) string { return in("e|default:" + atom(e)) }},
		{"add-arg", func(g *gen, e string, in func(string) string) string { return in(`"z"|add:` + atom(e)) }},
		{"join-arg", func(g *gen, e string, in func(string) string) string { return in("l|join:" + atom(e)) }},
		{"for-over-chars", func(g *gen, e string, in func(string) string) string {
			x := g.name("c")
			return "{% for " + x + " in " + e + " %}" + in(x) + "{% endfor %}"
		}},
		{"cycle-as", func(g *gen, e string, in func(string) string) string {
			x := g.name("cy")
			return "{% cycle " + e + " as " + x + " silent %}" + in(x)
		}},
		{"ifchanged-body", func(g *gen, e string, in func(string) string) string {
			return "{% ifchanged %}" + in(e) + "{% endifchanged %}"
		}},
		{"ifchanged-watch", func(g *gen, e string, in func(string) string) string {
			return "{% ifchanged " + e + " %}" + in(e) + "{% endifchanged %}"
		}},
		{"filter-tag-body", func(g *gen, e string, in func(string) string) string {
			return "{% filter upper %}" + in(e) + "{% endfilter %}"
		}},
		{"spaceless-body", func(g *gen, e string, in func(string) string) string {
			return "{% spaceless %}" + in(e) + "{% endspaceless %}"
		}},
		{"autoescape-on", func(g *gen, e string, in func(string) string) string {
			return "{% autoescape on %}" + in(e) + "{% endautoescape %}"
		}},
		{"if-branch", func(g *gen, e string, in func(string) string) string {
			return "{% if " + e + " %}" + in(e) + "{% else %}" + in(e) + "{% endif %}"
		}},
		{"block-super", func(g *gen, e string, in func(string) string) string {
			// handled specially by the builder (needs its own file pair); here: a block at top level
			b := g.name("b")
			return "{% block " + b + " %}" + in(e) + "{% endblock %}"
		}},
	}
}

// atom: filter parameters accept only a name/literal, so bind complex expressions first
func atom(e string) string {
	for _, c := range e {
		if !(c >= 'a' && c <= 'z' || c >= 'A' && c <= 'Z' || c >= '0' && c <= '9' || c == '.' || c == '_') {
			return "t" // fall back to the plain tainted name: still a tainted argument
		}
	}
	return e
}

type sink struct {
	name string
	src  func(e string) string
}

func sinks() []sink {
	return []sink{
		{"print", func(e string) string { return "{{ " + e + " }}" }},
		{"firstof", func(e string) string { return "{% firstof " + e + " %}" }},
		{"cycle", func(e string) string { return "{% cycle " + e + " %}" }},
		{"filter-tag", func(e string) string { return "{% filter lower %}{{ " + e + " }}{% endfilter %}" }},
		{"print-lower", func(e string) string { return "{{ " + e + "|lower }}" }},
		{"filter-tag-param", func(e string) string { return "{% filter default:" + atom(e) + " %}{% endfilter %}" }},
		{"filter-tag-param-join", func(e string) string { return "{% filter default:l|join:\",\" %}{% endfilter %}{{ " + e + " }}" }},
		{"filter-tag-param-first", func(e string) string { return "{% filter default:la|first %}{% endfilter %}{{ " + e + " }}" }},
		{"filter-tag-param-list", func(e string) string { return "{% filter default:l %}{% endfilter %}{{ " + e + " }}" }},
		// a list written in the template as parameter: its items are the context's text all the same
		{"filter-tag-param-written-list", func(e string) string {
			return "{% filter default:[" + atom(e) + ", 1]|first %}{% endfilter %}{% filter default:[" + atom(e) + "]|join:\"\" %}{% endfilter %}{% set wl = [" + atom(e) + "] %}{% filter default:wl|last %}{% endfilter %}"
		}},
		{"widthratio-noise", func(e string) string { return "{% widthratio 1 2 100 %}{{ " + e + " }}" }},
	}
}

// ---- the case ----

type Case struct {
	Files map[string]string `json:"files"`
	Label string            `json:"label"`
	Route string            `json:"route"` // source/carrier.../sink names (the violation key)
	// Switched: the template is compiled while the package-wide default (SetAutoescape) is OFF; the default is
	// switched back on before the execution, which therefore is an execution with autoescaping on
	Switched bool `json:"switched,omitempty"`
	// Entity: rendered with the marker that looks like escaped text instead
	Entity bool `json:"entity,omitempty"`
}

func (c *Case) ID() string {
	var ks []string
	for k := range c.Files {
		ks = append(ks, k)
	}
	sort.Strings(ks)
	var b strings.Builder
	for _, k := range ks {
		fmt.Fprintf(&b, "%s=%q ", k, c.Files[k])
	}
	if c.Switched {
		b.WriteString("compiled-while-the-default-was-off ")
	}
	if c.Entity {
		b.WriteString("entity-shaped-marker ")
	}
	return b.String()
}

var rawPieces = []string{"<7", "7>", "&e", "e'", `r"`}

func rawCount(s string) int {
	return strings.Count(s, "<") + strings.Count(s, ">") + strings.Count(s, `"`) + strings.Count(s, "'")
}

func (c *Case) Exec(t *eng.T) {
	t.Nontrivial()
	render := func(m string) px.Out {
		set, _ := px.NewSet(c.Files)
		if c.Switched {
			pongo2.SetAutoescape(false)
		}
		tpl, out := px.CompileFile(set, "/main")
		pongo2.SetAutoescape(true)
		if tpl == nil {
			return out
		}
		return px.Exec(tpl, ctxFor(m))
	}
	if c.Entity {
		out := render(entityTaint)
		t.Outcome(out.Kind())
		if out.Panic != "" || out.Failed() {
			t.Skip()
			return
		}
		low := strings.ToLower(out.S)
		for _, p := range entityPieces {
			if strings.Contains(low, p) {
				t.Fail("leak-entity-shaped:"+c.Route, "%s: the context text %q reaches the output %q with its ampersand unescaped (%q)", c.ID(), entityTaint, out.S, p)
				return
			}
		}
		return
	}
	out := render(taint)
	t.Outcome(out.Kind())
	if out.Panic != "" {
		t.Fail("escape:panic:"+out.Panic, "%s panics: %s", c.ID(), out.PanicMsg)
		return
	}
	if out.Failed() {
		// a program that does not compile/run leaks nothing
		t.Skip()
		return
	}
	low := strings.ToLower(out.S)
	for _, p := range rawPieces {
		if strings.Contains(low, p) {
			t.Fail("leak:"+c.Route, "%s: the output %q contains the raw fragment %q of a context string", c.ID(), out.S, p)
			return
		}
	}
	tw := render(twin)
	if !tw.Failed() && rawCount(out.S) > rawCount(tw.S) {
		t.Fail("leak-transformed:"+c.Route, "%s: the output %q contains more raw < > \" ' than the same program on a harmless value (%q)", c.ID(), out.S, tw.S)
	}
}

// route key: the innermost elements are the most specific; keep source + last carrier + sink
func routeKey(src string, cs []string, sk string) string {
	last := "direct"
	if len(cs) > 0 {
		last = cs[len(cs)-1]
	}
	// normalise to the innermost element that can be responsible, most specific first
	switch {
	case sk == "cycle" || sk == "filter-tag-param":
		return "sink:" + sk
	case strings.HasPrefix(last, "array-"):
		return "carrier:array-literal/" + sk
	case last == "cycle-as":
		return "carrier:cycle-as/" + sk
	case src == "stringer" || src == "stringer-field" || src == "value-wrapper" || src == "method-value-result":
		return "source:" + src + "/" + sk
	}
	return src + "/" + last + "/" + sk
}

func run(r *eng.Runner) {
	srcs := sources()
	cars := carriers()
	snks := sinks()
	depth := 2
	if !r.Quick() {
		depth = 3
	}
	r.Group("routes", "c02.case", fmt.Sprintf("every taint source (%d) x every chain of 0..%d carriers (%d) x every sink (%d), opt-out-free, rendered with the marker %q and with a harmless twin", len(srcs), depth, len(cars), len(snks), taint))
	var rec func(src source, chain []int)
	build := func(src source, chain []int, sk sink) {
		g := &gen{files: map[string]string{}}
		var names []string
		var mk func(i int, e string) string
		mk = func(i int, e string) string {
			if i == len(chain) {
				return "[" + sk.src(e) + "]"
			}
			c := cars[chain[i]]
			return c.apply(g, e, func(e2 string) string { return mk(i+1, e2) })
		}
		for _, ci := range chain {
			names = append(names, cars[ci].name)
		}
		var main string
		if src.wrap != nil {
			main = src.wrap(g, func(e string) string { return mk(0, e) })
		} else {
			main = mk(0, src.expr)
		}
		g.files["/main"] = main
		r.Do(&Case{Files: g.files, Label: src.name + ">" + strings.Join(names, ">") + ">" + sk.name, Route: routeKey(src.name, names, sk.name)})
	}
	rec = func(src source, chain []int) {
		for si, sk := range snks {
			if len(chain) >= 3 && si > 1 {
				continue // chains of three carriers: the two main sinks only
			}
			build(src, chain, sk)
		}
		if len(chain) == depth || r.Stopped() {
			return
		}
		for ci := range cars {
			rec(src, append(append([]int{}, chain...), ci))
		}
	}
	for _, s := range srcs {
		rec(s, nil)
	}

	// inheritance: the tainted value printed inside an overriding block, inside block.Super, through two levels
	r.Group("inheritance", "c02.case", "tainted values printed in base blocks, overriding blocks and via block.Super, for every source and sink")
	for _, s := range srcs {
		if s.wrap != nil {
			continue
		}
		for _, sk := range snks {
			files := map[string]string{
				"/base": "B{% block a %}" + sk.src(s.expr) + "{% endblock %}{% block b %}b{% endblock %}",
				"/mid":  `{% extends "base" %}{% block a %}M{{ block.Super }}` + sk.src(s.expr) + "{% endblock %}",
				"/main": `{% extends "mid" %}{% block a %}L{{ block.Super }}{% endblock %}{% block b %}` + sk.src(s.expr) + "{% endblock %}",
			}
			r.Do(&Case{Files: files, Label: s.name + ">inheritance>" + sk.name, Route: routeKey(s.name, []string{"block-super"}, sk.name)})
		}
	}

	// every registered filter on a tainted input and with a tainted argument
	regs := pongo2.VerifRegisteredFilters()
	optout := map[string]bool{"safe": true, "truncatechars_html": true, "truncatewords_html": true}
	r.Group("filter-sweep", "c02.case", fmt.Sprintf("every registered filter (%d from the registry hook, minus the three opt-outs) applied to a tainted input (with no, a numeric, a string and a tainted argument) and to a harmless input with a tainted argument, printed by every sink; also chained after another filter", len(regs)))
	for _, f := range regs {
		if optout[f] || f == "random" {
			continue // random: documented to depend on randomness (it returns one character of the marker at a time; covered for totality by C01)
		}
		var exprs []string
		for _, in := range []string{"t", "l", "m", "sg", "la"} {
			exprs = append(exprs, in+"|"+f, in+"|"+f+":2", in+"|"+f+`:"a,b"`, in+"|"+f+":t", in+"|"+f+`:"1:2"`)
		}
		for _, in := range []string{`"x y"`, "5", "l", "e"} {
			exprs = append(exprs, in+"|"+f+":t", in+"|"+f+":m.k")
		}
		exprs = append(exprs, "t|upper|"+f, "t|"+f+"|lower", "t|"+f+"|"+f, "[t]|"+f, "[t, t]|"+f+`:"-"`)
		for _, e := range exprs {
			for _, sk := range snks[:4] {
				r.Do(&Case{Files: map[string]string{"/main": "[" + sk.src(e) + "]"}, Label: "filter:" + f, Route: routeKey("filter:"+f, nil, sk.name)})
			}
		}
		r.Do(&Case{Files: map[string]string{"/main": "{% filter " + f + " %}{{ t }}{% endfilter %}"}, Label: "filter-tag:" + f, Route: "filter-tag:" + f + "/body"})
		r.Do(&Case{Files: map[string]string{"/main": "{% filter " + f + ":t %}x y{% endfilter %}"}, Label: "filter-tag-param:" + f, Route: routeKey("filter:"+f, nil, "filter-tag-param")})
	}

	// the explicit opt-outs must not reach beyond themselves: tainted values printed OUTSIDE an opt-out stay escaped
	r.Group("optout-scope", "c02.case", "an autoescape-off region / a safe filter / a Go-safe value next to a tainted print: after the region ends, in the other branch, in the caller of an include or macro that switched escaping off, in the next loop iteration, on the other operand")
	for _, sk := range snks {
		pr := sk.src("t")
		off := "{% autoescape off %}h{% endautoescape %}"
		progs := map[string]map[string]string{
			"after-region":        {"/main": off + pr},
			"before-region":       {"/main": pr + off},
			"on-inside-off":       {"/main": "{% autoescape off %}h{% autoescape on %}" + pr + "{% endautoescape %}{% endautoescape %}" + pr},
			"loop-iteration":      {"/main": "{% for i in l %}" + pr + off + "{% endfor %}" + pr},
			"if-branches":         {"/main": "{% if e %}" + off + "{% else %}" + pr + "{% endif %}{% if n %}" + off + "{% endif %}" + pr},
			"after-include":       {"/main": `{% include "inc" %}` + pr, "/inc": off},
			"after-lazy-include":  {"/main": `{% include "inc"|lower %}` + pr, "/inc": off},
			"after-macro":         {"/main": "{% macro mm() %}" + off + "{% endmacro %}{{ mm() }}" + pr},
			"after-ssi":           {"/main": `{% ssi "inc" parsed %}` + pr, "/inc": off},
			"block-in-child":      {"/base": "{% block a %}" + off + "{% endblock %}" + pr, "/main": `{% extends "base" %}{% block a %}{{ block.Super }}` + pr + "{% endblock %}"},
			"safe-neighbour":      {"/main": `{{ "h"|safe }}` + pr + `{{ n|safe }}` + pr},
			"safe-other-operand":  {"/main": `{{ "h"|safe + t }}{{ t + "h"|safe }}`},
			"after-with-safe-lit": {"/main": `{% with z="h"|safe %}{{ z }}` + pr + "{% endwith %}" + pr},
			"failed-region":       {"/main": "{% for i in l %}" + pr + "{% endfor %}", "/x": ""},
		}
		var names []string
		for k := range progs {
			names = append(names, k)
		}
		sort.Strings(names)
		for _, n := range names {
			r.Do(&Case{Files: progs[n], Label: "optout-scope:" + n + ">" + sk.name, Route: "optout-scope:" + n + "/" + sk.name})
		}
	}

	// tags with expression arguments printed by the tag itself
	r.Group("tag-arguments", "c02.case", "tainted expressions as arguments of tags that print them: firstof with several arguments, cycle forms, widthratio, now, templatetag neighbours, lorem; include of a tainted file name (error text must not echo it raw into the output)")
	for _, s := range srcs {
		if s.wrap != nil {
			continue
		}
		e := s.expr
		progs := []struct{ sink, src string }{
			{"firstof", "{% firstof e " + e + " %}"}, {"firstof", "{% firstof " + e + " t %}"}, {"cycle", "{% for i in l %}{% cycle " + e + " \"k\" %}{% endfor %}"},
			{"cycle", "{% cycle " + e + " as cy %}{{ cy }}{% cycle cy %}"}, {"cycle-as-silent", "{% for i in l %}{% cycle \"k\" " + e + " as cy silent %}{{ cy }}{% endfor %}"},
			{"with-two", "{% with a=" + e + " b=" + e + " %}{{ a }}{{ b }}{% endwith %}"}, {"ifequal", "{% ifequal " + e + " t %}{{ " + e + " }}{% endifequal %}"},
			{"ifchanged", "{% for i in l %}{% ifchanged " + e + " %}{{ " + e + " }}{% else %}{{ " + e + " }}{% endifchanged %}{% endfor %}"},
		}
		for _, p := range progs {
			r.Do(&Case{Files: map[string]string{"/main": p.src}, Label: s.name + ">tag>" + p.sink, Route: routeKey(s.name, []string{"tag-argument"}, p.sink)})
		}
	}
	r.Group("stringer-kinds", "c02.case", "a named string type whose text is harmless while its String method returns the context's text (value, pointer, list item, after set, as macro argument); one pointer-receiver Stringer type printed by value first and behind a pointer afterwards; each in a fresh process")
	for i, src := range []string{
		"{{ tagd }}|{{ ptagd }}|{% for x in tagl %}{{ x }}{% endfor %}|{% set q = tagd %}{{ q }}|{% macro mm(a) %}{{ a }}{% endmacro %}{{ mm(tagd) }}|{% firstof tagd %}|{{ [tagd]|first }}",
		"{% for x in ptv %}{{ x }}{% endfor %}|{{ ptp }}|{% firstof ptp %}|{% for x in ptv %}{{ x }}{% endfor %}{{ ptp }}",
		"{{ ptp }}|{% for x in ptv %}{{ x }}{% endfor %}|{{ ptp }}",
	} {
		r.DoIsolated(&Case{Files: map[string]string{"/main": src}, Label: fmt.Sprint("stringer-kinds", i), Route: fmt.Sprint("stringer-kinds/", i)}, 60*time.Second)
	}
	r.Group("default-switched", "c02.case", "templates compiled while the package-wide default was off (SetAutoescape(false)) and executed after it was switched on again: every source printed directly, in a loop over a literal, by firstof, inside a statically included file, an extended base and an imported macro; the same sinks with a context text that looks escaped already (x&lt;y&#60;z&amp;w): its ampersands are escaped like any other")
	for _, s := range srcs {
		if s.wrap != nil {
			continue
		}
		e := s.expr
		for _, p := range []struct {
			sink  string
			files map[string]string
		}{
			{"print", map[string]string{"/main": "{{ " + e + " }}"}},
			{"for-literal", map[string]string{"/main": "{% for x in [" + e + "] %}{{ x }}{% endfor %}"}},
			{"firstof", map[string]string{"/main": "{% firstof " + e + " %}"}},
			{"included", map[string]string{"/main": "{% include \"inc\" %}", "/inc": "{{ " + e + " }}"}},
			{"base", map[string]string{"/main": "{% extends \"base\" %}{% block b %}{{ " + e + " }}{% endblock %}", "/base": "{{ " + e + " }}{% block b %}{% endblock %}"}},
			{"imported-macro", map[string]string{"/main": "{% import \"lib\" m %}{{ m(" + e + ") }}", "/lib": "{% macro m(a) export %}{{ a }}{% endmacro %}"}},
		} {
			r.Do(&Case{Files: p.files, Label: s.name + ">switched>" + p.sink, Route: routeKey(s.name, []string{"default-switched"}, p.sink), Switched: true})
			// the same sinks (compiled normally) with a context text that looks escaped already
			r.Do(&Case{Files: p.files, Label: s.name + ">entity>" + p.sink, Route: routeKey(s.name, []string{"entity-shaped"}, p.sink), Entity: true})
		}
	}
}

func init() {
	eng.RegisterCase("c02.case", func() eng.Case { return &Case{} })
	eng.Register(&eng.Check{
		ID:    "C02",
		Title: "Autoescape: context strings never reach the output unescaped",
		Rule:  "bounded-exhaustive composition of data-flow routes: every taint source x every chain of carriers up to the depth bound x every print sink, in opt-out-free templates (no safe, no autoescape off, no *_html filter, no Go-marked-safe value), plus every registered filter (registry hook) on a tainted input / with a tainted argument and tags printing their arguments. Each program is rendered with the marker q<7>w&e'r\"t in every string leaf; the output must contain (case-insensitively) none of <7 7> &e e' r\", and must not contain more raw < > \" ' than the rendering of the same program with a harmless twin value. Non-trivial: the program compiles and runs; programs that fail are counted as skipped.",
		Assumptions: []string{
			"filter parameters accept only names/literals: a complex tainted expression as parameter is replaced by the plain tainted name",
			"transformations that hide the marker without emitting raw special characters (e.g. urlencode) are fine by the property",
		},
		Run: run,
	})
}
