// Package c19: filters are applied in written order, everywhere filters can be written.
package c19

import (
	"fmt"
	"strconv"
	"strings"

	"github.com/flosch/pongo2/v6"

	"verifmc/internal/eng"
	"verifmc/internal/enum"
	"verifmc/internal/px"
)

type FC struct {
	Name string `json:"name"`
	Arg  string `json:"arg,omitempty"` // source spelling of the argument: "" none, a quoted string, a number, or a variable name
}

type Case struct {
	Chain []FC   `json:"chain"`
	Input string `json:"input"` // context variable (or literal source) the chain is applied to
	Pos   string `json:"pos"`
}

func (c *Case) ID() string { return c.Pos + ": " + c.Input + c.chainSrc() }

func (c *Case) chainSrc() string {
	var b strings.Builder
	for _, f := range c.Chain {
		b.WriteString("|" + f.Name)
		if f.Arg != "" {
			b.WriteString(":" + f.Arg)
		}
	}
	return b.String()
}

func baseCtx() pongo2.Context {
	return pongo2.Context{
		"s": "ab cd", "l": []string{"x", "yz", "w"}, "n": 5, "e": "",
		"sep": "-", "two": 2, "q": "q",
		"m":     map[string]any{"k": "mk"},
		"fn":    func() string { return "fr" },
		"pair":  func(a, b *pongo2.Value) *pongo2.Value { return pongo2.AsSafeValue(a.String() + "/" + b.String()) },
		"svals": []string{"ab cd", "Zz", ""}, "nvals": []int{5, 0},
		// values that arrive wrapped: *pongo2.Value as map value, slice item, element of a []any, struct field
		"mv": map[string]*pongo2.Value{"k": pongo2.AsValue(3)}, "lv": []*pongo2.Value{pongo2.AsValue("a"), pongo2.AsValue(7)},
		"anyl": []any{pongo2.AsValue(4), pongo2.AsValue("b c")}, "st": struct{ V *pongo2.Value }{pongo2.AsValue(6)},
		"items": []string{"i0", "i1", "i2", "i3", "i4", "i5", "i6", "i7", "i8", "i9", "i10", "i11"},
	}
}

// value of an input or argument spelling
func valueOf(sp string, ctx pongo2.Context) any {
	if sp == "" {
		return nil
	}
	if sp[0] == '"' {
		u, _ := strconv.Unquote(sp)
		return u
	}
	if n, err := strconv.Atoi(sp); err == nil {
		return n
	}
	switch sp {
	case `[s, "x"]`: // a list written in the template is a list of values
		return []*pongo2.Value{pongo2.AsValue(ctx["s"]), pongo2.AsValue("x")}
	case `[n, two]`:
		return []*pongo2.Value{pongo2.AsValue(ctx["n"]), pongo2.AsValue(ctx["two"])}
	case "m.k":
		return "mk"
	case "mv.k":
		return 3
	case "lv.1":
		return 7
	case "anyl.0":
		return 4
	case "anyl.1":
		return "b c"
	case "st.V":
		return 6
	case "fn()":
		return "fr"
	}
	return ctx[sp]
}

// oracle: direct composition of the public ApplyFilter
func (c *Case) compose(ctx pongo2.Context, start any) (*pongo2.Value, *pongo2.Error) {
	v := pongo2.AsValue(start)
	for _, f := range c.Chain {
		var p *pongo2.Value
		if f.Arg != "" {
			p = pongo2.AsValue(valueOf(f.Arg, ctx))
		}
		var err *pongo2.Error
		v, err = pongo2.ApplyFilter(f.Name, v, p)
		if err != nil {
			return nil, err
		}
	}
	return v, nil
}

func (c *Case) Exec(t *eng.T) {
	t.Nontrivial()
	ctx := baseCtx()
	expr := c.Input + c.chainSrc()
	var src, want string
	start := valueOf(c.Input, ctx)
	var res *pongo2.Value
	var oerr *pongo2.Error
	site, msg, pan := eng.Protect(func() { res, oerr = c.compose(ctx, start) })
	if pan {
		t.Skip() // ApplyFilter itself panics on this combination: totality is C01's business
		_ = site
		_ = msg
		return
	}
	printed := func(v *pongo2.Value) string { return v.String() }
	switch c.Pos {
	case "output":
		src = "{{ " + expr + " }}"
		if oerr == nil {
			want = printed(res)
		}
	case "if":
		src = "{% if " + expr + " %}T{% else %}F{% endif %}"
		if oerr == nil {
			want = "F"
			if res.IsTrue() {
				want = "T"
			}
		}
	case "for":
		src = "{% for x in " + expr + " %}[{{ x }}]{% empty %}E{% endfor %}"
		if oerr == nil {
			var b strings.Builder
			res.Iterate(func(idx, count int, key, value *pongo2.Value) bool {
				b.WriteString("[" + key.String() + "]")
				return true
			}, func() { b.WriteString("E") })
			want = b.String()
		}
	case "with":
		src = "{% with z=" + expr + " %}<{{ z }}>{% endwith %}"
		if oerr == nil {
			want = "<" + printed(res) + ">"
		}
	case "with-sibling":
		// earlier pairs of the same with tag bind the names the filter arguments use (sep, q, two): the
		// arguments still mean what they mean in the enclosing scope
		src = "{% with sep=\"#\" q=\"Q\" two=5 z=" + expr + " %}<{{ z }}>{% endwith %}"
		if oerr == nil {
			want = "<" + printed(res) + ">"
		}
	case "with-sibling-old":
		src = "{% with \"#\" as sep \"Q\" as q " + expr + " as z %}<{{ z }}>{% endwith %}"
		if oerr == nil {
			want = "<" + printed(res) + ">"
		}
	case "set":
		src = "{% set z = " + expr + " %}<{{ z }}>"
		if oerr == nil {
			want = "<" + printed(res) + ">"
		}
	case "macro-arg":
		src = "{% macro mm(p) %}<{{ p }}>{% endmacro %}{{ mm(" + expr + ") }}"
		if oerr == nil {
			want = "<" + printed(res) + ">"
		}
	case "omitted-param-scope":
		// inside a macro whose parameters sep and two are omitted by the caller, the names are bound to nothing - also
		// in scopes opened inside the body - although the caller's context has entries of these names
		src = "{% macro mm(p, sep, two) %}{% for i in \"ab\" %}{{ p" + c.chainSrc() + " }};{% endfor %}{% with w=1 %}{{ p" + c.chainSrc() + " }}{% endwith %}{% endmacro %}{{ mm(" + c.Input + ") }}"
		c2 := pongo2.Context{}
		for k, v := range ctx {
			c2[k] = v
		}
		c2["sep"], c2["two"] = nil, nil
		r2, e2 := c.compose(c2, start)
		oerr = e2
		if e2 == nil {
			want = printed(r2) + ";" + printed(r2) + ";" + printed(r2)
		}
	case "loop-var":
		// the chain applied to the variable of a loop over a list written in the template
		src = "{% for x in [" + c.Input + ", " + c.Input + "] %}{{ x" + c.chainSrc() + " }};{% endfor %}{% for x in [" + c.Input + "] %}{% if x" + c.chainSrc() + " %}T{% else %}F{% endif %}{% endfor %}"
		if oerr == nil {
			tf := "F"
			if res.IsTrue() {
				tf = "T"
			}
			want = printed(res) + ";" + printed(res) + ";" + tf
		}
	case "reeval", "macro-in-loop":
		// the same written expression evaluated once per loop pass with OTHER values of the names it uses
		src = "{% for s in svals %}{% for n in nvals %}{{ " + expr + " }};{% endfor %}{% endfor %}"
		if c.Pos == "macro-in-loop" {
			// ... inside a macro that is defined anew in every pass (chain and default in the macro's scope)
			src = "{% for s in svals %}{% for n in nvals %}{% macro mm(p, d=" + expr + ") %}{{ p" + c.chainSrc() + " }}~{{ d }}{% endmacro %}{{ mm(" + c.Input + ") }};{% endfor %}{% endfor %}"
		}
		if oerr == nil {
			var b strings.Builder
			for _, sv := range ctx["svals"].([]string) {
				for _, nv := range ctx["nvals"].([]int) {
					c2 := pongo2.Context{}
					for k, v := range ctx {
						c2[k] = v
					}
					c2["s"], c2["n"] = sv, nv
					r2, e2 := c.compose(c2, valueOf(c.Input, c2))
					if e2 != nil {
						oerr = e2
						break
					}
					if c.Pos == "macro-in-loop" {
						b.WriteString(printed(r2) + "~")
					}
					b.WriteString(printed(r2) + ";")
				}
			}
			want = b.String()
		}
	case "macro-arg-first":
		// the filtered expression is followed by further elements of a comma-separated list
		src = "{% macro mm(p, q) %}<{{ p }}|{{ q }}>{% endmacro %}{{ mm(" + expr + ", 5) }}"
		if oerr == nil {
			want = "<" + printed(res) + "|5>"
		}
	case "call-arg-first":
		src = "{{ pair(" + expr + ", n|add:1) }}"
		if oerr == nil {
			want = printed(res) + "/" + fmt.Sprint(ctx["n"].(int)+1)
		}
	case "array-item-first":
		src = "{% for z in [" + expr + ", 5] %}<{{ z }}>{% endfor %}"
		if oerr == nil {
			want = "<" + printed(res) + "><5>"
		}
	case "macro-default":
		src = "{% macro mm(p=" + expr + ") %}<{{ p }}>{% endmacro %}{{ mm() }}"
		if oerr == nil {
			want = "<" + printed(res) + ">"
		}
	case "subscript":
		src = "{{ items[" + expr + "] }}"
		if oerr == nil {
			items := ctx["items"].([]string)
			i := res.Integer()
			if !res.IsInteger() {
				t.Skip()
				return
			}
			if i >= 0 && i < len(items) {
				want = items[i]
			}
		}
	case "scoped-arg":
		// the argument is a name bound by an enclosing construct
		src = "{% with sep=\"+\" %}{% for q in l %}{{ " + expr + " }};{% endfor %}{% endwith %}"
		if oerr == nil {
			var b strings.Builder
			for _, q := range ctx["l"].([]string) {
				c2 := pongo2.Context{}
				for k, v := range ctx {
					c2[k] = v
				}
				c2["sep"] = "+"
				c2["q"] = q
				r2, e2 := c.compose(c2, valueOf(c.Input, c2))
				if e2 != nil {
					oerr = e2
					break
				}
				b.WriteString(printed(r2) + ";")
			}
			want = b.String()
		}
	case "filter-tag":
		// the empty chain, too: the body unchanged
		body := "ab cd"
		src = "{% filter " + strings.TrimPrefix(c.chainSrc(), "|") + " %}" + body + "{% endfilter %}"
		res, oerr = c.compose(ctx, body)
		if oerr == nil {
			want = printed(res)
		}
	case "binds-tighter":
		// op(chain result) must equal the operator applied to the already filtered value
		if oerr != nil || !res.IsInteger() {
			t.Skip()
			return
		}
		k := res.Integer()
		src = "{{ 1 + " + expr + " }}|{{ " + expr + " * 2 }}|{{ 10 - " + expr + " }}|{% if not " + expr + " %}z{% else %}nz{% endif %}|{{ \"x\" + " + expr + " }}|{{ -" + expr + " }}|{{ 3 < " + expr + " }}|{{ - " + expr + " + 1 }}"
		nz := "nz"
		if k == 0 {
			nz = "z"
		}
		lt := "False"
		if 3 < k {
			lt = "True"
		}
		want = fmt.Sprintf("%d|%d|%d|%s|x%d|%d|%s|%d", 1+k, k*2, 10-k, nz, k, -k, lt, -k+1)
	}
	src = "{% autoescape off %}" + src + "{% endautoescape %}"
	out := px.Render(nil, src, ctx)
	t.Outcome(out.String())
	key := "chain:" + c.Pos
	if out.Panic != "" {
		t.Fail(key+":panic", "%s panics: %s", src, out.PanicMsg)
		return
	}
	if oerr != nil {
		if !out.Failed() {
			t.Fail(key+":no-error", "%s renders %q, but composing ApplyFilter fails: %v", src, out.S, oerr)
		}
		return
	}
	if out.Failed() {
		t.Fail(key+":error", "%s fails: %s; composing ApplyFilter gives %q", src, out, want)
		return
	}
	if out.S != want {
		t.Fail(key+":value", "%s renders %q; composing ApplyFilter in written order gives %q", src, out.S, want)
	}
}

// ---- the filter tag entered again while its body is still being rendered ----

type ReentrantCase struct {
	Chain string `json:"chain"` // filter chain of the tag
	Depth int    `json:"depth"`
}

func (c *ReentrantCase) ID() string {
	return fmt.Sprintf("re-entrant filter tag %s depth %d", c.Chain, c.Depth)
}

func (c *ReentrantCase) Exec(t *eng.T) {
	t.Nontrivial()
	src := "{% autoescape off %}{% macro node(n) %}{% filter " + c.Chain + " %}<node{{ n }}{% if n > 0 %} {{ node(n - 1) }}{% endif %}>{% endfilter %}{% endmacro %}{{ node(" + fmt.Sprint(c.Depth) + ") }}{% endautoescape %}"
	// reference: apply the chain to the body from the innermost call outwards, through the public ApplyFilter
	apply := func(body string) (string, bool) {
		v := pongo2.AsValue(body)
		for _, f := range strings.Split(c.Chain, "|") {
			name, arg, hasArg := strings.Cut(f, ":")
			var p *pongo2.Value
			if hasArg {
				u, _ := strconv.Unquote(arg)
				p = pongo2.AsValue(u)
			}
			var err *pongo2.Error
			v, err = pongo2.ApplyFilter(name, v, p)
			if err != nil {
				return "", false
			}
		}
		return v.String(), true
	}
	inner := ""
	for n := 0; n <= c.Depth; n++ {
		body := fmt.Sprintf("<node%d", n)
		if n > 0 {
			body += " " + inner
		}
		body += ">"
		var ok bool
		if inner, ok = apply(body); !ok {
			t.Skip()
			return
		}
	}
	out := px.Render(nil, src, nil)
	t.Outcome(out.String())
	if out.Failed() || out.S != inner {
		t.Fail("filter-tag:re-entrant", "%s renders %s; applying the chain to each rendered body from the inside out gives %q", src, out, inner)
	}
}

// ---- unknown names / registration ----

type UnknownCase struct {
	Src   string `json:"src"`
	Stage string `json:"stage"` // "compile" = must be a compile error; "any" = compile or execution error
}

func (c *UnknownCase) ID() string { return c.Stage + ": " + c.Src }

func (c *UnknownCase) Exec(t *eng.T) {
	t.Nontrivial()
	cx := baseCtx()
	cx["badf"], cx["badt"], cx["badft"] = "badf", "badt", "badft"
	out := px.Render(map[string]string{"/inc": "x", "/badf": "f{{ s|nosuch }}", "/badt": "t{% nosuchtag %}", "/badft": "{% filter nosuch %}x{% endfilter %}",
		"/badbase": "B{% block a %}{{ s|nosuch }}{% endblock %}", "/badlib": "{% macro mm() export %}{% nosuchtag %}{% endmacro %}"}, c.Src, cx)
	t.Outcome(out.Kind())
	if out.Panic != "" {
		t.Fail("unknown:panic", "%s panics: %s", c.Src, out.PanicMsg)
		return
	}
	if !out.Failed() {
		t.Fail("unknown:renders-silently", "%s uses an unregistered name but renders %q", c.Src, out.S)
		return
	}
	if c.Stage == "compile" && !out.Compile {
		t.Fail("unknown:not-at-compile-time", "%s: the unregistered name is only reported at execution: %s", c.Src, out.Err)
	}
}

type RegCase struct {
	Kind string `json:"kind"` // filter or tag
	Name string `json:"name"`
}

func (c *RegCase) ID() string { return "register twice: " + c.Kind + " " + c.Name }

func (c *RegCase) Exec(t *eng.T) {
	t.Nontrivial()
	before := px.Render(nil, "{{ \"ab\"|"+c.Name+" }}", nil)
	var err error
	if c.Kind == "filter" {
		err = pongo2.RegisterFilter(c.Name, func(in, p *pongo2.Value) (*pongo2.Value, *pongo2.Error) { return pongo2.AsValue("HIJACKED"), nil })
	} else {
		err = pongo2.RegisterTag(c.Name, func(doc *pongo2.Parser, start *pongo2.Token, arguments *pongo2.Parser) (pongo2.INodeTag, *pongo2.Error) {
			return nil, nil
		})
	}
	if err == nil {
		t.Fail("register:accepted-twice", "registering the %s %q a second time is accepted", c.Kind, c.Name)
	}
	if c.Kind == "filter" {
		after := px.Render(nil, "{{ \"ab\"|"+c.Name+" }}", nil)
		if after.String() != before.String() {
			t.Fail("register:replaced", "after the refused registration {{ \"ab\"|%s }} renders %s instead of %s", c.Name, after, before)
		}
	} else {
		o := px.Render(nil, "{% if 1 %}ok{% endif %}{% for i in \"ab\" %}{{ i }}{% endfor %}", nil)
		if o.S != "okab" {
			t.Fail("register:replaced", "after the refused registration of tag %q the built-in tags render %s", c.Name, o)
		}
	}
}

// FreshRegCase: a name registered by the application itself (with the given kind of first registration) is then
// "registered" for every later attempt, too.
type FreshRegCase struct {
	Kind  string `json:"kind"`  // filter or tag
	First string `json:"first"` // "fn" = a working function, "nil" = a nil function
}

func (c *FreshRegCase) ID() string { return "register a new " + c.Kind + " (" + c.First + "), then again" }

var freshNames int

func (c *FreshRegCase) Exec(t *eng.T) {
	t.Nontrivial()
	freshNames++
	name := fmt.Sprintf("vfresh%s%d", c.Kind, freshNames)
	var e1, e2 error
	if c.Kind == "filter" {
		var fn pongo2.FilterFunction
		if c.First == "fn" {
			fn = func(in, p *pongo2.Value) (*pongo2.Value, *pongo2.Error) { return pongo2.AsValue("FIRST"), nil }
		}
		e1 = pongo2.RegisterFilter(name, fn)
		if e1 == nil && !pongo2.FilterExists(name) {
			t.Fail("register:accepted-but-missing", "RegisterFilter(%q, %s) succeeds but FilterExists says no", name, c.First)
		}
		e2 = pongo2.RegisterFilter(name, func(in, p *pongo2.Value) (*pongo2.Value, *pongo2.Error) { return pongo2.AsValue("SECOND"), nil })
		if c.First == "fn" {
			if o := px.Render(nil, "{{ 1|"+name+" }}", nil); o.S != "FIRST" {
				t.Fail("register:replaced", "after a second registration attempt {{ 1|%s }} renders %s", name, o)
			}
		}
	} else {
		var p pongo2.TagParser
		if c.First == "fn" {
			p = func(doc *pongo2.Parser, start *pongo2.Token, arguments *pongo2.Parser) (pongo2.INodeTag, *pongo2.Error) {
				return nil, arguments.Error("FIRST", nil)
			}
		}
		e1 = pongo2.RegisterTag(name, p)
		e2 = pongo2.RegisterTag(name, func(doc *pongo2.Parser, start *pongo2.Token, arguments *pongo2.Parser) (pongo2.INodeTag, *pongo2.Error) {
			return nil, arguments.Error("SECOND", nil)
		})
	}
	t.Outcome(fmt.Sprint(e1 == nil, e2 == nil))
	if e1 == nil && e2 == nil {
		t.Fail("register:accepted-twice", "the new %s name %q was registered (%s) and a second registration of the same name is accepted", c.Kind, name, c.First)
	}
}

// ConsistCase: every way of asking "is this filter name registered" gives the same answer.
type ConsistCase struct {
	Name    string `json:"name"`
	Builtin bool   `json:"builtin"` // a documented built-in name: the answer must be yes
}

func (c *ConsistCase) ID() string {
	return fmt.Sprintf("registry consistency: %s builtin=%v", c.Name, c.Builtin)
}

func (c *ConsistCase) Exec(t *eng.T) {
	t.Nontrivial()
	exists := pongo2.FilterExists(c.Name)
	set, _ := px.NewSet(nil)
	_, o1 := px.Compile(set, "{{ s|"+c.Name+":\"2006\" }}")
	_, o2 := px.Compile(set, "{{ s|"+c.Name+" }}")
	inVar := !(o1.Compile && strings.Contains(o1.Err, "does not exist")) || !(o2.Compile && strings.Contains(o2.Err, "does not exist"))
	_, o3 := px.Compile(set, "{% filter "+c.Name+" %}x{% endfilter %}")
	o3x := px.Render(nil, "{% filter "+c.Name+" %}x{% endfilter %}", nil)
	inTag := !(o3.Compile && strings.Contains(o3.Err, "does not exist")) && !strings.Contains(o3x.Err, "does not exist") && !strings.Contains(o3x.Err, "not found")
	listed := false
	for _, f := range pongo2.VerifRegisteredFilters() {
		if f == c.Name {
			listed = true
		}
	}
	// a registration attempt under a name that is in use must be refused; under a free name it would succeed (and is
	// not tried: it would change the process-wide registry)
	refused := true
	if exists || inVar || inTag || listed || c.Builtin {
		refused = pongo2.RegisterFilter(c.Name, func(in, p *pongo2.Value) (*pongo2.Value, *pongo2.Error) { return pongo2.AsValue("HIJACKED"), nil }) != nil
	}
	t.Outcome(fmt.Sprint(exists, inVar, inTag, listed, refused))
	want := c.Builtin
	if exists != want || inVar != want || inTag != want || listed != want || (want && !refused) {
		t.Fail("registry:inconsistent", "filter name %q (built-in: %v): FilterExists=%v, usable in {{ v|name }}=%v, usable in {%% filter name %%}=%v, in the registry listing=%v, second registration refused=%v", c.Name, c.Builtin, exists, inVar, inTag, listed, refused)
	}
}

var builtinFilterNames = strings.Fields("add addslashes capfirst center cut date default default_if_none divisibleby e escape escapejs first float floatformat get_digit integer iriencode join last length length_is linebreaks linebreaksbr linenumbers ljust lower make_list pluralize random removetags rjust safe slice split stringformat striptags time title truncatechars truncatechars_html truncatewords truncatewords_html upper urlencode urlize urlizetrunc wordcount wordwrap yesno")

type filt struct {
	name string
	args []string
}

func chainFilters() []filt {
	return []filt{
		{"upper", nil}, {"lower", nil}, {"capfirst", nil}, {"cut", []string{`" "`, "q"}}, {"add", []string{`"x"`, "2", "two", "010"}},
		{"length", nil}, {"default", []string{`"d"`}}, {"truncatechars", []string{"4"}}, {"first", nil}, {"last", nil},
		{"slice", []string{`"1:3"`}}, {"center", []string{"7"}}, {"wordcount", nil}, {"join", []string{`"-"`, "sep"}},
		// filters whose result depends on an OPTIONAL parameter, written with and without it
		{"floatformat", []string{"", "2"}}, {"yesno", []string{"", `"a,b,c"`}}, {"pluralize", []string{"", `"es"`}},
	}
}

func run(r *eng.Runner) {
	fs := chainFilters()
	var calls []FC
	for _, f := range fs {
		if f.args == nil {
			calls = append(calls, FC{Name: f.name})
		}
		for _, a := range f.args {
			calls = append(calls, FC{Name: f.name, Arg: a}) // a == "" : written without parameter
		}
	}
	inputs := []string{"s", "l", "n", "e", "missing", `"Lit q"`, "7", "m.k", "fn()", `"12.34"`, "1", `[s, "x"]`, `[n, two]`, "mv.k", "lv.1", "anyl.0", "anyl.1", "st.V", "010"}
	positions := []string{"output", "if", "for", "with", "set", "macro-arg", "macro-default", "filter-tag", "scoped-arg", "subscript", "binds-tighter", "with-sibling", "with-sibling-old", "macro-arg-first", "call-arg-first", "array-item-first", "reeval", "loop-var", "omitted-param-scope", "macro-in-loop"}
	maxLen := 3
	if !r.Quick() {
		maxLen = 4
	}
	r.Group("chains", "c19.case", fmt.Sprintf("all chains of 0..%d filter calls over %d calls (14 deterministic filters with literal and variable arguments) x 9 inputs (variables, literals, a path, a call) in output position; chains up to 2 in 10 further positions", maxLen, len(calls)))
	enum.Seqs(len(calls), maxLen, func(idx []int) bool {
		chain := make([]FC, len(idx))
		for i, x := range idx {
			chain[i] = calls[x]
		}
		for _, in := range inputs {
			if len(idx) == maxLen && maxLen >= 3 && in != "s" && in != "l" && in != "n" && in != `"12.34"` {
				continue // the longest chains on the three main inputs only
			}
			r.Do(&Case{Chain: chain, Input: in, Pos: "output"})
			if len(idx) <= 2 {
				for _, p := range positions[1:] {
					r.Do(&Case{Chain: chain, Input: in, Pos: p})
				}
			}
		}
		return !r.Stopped()
	})

	regs := pongo2.VerifRegisteredFilters()
	r.Group("every-filter", "c19.case", fmt.Sprintf("every registered filter (%d, from the registry hook) without argument and with a string, an int and a variable argument, on 4 inputs, in output position, the filter tag and after another filter", len(regs)))
	for _, f := range regs {
		if f == "random" {
			continue // documented to depend on randomness
		}
		for _, a := range []string{"", `"1:2"`, "2", "sep", `"a,b"`} {
			for _, in := range []string{"s", "l", "n", "missing"} {
				r.Do(&Case{Chain: []FC{{Name: f, Arg: a}}, Input: in, Pos: "output"})
				r.Do(&Case{Chain: []FC{{Name: "upper"}, {Name: f, Arg: a}}, Input: in, Pos: "output"})
				r.Do(&Case{Chain: []FC{{Name: f, Arg: a}, {Name: "lower"}}, Input: in, Pos: "with"})
			}
			r.Do(&Case{Chain: []FC{{Name: f, Arg: a}}, Input: "s", Pos: "filter-tag"})
			r.Do(&Case{Chain: []FC{{Name: f, Arg: a}, {Name: "upper"}}, Input: "s", Pos: "filter-tag"})
			// a parameterless filter directly after a parameterised one (its parameter must not be inherited)
			r.Do(&Case{Chain: []FC{{Name: "cut", Arg: `"0"`}, {Name: f, Arg: a}}, Input: "s", Pos: "filter-tag"})
			r.Do(&Case{Chain: []FC{{Name: "add", Arg: "2"}, {Name: f, Arg: a}}, Input: "n", Pos: "output"})
		}
	}

	r.Group("unknown-names", "c19.unknown", "an unregistered filter name in every position where a filter can be written, and an unregistered tag name at top level and in every body: never rendered silently")
	unk := []UnknownCase{
		{"{{ s|nosuch }}", "compile"}, {"{{ s|upper|nosuch }}", "compile"}, {"{{ s|nosuch:1|upper }}", "compile"},
		{"{% if s|nosuch %}x{% endif %}", "compile"}, {"{% if no %}{{ s|nosuch }}{% endif %}", "compile"},
		{"{% for x in l|nosuch %}x{% endfor %}", "compile"}, {"{% with z=s|nosuch %}x{% endwith %}", "compile"},
		{"{% set z = s|nosuch %}", "compile"}, {"{% macro mm(p=s|nosuch) %}{% endmacro %}", "compile"},
		{"{% macro mm(p) %}{% endmacro %}{{ mm(s|nosuch) }}", "compile"}, {"{{ items[s|nosuch] }}", "compile"},
		{"{% firstof s|nosuch %}", "compile"}, {"{% cycle s|nosuch %}", "compile"}, {"{% widthratio n|nosuch 2 3 %}", "compile"},
		{"{% include \"inc\" with z=s|nosuch %}", "compile"}, {"{% ifequal s|nosuch 1 %}{% endifequal %}", "compile"},
		{"{% ifchanged s|nosuch %}{% endifchanged %}", "compile"}, {"{{ [s|nosuch] }}", "compile"}, {"{{ fn(s|nosuch) }}", "compile"},
		{"{% filter nosuch %}x{% endfilter %}", "any"}, {"{% filter upper|nosuch %}x{% endfilter %}", "any"}, {"{% filter nosuch|upper %}x{% endfilter %}", "any"},
		{"{% nosuchtag %}", "compile"}, {"{% if 1 %}{% nosuchtag %}{% endif %}", "compile"}, {"{% if 0 %}{% nosuchtag %}{% endif %}", "compile"},
		{"{% for x in l %}{% nosuchtag 1 2 %}{% endfor %}", "compile"}, {"{% macro mm() %}{% nosuchtag %}{% endmacro %}", "compile"},
		{"{% block b %}{% nosuchtag %}{% endblock %}", "compile"}, {"{% spaceless %}{% nosuchtag %}{% endspaceless %}", "compile"},
		// the unregistered name sits in another file that is pulled in - also with if_exists, which only excuses a MISSING file
		{`A{% include "badf" %}B`, "any"}, {`A{% include "badt" %}B`, "any"}, {`A{% include "badft" %}B`, "any"},
		{`A{% include "badf" if_exists %}B`, "any"}, {`A{% include "badt" if_exists %}B`, "any"}, {`A{% include "badft" if_exists %}B`, "any"},
		{`A{% include badf if_exists %}B`, "any"}, {`A{% include badt if_exists %}B`, "any"}, {`A{% include badft if_exists %}B`, "any"},
		{`A{% include badf %}B`, "any"}, {`{% extends "badbase" %}`, "any"}, {`{% import "badlib" mm %}`, "any"}, {`{% ssi "badf" parsed %}`, "any"},
		{"{% endif %}", "compile"}, {"{% else %}", "compile"}, {"{% 1 %}", "compile"}, {"{% %}", "compile"},
	}
	for i := range unk {
		r.Do(&unk[i])
	}

	r.Group("filter-tag-reentrant", "c19.reentrant", "a recursive macro whose body is wrapped in a filter tag (the tag is entered again while its own body is being rendered), depths 0..4 x 6 chains")
	for _, ch := range []string{"upper", "lower|capfirst", `cut:"e"`, "length", `upper|cut:"N"`, "title"} {
		for d := 0; d <= 4; d++ {
			r.Do(&ReentrantCase{Chain: ch, Depth: d})
		}
	}

	r.Group("registry-consistency", "c19.consist", fmt.Sprintf("every documented built-in filter name (%d, aliases included) and 6 unregistered names: FilterExists, use in {{ v|name }}, use in the filter tag, the registry listing and a second registration agree", len(builtinFilterNames)))
	for _, n := range builtinFilterNames {
		r.Do(&ConsistCase{Name: n, Builtin: true})
	}
	for _, n := range []string{"nosuch", "Upper", "uppe", "upperr", "e2", "times"} {
		r.Do(&ConsistCase{Name: n})
	}

	r.Group("register-twice", "c19.reg", "registering an existing filter or tag name a second time is refused and changes nothing")
	for _, f := range []string{"upper", "escape", "safe", "length"} {
		r.Do(&RegCase{Kind: "filter", Name: f})
	}
	for _, tg := range []string{"if", "for", "block", "extends"} {
		r.Do(&RegCase{Kind: "tag", Name: tg})
	}
	r.Group("register-fresh", "c19.freshreg", "a name the application registered itself (with a function or with nil) is refused the second time as well")
	for _, k := range []string{"filter", "tag"} {
		for _, f := range []string{"fn", "nil"} {
			r.Do(&FreshRegCase{Kind: k, First: f})
		}
	}
}

func init() {
	eng.RegisterCase("c19.case", func() eng.Case { return &Case{} })
	eng.RegisterCase("c19.unknown", func() eng.Case { return &UnknownCase{} })
	eng.RegisterCase("c19.reentrant", func() eng.Case { return &ReentrantCase{} })
	eng.RegisterCase("c19.reg", func() eng.Case { return &RegCase{} })
	eng.RegisterCase("c19.freshreg", func() eng.Case { return &FreshRegCase{} })
	eng.RegisterCase("c19.consist", func() eng.Case { return &ConsistCase{} })
	eng.Register(&eng.Check{
		ID:    "C19",
		Title: "Filters are applied in written order, everywhere filters can be written",
		Rule:  "bounded-exhaustive: every chain up to the length bound over the filter-call alphabet, on every input, at every expression position and in the filter tag, rendered by the real engine and compared with the direct left-to-right composition of the public ApplyFilter on the same values (value, truthiness, iteration, error-ness); every registered filter (registry hook) once per route; unregistered names at every position must fail (at compile time; in the filter tag at the latest at execution); a second registration must be refused. All cases non-trivial; combinations on which ApplyFilter itself panics are skipped (C01).",
		Assumptions: []string{
			"the oracle is the implementation's own ApplyFilter (the property states exactly this equivalence); what each filter computes is C17/C18",
			"rendered under autoescape off so that printing does not add escaping",
		},
		Run: run,
	})
}
