// Package c17: escaping filters neutralise exactly what they promise and lose nothing.
package c17

import (
	"fmt"
	"html"
	"net/url"
	"reflect"
	"strconv"
	"strings"
	"sync"
	"unicode/utf8"

	"github.com/flosch/pongo2/v6"

	"verifmc/internal/eng"
	"verifmc/internal/enum"
	"verifmc/internal/px"
)

type Case struct {
	Filter string `json:"filter"`
	Param  string `json:"param,omitempty"`
	In     eng.Q  `json:"in"`
	// Tag: a third route - the filter tag, executed right after a filter tag whose body wrote text and then failed
	Tag bool `json:"tag,omitempty"`
}

func (c *Case) ID() string {
	id := fmt.Sprintf("%s:%s %q", c.Filter, c.Param, string(c.In))
	if c.Tag {
		id += " filter-tag-after-failure"
	}
	return id
}

var (
	failingFilterTag = pongo2.Must(pongo2.NewSet("c17-failing", pongo2.MustNewLocalFileSystemLoader("")).FromString("{% filter upper %}LEFTOVER-FROM-A-FAILED-BODY{{ 1 / zero }}{% endfilter %}"))
	tagTplMu         sync.Mutex
	tagTpls          = map[string]*pongo2.Template{}
)

func tagTplFor(f, p string) *pongo2.Template {
	tagTplMu.Lock()
	defer tagTplMu.Unlock()
	k := f + ":" + p
	if t, ok := tagTpls[k]; ok {
		return t
	}
	call := f
	if p != "" {
		call += ":" + strconv.Quote(p)
	}
	set, _ := px.NewSet(nil)
	t := pongo2.Must(set.FromString("{% autoescape off %}{% filter " + call + " %}{{ v }}{% endfilter %}{% endautoescape %}"))
	tagTpls[k] = t
	return t
}

var (
	tplMu    sync.Mutex
	tplCache = map[string]*pongo2.Template{}
)

func tplFor(filter, param string) *pongo2.Template {
	k := filter + ":" + param
	tplMu.Lock()
	defer tplMu.Unlock()
	if t, ok := tplCache[k]; ok {
		return t
	}
	set, _ := px.NewSet(nil)
	expr := "v|" + filter
	if param != "" {
		expr += fmt.Sprintf(":%q", param)
	}
	t, err := set.FromString("{% autoescape off %}{{ " + expr + " }}{% endautoescape %}")
	if err != nil {
		panic("c17: cannot compile route template: " + err.Error())
	}
	tplCache[k] = t
	return t
}

func isUnreserved(b byte) bool {
	return b >= 'a' && b <= 'z' || b >= 'A' && b <= 'Z' || b >= '0' && b <= '9' || b == '-' || b == '_' || b == '.' || b == '~'
}

const iriReserved = "/#%[]=:;$&()+,!?*@'~"

func isHexU(b byte) bool { return b >= '0' && b <= '9' || b >= 'A' && b <= 'F' }

// decodeJS decodes a string made of [A-Za-z /] and \uXXXX; ok=false if anything else occurs.
func decodeJS(s string) (string, bool) {
	var b strings.Builder
	for i := 0; i < len(s); {
		c := s[i]
		switch {
		case c >= 'a' && c <= 'z' || c >= 'A' && c <= 'Z' || c == ' ' || c == '/':
			b.WriteByte(c)
			i++
		case c == '\\' && i+5 < len(s)+0 && s[i+1] == 'u' && isHexU(s[i+2]) && isHexU(s[i+3]) && isHexU(s[i+4]) && isHexU(s[i+5]):
			var r rune
			fmt.Sscanf(s[i+2:i+6], "%X", &r)
			i += 6
			// surrogate pair
			if r >= 0xD800 && r < 0xDC00 && i+5 < len(s) && s[i] == '\\' && s[i+1] == 'u' {
				var r2 rune
				if _, err := fmt.Sscanf(s[i+2:i+6], "%X", &r2); err == nil && r2 >= 0xDC00 && r2 < 0xE000 {
					r = 0x10000 + (r-0xD800)<<10 + (r2 - 0xDC00)
					i += 6
				}
			}
			b.WriteRune(r)
		default:
			return "", false
		}
	}
	return b.String(), true
}

// pinnedBackslashDeviation is what escapejs's output decodes to on the pinned
// tree for inputs containing the two-character sequences \n and \r
// (template_tests/filters.tpl.out pins this), scanning left to right.
func pinnedBackslashDeviation(in string) string {
	var b strings.Builder
	for i := 0; i < len(in); i++ {
		if in[i] == '\\' && i+1 < len(in) && (in[i+1] == 'n' || in[i+1] == 'r') {
			if in[i+1] == 'n' {
				b.WriteByte('\n')
			} else {
				b.WriteByte('\r')
			}
			i++
			continue
		}
		b.WriteByte(in[i])
	}
	return b.String()
}

func refAddslashes(s string) string {
	var b strings.Builder
	for i := 0; i < len(s); i++ {
		if s[i] == '\\' || s[i] == '"' || s[i] == '\'' {
			b.WriteByte('\\')
		}
		b.WriteByte(s[i])
	}
	return b.String()
}

// refStrip removes every complete <...> (leftmost, shortest) and trims.
func refStrip(s string) string {
	var b strings.Builder
	for i := 0; i < len(s); {
		if s[i] == '<' {
			j := strings.IndexByte(s[i:], '>')
			if j >= 0 {
				i += j + 1
				continue
			}
		}
		b.WriteByte(s[i])
		i++
	}
	return strings.TrimSpace(b.String())
}

func hasCompleteTag(s string) bool {
	i := strings.IndexByte(s, '<')
	for i >= 0 {
		if strings.IndexByte(s[i:], '>') >= 0 {
			return true
		}
		return false
	}
	return false
}

// removeNamed deletes <t>, </t>, <t/>, </t/> for one tag name, single pass.
func removeNamed(s, tag string) string {
	forms := []string{"<" + tag + ">", "</" + tag + ">", "<" + tag + "/>", "</" + tag + "/>"}
	var b strings.Builder
	for i := 0; i < len(s); {
		matched := false
		if s[i] == '<' {
			for _, f := range forms {
				if strings.HasPrefix(s[i:], f) {
					i += len(f)
					matched = true
					break
				}
			}
		}
		if !matched {
			b.WriteByte(s[i])
			i++
		}
	}
	return b.String()
}

// removeAlt deletes all named-tag forms of all tags in one simultaneous pass.
func removeAlt(s string, tags []string) string {
	var b strings.Builder
	for i := 0; i < len(s); {
		matched := false
		if s[i] == '<' {
			for _, tag := range tags {
				for _, f := range []string{"<" + tag + ">", "</" + tag + ">", "<" + tag + "/>", "</" + tag + "/>"} {
					if strings.HasPrefix(s[i:], f) {
						i += len(f)
						matched = true
						break
					}
				}
				if matched {
					break
				}
			}
		}
		if !matched {
			b.WriteByte(s[i])
			i++
		}
	}
	return b.String()
}

func (c *Case) Exec(t *eng.T) {
	in := string(c.In)
	valid := utf8.ValidString(in)
	var param *pongo2.Value
	if c.Param != "" {
		param = pongo2.AsValue(c.Param)
	}
	v, err := pongo2.ApplyFilter(c.Filter, pongo2.AsValue(in), param)
	if err != nil {
		t.Fail(c.Filter+":error", "ApplyFilter(%s) on %q fails: %v", c.Filter, in, err)
		return
	}
	out := v.String()
	// route 2: template syntax under autoescape off must agree
	o2 := px.Exec(tplFor(c.Filter, c.Param), pongo2.Context{"v": in})
	if o2.Failed() || o2.S != out {
		t.Fail(c.Filter+":route-mismatch", "%s on %q: ApplyFilter gives %q, template gives %s", c.Filter, in, out, o2)
	}
	if c.Tag {
		if _, ferr := failingFilterTag.Execute(pongo2.Context{"zero": 0}); ferr == nil {
			t.Fail("harness:failing-filter-tag-did-not-fail", "the failing filter tag rendered")
		}
		o3 := px.Exec(tagTplFor(c.Filter, c.Param), pongo2.Context{"v": in})
		if o3.Failed() || o3.S != out {
			t.Fail(c.Filter+":filter-tag-route-mismatch", "%s on %q: ApplyFilter gives %q, the filter tag (executed after a filter tag whose body failed) gives %s", c.Filter, in, out, o3)
		}
	}
	t.Outcome(c.Filter + out)
	if strings.ContainsAny(in, "<>&\"'\\") || !valid || len(in) != len([]rune(in)) {
		t.Nontrivial()
	}
	switch c.Filter {
	case "escape", "e":
		if strings.ContainsAny(out, "<>\"'") {
			t.Fail(c.Filter+":dangerous-char-survives", "%s(%q) = %q still contains one of < > \" '", c.Filter, in, out)
		}
		for i := 0; i < len(out); i++ {
			if out[i] == '&' {
				rest := out[i:]
				if !(strings.HasPrefix(rest, "&amp;") || strings.HasPrefix(rest, "&lt;") || strings.HasPrefix(rest, "&gt;") || strings.HasPrefix(rest, "&quot;") || strings.HasPrefix(rest, "&#39;")) {
					t.Fail(c.Filter+":bare-ampersand", "%s(%q) = %q contains an & that does not start one of the five entities", c.Filter, in, out)
					break
				}
			}
		}
		if html.UnescapeString(out) != in {
			t.Fail(c.Filter+":not-invertible", "%s(%q) = %q unescapes to %q", c.Filter, in, out, html.UnescapeString(out))
		}
	case "escapejs":
		dec, ok := decodeJS(out)
		if !ok {
			cls := "charset"
			for _, r := range in {
				if r > 0xFFFF {
					cls = "astral-rune"
				}
			}
			t.Fail("escapejs:"+cls, "escapejs(%q) = %q is not made of letters, space, / and \\uXXXX escapes only", in, out)
			return
		}
		if valid && dec != in {
			cls := "decode-mismatch"
			astral := false
			for _, r := range in {
				if r > 0xFFFF {
					astral = true
				}
			}
			switch {
			case astral:
				cls = "astral-rune"
			case dec == pinnedBackslashDeviation(in):
				// exactly the fixture-pinned deviation and nothing else
				cls = "backslash-n-or-r-sequence"
			case strings.ContainsRune(in, utf8.RuneError):
				cls = "drops-U+FFFD"
			}
			t.Fail("escapejs:"+cls, "escapejs(%q) = %q decodes to %q", in, out, dec)
		}
	case "urlencode":
		for i := 0; i < len(out); i++ {
			b := out[i]
			if isUnreserved(b) || b == '+' {
				continue
			}
			if b == '%' && i+2 < len(out) && isHexU(out[i+1]) && isHexU(out[i+2]) {
				i += 2
				continue
			}
			t.Fail("urlencode:unsafe-char", "urlencode(%q) = %q contains the query-unsafe byte %q", in, out, string(b))
			break
		}
		if dec, err := url.QueryUnescape(out); err != nil || dec != in {
			t.Fail("urlencode:not-invertible", "urlencode(%q) = %q decodes to %q (%v)", in, out, dec, err)
		}
	case "iriencode":
		for i := 0; i < len(out); i++ {
			b := out[i]
			if isUnreserved(b) || strings.IndexByte(iriReserved, b) >= 0 {
				continue
			}
			t.Fail("iriencode:unencoded-char", "iriencode(%q) = %q leaves %q unencoded", in, out, string(b))
			break
		}
		if valid {
			// reference: reserved and unreserved runes stay, everything else is percent-encoded (space may be + or %20)
			var ref1, ref2 strings.Builder
			for _, r := range in {
				if r < 0x80 && (isUnreserved(byte(r)) || strings.IndexByte(iriReserved, byte(r)) >= 0) {
					ref1.WriteRune(r)
					ref2.WriteRune(r)
					continue
				}
				if r == ' ' {
					ref1.WriteString("+")
					ref2.WriteString("%20")
					continue
				}
				for _, b := range []byte(string(r)) {
					fmt.Fprintf(&ref1, "%%%02X", b)
					fmt.Fprintf(&ref2, "%%%02X", b)
				}
			}
			if out != ref1.String() && out != ref2.String() {
				t.Fail("iriencode:wrong-encoding", "iriencode(%q) = %q, reference %q", in, out, ref1.String())
			}
		}
	case "addslashes":
		if want := refAddslashes(in); out != want {
			t.Fail("addslashes:mismatch", "addslashes(%q) = %q, want %q", in, out, want)
		}
	case "striptags":
		if hasCompleteTag(out) {
			t.Fail("striptags:tag-survives", "striptags(%q) = %q still contains a complete tag", in, out)
		}
		if want := refStrip(in); out != want {
			t.Fail("striptags:text-altered", "striptags(%q) = %q, want %q (only complete tags removed, then trimmed)", in, out, want)
		}
	case "removetags":
		tags := strings.Split(c.Param, ",")
		seq := in
		for _, tg := range tags {
			seq = removeNamed(seq, tg)
		}
		seq = strings.TrimSpace(seq)
		alt := strings.TrimSpace(removeAlt(in, tags))
		if seq != alt {
			// deleting one tag forms another named tag: semantics left open
			t.Skip()
			return
		}
		if out != seq {
			t.Fail("removetags:mismatch", "removetags:%q(%q) = %q, want %q", c.Param, in, out, seq)
		}
	case "safe":
		if out != in {
			t.Fail("safe:altered", "safe(%q) = %q", in, out)
		}
		o3 := px.Exec(safeOn(), pongo2.Context{"v": in})
		if o3.Failed() || o3.S != in {
			t.Fail("safe:not-raw-under-autoescape", "{{ v|safe }} with autoescape on and v=%q renders %s", in, o3)
		}
	}
}

var (
	safeOnce sync.Once
	safeTpl  *pongo2.Template
)

func safeOn() *pongo2.Template {
	safeOnce.Do(func() {
		set, _ := px.NewSet(nil)
		safeTpl = pongo2.Must(set.FromString("{{ v|safe }}"))
	})
	return safeTpl
}

type fp struct{ f, p string }

func filtersUnderTest() []fp {
	return []fp{{"escape", ""}, {"e", ""}, {"escapejs", ""}, {"urlencode", ""}, {"iriencode", ""}, {"addslashes", ""},
		{"striptags", ""}, {"removetags", "a"}, {"removetags", "a,b"}, {"removetags", "b,a"}, {"safe", ""}}
}

func run(r *eng.Runner) {
	fs := filtersUnderTest()
	r.Group("bmp", "c17.case", "every Unicode scalar U+0000..U+FFFF as a one-rune string, plus 4 astral runes and 3 invalid byte strings, x 11 filter configurations x 2 routes")
	r.NoDedup()
	for _, f := range fs {
		for cp := rune(0); cp <= 0xFFFF; cp++ {
			if cp >= 0xD800 && cp < 0xE000 {
				continue
			}
			r.Do(&Case{Filter: f.f, Param: f.p, In: eng.Q(string(cp))})
		}
		for _, s := range []string{"\U00010000", "\U0001F600", "\U000E0001", "\U0010FFFF", "\xff", "\xc3", "\xed\xa0\x80"} {
			r.Do(&Case{Filter: f.f, Param: f.p, In: eng.Q(s)})
		}
		if r.Stopped() {
			return
		}
	}
	a16 := []string{"<", ">", "&", "\"", "'", "\\", "/", " ", "a", "b", "n", ";", "#", "\n", "\xc3\xa9", "\xff"}
	a8 := []string{"<", ">", "/", "a", "b", " ", "&", "\\", ","}
	aEnt := []string{"&", "amp;", "#39;", "lt;", "<", "'", ";", "r", "\\", "�"}
	aPct := []string{"%", "4", "1", "a", "F", "G", " ", "+", "&", "=", "\xc3\xa9"}
	n16, n8, nEnt, nPct := 3, 5, 4, 4
	if !r.Quick() {
		n16, n8, nEnt, nPct = 4, 6, 5, 5
	}
	groups := []struct {
		name string
		a    []string
		n    int
	}{{"specials16", a16, n16}, {"tags8", a8, n8}, {"entities10", aEnt, nEnt}, {"percent11", aPct, nPct}}
	for _, g := range groups {
		r.Group(g.name, "c17.case", fmt.Sprintf("all strings of <=%d symbols over %d special symbols %q x 11 filter configurations", g.n, len(g.a), g.a))
		r.NoDedup()
		for _, f := range fs {
			enum.Strings(g.a, g.n, func(s string, _ []int) bool {
				r.Do(&Case{Filter: f.f, Param: f.p, In: eng.Q(s)})
				return !r.Stopped()
			})
		}
	}
	runTagRoute(r, fs, a16)
	runKinds(r, a16)
}

// KindCase: the input is handed over as another Go kind than a plain string (a value marked safe, a pointer to a
// string, values that render through String()), under autoescape ON where the statement is about `safe`, and through
// ApplyFilter where it is about escape.
type KindCase struct {
	Kind string `json:"kind"` // plain | safevalue | strptr | stringer | stringer-ptr | named-stringer
	In   eng.Q  `json:"in"`
}

func (c *KindCase) ID() string { return fmt.Sprintf("kind %s %q", c.Kind, string(c.In)) }

type stringerS struct{ s string }

func (x stringerS) String() string { return x.s }

type namedStr string

func (x namedStr) String() string { return string(x) }

func (c *KindCase) Exec(t *eng.T) {
	t.Nontrivial()
	in := string(c.In)
	var v any
	switch c.Kind {
	case "plain":
		v = in
	case "safevalue":
		v = pongo2.AsSafeValue(in)
	case "strptr":
		v = &in
	case "stringer":
		v = stringerS{in}
	case "stringer-ptr":
		v = &stringerS{in}
	case "named-stringer":
		v = namedStr(in)
	}
	t.Outcome(c.Kind)
	// escape / e: the output is harmless and decodes to the text, whatever marks the input carries
	for _, f := range []string{"escape", "e"} {
		out, err := pongo2.ApplyFilter(f, pongo2.AsValue(v), nil)
		if c.Kind == "safevalue" {
			out, err = pongo2.ApplyFilter(f, v.(*pongo2.Value), nil)
		}
		if err != nil {
			t.Fail(f+":error", "%s(%s) fails: %v", f, c.ID(), err)
			continue
		}
		if c.Kind != "stringer" && c.Kind != "stringer-ptr" && c.Kind != "named-stringer" || true {
			if strings.ContainsAny(out.String(), "<>\"'") || html.UnescapeString(out.String()) != in {
				t.Fail(f+":kind:"+c.Kind, "%s applied to the %s %q gives %q (must hold none of < > \" ' and unescape to the text)", f, c.Kind, in, out.String())
			}
		}
		// written on its own under autoescape on (the default): escaped once, not once by the filter and once more
		// by the engine
		if op := px.Render(nil, "{{ v|"+f+" }}", pongo2.Context{"v": v}); op.Failed() || strings.ContainsAny(op.S, "<>\"'") || html.UnescapeString(op.S) != in {
			t.Fail(f+":template-autoescape-on:"+c.Kind, "{{ v|%s }} under autoescape on with the %s %q renders %s, which does not unescape to the text", f, c.Kind, in, op)
		}
		// the escaped text is markup wherever it travels before it is printed: as an item of a list written in the
		// template, as an element of a []any handed over by the application
		if ev, eerr := pongo2.ApplyFilter(f, pongo2.AsValue(v), nil); eerr == nil && c.Kind != "safevalue" {
			for _, pr := range []struct {
				src string
				cx  pongo2.Context
			}{
				{"{% for x in [v|" + f + "] %}{{ x }}{% endfor %}", pongo2.Context{"v": v}},
				{"{{ items.0 }}{% for x in items %}|{{ x }}{% endfor %}", pongo2.Context{"items": []any{ev}}},
				{"{% with w=v|" + f + " %}{{ w }}{% endwith %}{% set q = v|" + f + " %}|{{ q }}", pongo2.Context{"v": v}},
				{"{{ [v|" + f + "]|first }}|{{ [1, v|" + f + "]|last }}|{{ items|first }}", pongo2.Context{"v": v, "items": []any{ev}}},
				{"{{ g(v) }}|{{ gv(v) }}", pongo2.Context{"v": v, "g": func(x *pongo2.Value) any { r, _ := pongo2.ApplyFilter(f, x, nil); return r },
					"gv": func(x *pongo2.Value) *pongo2.Value { r, _ := pongo2.ApplyFilter(f, x, nil); return r }}},
			} {
				op := px.Render(nil, pr.src, pr.cx)
				parts := strings.Split(op.S, "|")
				for _, part := range parts {
					if op.Failed() || strings.ContainsAny(part, "<>\"'") || html.UnescapeString(part) != in {
						t.Fail(f+":travels:"+c.Kind, "%s under autoescape on with the %s %q renders %s, which does not unescape to the text", pr.src, c.Kind, in, op)
						break
					}
				}
			}
		}
		// one Value that wraps a pointer follows what the pointer points to
		if c.Kind == "strptr" {
			s2 := in
			pv := pongo2.AsValue(&s2)
			first, _ := pongo2.ApplyFilter(f, pv, nil)
			s2 = in + "<'&"
			second, err2 := pongo2.ApplyFilter(f, pv, nil)
			if err2 != nil || first == nil || html.UnescapeString(second.String()) != s2 {
				t.Fail(f+":pointer-reread", "%s applied twice to ONE Value wrapping a *string whose text changed from %q to %q gives %q the second time", f, in, s2, second)
			}
		}
		// ... nor by the tags that print their arguments themselves
		if op := px.Render(nil, "{% firstof v|"+f+" %}", pongo2.Context{"v": v}); in != "" && (op.Failed() || strings.ContainsAny(op.S, "<>\"'") || html.UnescapeString(op.S) != in) {
			t.Fail(f+":firstof-autoescape-on:"+c.Kind, "{%% firstof v|%s %%} under autoescape on with the %s %q renders %s, which does not unescape to the text", f, c.Kind, in, op)
		}
		o := px.Render(nil, "{{ v|"+f+"|safe }}", pongo2.Context{"v": v})
		if o.Failed() || strings.ContainsAny(o.S, "<>\"'") || html.UnescapeString(o.S) != in {
			t.Fail(f+":kind-template:"+c.Kind, "{{ v|%s|safe }} with the %s %q renders %s", f, c.Kind, in, o)
		}
	}
	// safe: returns its input unchanged - also under autoescape on
	o := px.Render(nil, "{{ v|safe }}", pongo2.Context{"v": v})
	if o.Failed() || o.S != in {
		t.Fail("safe:kind:"+c.Kind, "{{ v|safe }} (autoescape on) with the %s %q renders %s, want the text unchanged", c.Kind, in, o)
	}
	// ... also where a tag prints the expression itself: a named cycle and the tag that advances it, firstof
	if in != "" {
		oc := px.Render(nil, "{% for i in \"123\" %}{% cycle v|safe v|safe as c %}{% cycle c %};{% endfor %}{% firstof v|safe %}", pongo2.Context{"v": v})
		if want := strings.Repeat(in+in+";", 3) + in; oc.Failed() || oc.S != want {
			t.Fail("safe:tag-printed:"+c.Kind, "a named cycle over v|safe, the tag that advances it and firstof with the %s %q render %s, want %q", c.Kind, in, oc, want)
		}
	}
	o = px.Render(nil, "{% autoescape off %}{{ v }}{% endautoescape %}|{{ v|safe|safe }}", pongo2.Context{"v": v})
	if o.Failed() || o.S != in+"|"+in {
		t.Fail("safe:kind:"+c.Kind, "autoescape-off / double safe with the %s %q renders %s", c.Kind, in, o)
	}
}

// LitParamCase: a literal input with a parameter taken from the context: ONE compiled template rendered with several
// parameter values gives each time what ApplyFilter gives for that value.
type LitParamCase struct {
	Filter string   `json:"filter"`
	Lit    string   `json:"lit"`
	Params []string `json:"params"`
}

func (c *LitParamCase) ID() string {
	return fmt.Sprintf("{{ %q|%s:p }} rendered with p = %q", c.Lit, c.Filter, c.Params)
}

func (c *LitParamCase) Exec(t *eng.T) {
	t.Nontrivial()
	set, _ := px.NewSet(nil)
	tpl, out := px.Compile(set, "{% autoescape off %}{{ "+strconv.Quote(c.Lit)+"|"+c.Filter+":p }}|{% filter "+c.Filter+":p %}"+c.Lit+"{% endfilter %}{% endautoescape %}")
	if tpl == nil {
		t.Fail("litparam:compile", "%s does not compile: %s", c.ID(), out)
		return
	}
	for round, p := range append(append([]string{}, c.Params...), c.Params...) {
		want, err := pongo2.ApplyFilter(c.Filter, pongo2.AsValue(c.Lit), pongo2.AsValue(p))
		o := px.Exec(tpl, pongo2.Context{"p": p})
		if err != nil {
			if !o.Failed() {
				t.Fail("litparam:no-error", "%s: round %d (p=%q) renders %s, ApplyFilter fails: %v", c.ID(), round+1, p, o, err)
			}
			continue
		}
		if o.Failed() || o.S != want.String()+"|"+want.String() {
			t.Fail("litparam:stale", "%s: round %d (p=%q) renders %s, ApplyFilter gives %q", c.ID(), round+1, p, o, want.String())
			return
		}
	}
	t.Outcome("ok")
}

// SafeIdentCase: `safe` returns its input unchanged - also when the input is not text (the filters behind it see
// the same number, list, bool or nothing).
type SafeIdentCase struct {
	Name string `json:"name"`
}

func (c *SafeIdentCase) ID() string { return "safe on a non-text value: " + c.Name }

func safeIdentValues() map[string]any {
	p := 41
	return map[string]any{"int": 41, "nil": nil, "strings": []string{"a", "b"}, "false": false, "float": 1.5, "map": map[string]int{"k": 1}, "intptr": &p, "anys": []any{1, "x"}, "uint8": uint8(7), "emptylist": []int{}}
}

func (c *SafeIdentCase) Exec(t *eng.T) {
	t.Nontrivial()
	v := safeIdentValues()[c.Name]
	out, err := pongo2.ApplyFilter("safe", pongo2.AsValue(v), nil)
	if err != nil {
		t.Fail("safe:error", "safe(%s) fails: %v", c.Name, err)
		return
	}
	t.Outcome(fmt.Sprintf("%T", out.Interface()))
	if !reflect.DeepEqual(out.Interface(), v) {
		t.Fail("safe:changes-input", "ApplyFilter(safe) on the %s %#v returns %#v (%T)", c.Name, v, out.Interface(), out.Interface())
	}
	// the same chain with and without safe in the middle (kind-sensitive filters behind it)
	for _, tail := range []string{"add:1", `join:"&"`, `yesno:"on,off,none"`, `default_if_none:"none"`, "length", "first", "floatformat:2", `default:"dflt"`, "divisibleby:41", "pluralize"} {
		with := px.Render(nil, "{% autoescape off %}{{ v|safe|"+tail+" }}{% endautoescape %}", pongo2.Context{"v": v})
		without := px.Render(nil, "{% autoescape off %}{{ v|"+tail+" }}{% endautoescape %}", pongo2.Context{"v": v})
		if with.Kind() != without.Kind() || with.S != without.S { // (error positions differ by the length of "|safe")
			t.Fail("safe:changes-input:"+strings.SplitN(tail, ":", 2)[0], "{{ v|safe|%s }} with the %s %#v renders %s, without safe %s", tail, c.Name, v, with, without)
		}
	}
}

func runKinds(r *eng.Runner, a16 []string) {
	r.Group("literal-input-context-parameter", "c17.litparam", "a literal input with the filter's parameter taken from the context, one compiled template rendered with 3 parameter values twice over (removetags, cut, addslashes with an ignored parameter, default, join)")
	for _, lp := range []LitParamCase{
		{"removetags", "<b>x</b><i>y</i><u>z</u>", []string{"b", "i", "b,u"}}, {"cut", "a<b>&c", []string{"<", "&", "b"}}, {"default", "", []string{"<1>", "&2", "'3'"}},
		{"addslashes", "a'b\\c", []string{"x", "y", "z"}}, {"truncatechars", "<abcdefgh>", []string{"4", "6", "20"}}, {"escape", "<&>", []string{"a", "b", "c"}},
	} {
		lp := lp
		r.Do(&lp)
	}
	r.Group("safe-identity", "c17.safeident", "safe applied to 10 values that are not text (numbers, nil, lists, a map, a bool, a pointer): the result is the input, and 10 kind-sensitive filters behind it give what they give without it")
	for _, n := range []string{"int", "nil", "strings", "false", "float", "map", "intptr", "anys", "uint8", "emptylist"} {
		r.Do(&SafeIdentCase{Name: n})
	}
	r.Group("value-kinds", "c17.kind", "every string of <=2 special symbols handed over as a value marked safe, a *string, a Stringer struct, a pointer to it, a named string type with String(): escape/e (ApplyFilter and template) and safe under autoescape on")
	for _, k := range []string{"plain", "safevalue", "strptr", "stringer", "stringer-ptr", "named-stringer"} {
		enum.Strings(a16, 2, func(s string, _ []int) bool {
			if utf8.ValidString(s) {
				r.Do(&KindCase{Kind: k, In: eng.Q(s)})
			}
			return !r.Stopped()
		})
	}
}

func runTagRoute(r *eng.Runner, fs []fp, a16 []string) {
	r.Group("filter-tag-route", "c17.case", "every string of <=2 special symbols x 11 filter configurations through the filter tag, each execution preceded by a filter tag whose body wrote text and then failed")
	r.NoDedup()
	for _, f := range fs {
		enum.Strings(a16, 2, func(s string, _ []int) bool {
			r.Do(&Case{Filter: f.f, Param: f.p, In: eng.Q(s), Tag: true})
			return !r.Stopped()
		})
	}
}

func init() {
	eng.RegisterCase("c17.kind", func() eng.Case { return &KindCase{} })
	eng.RegisterCase("c17.litparam", func() eng.Case { return &LitParamCase{} })
	eng.RegisterCase("c17.safeident", func() eng.Case { return &SafeIdentCase{} })
	eng.RegisterCase("c17.case", func() eng.Case { return &Case{} })
	eng.Register(&eng.Check{
		ID:    "C17",
		Title: "Escaping filters neutralise exactly what they promise and lose nothing",
		Rule: "bounded-exhaustive over inputs: every BMP scalar as a one-rune string and every string up to the length bound over three alphabets of special symbols, for each escaping filter, through ApplyFilter and through {{ v|f }} under autoescape off (both routes must agree). " +
			"Oracles are the statement's predicates with independent decoders (html.UnescapeString, own \\uXXXX decoder, url.QueryUnescape, own addslashes/striptags/removetags references). Non-trivial: the input contains one of < > & \" ' \\, a multi-byte rune or invalid UTF-8. Cases are distinct by construction.",
		Assumptions: []string{
			"escapejs/iriencode exact-value oracles are applied to valid UTF-8 inputs only; for invalid UTF-8 only the output character-set predicates are judged",
			"removetags: inputs where deleting one named tag forms another named tag are skipped (sequential vs simultaneous removal is left open by the property)",
			"iriencode: a space may be encoded as + or %20",
		},
		Run: run,
	})
}
