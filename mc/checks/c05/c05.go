//go:build verifinst

// Package c05: one compiled template can be executed from many goroutines at once.
// Built only into mc-inst (pongo2 compiled through the instrumenting overlay).
package c05

import (
	"bytes"
	"fmt"
	"os"
	"sort"
	"strings"
	"sync"
	"time"

	"github.com/flosch/pongo2/v6"
	"github.com/flosch/pongo2/v6/vsched"

	"verifmc/checks/c04"
	"verifmc/internal/deep"
	"verifmc/internal/eng"
	"verifmc/internal/px"
	"verifmc/internal/xplore"
)

type Case struct {
	Files    map[string]string `json:"files"`
	Trim     bool              `json:"trim_lstrip"`
	Ops      []string          `json:"ops"` // one operation per thread
	Bound    int               `json:"bound"`
	MaxSched int               `json:"max_schedules"`
	Label    string            `json:"label"`
	// FirstUse: the case runs in a fresh process and the schedules are explored BEFORE any sequential execution,
	// so that state which pongo2 initialises lazily on first use is initialised under the scheduler
	FirstUse bool `json:"first_use,omitempty"`
}

func (c *Case) ID() string {
	var ks []string
	for k := range c.Files {
		ks = append(ks, k)
	}
	sort.Strings(ks)
	var b strings.Builder
	for _, k := range ks {
		fmt.Fprintf(&b, "%s=%q ", k, c.Files[k])
	}
	fmt.Fprintf(&b, "trim=%v ops=%v bound=%d", c.Trim, c.Ops, c.Bound)
	if c.FirstUse {
		b.WriteString(" first-use")
	}
	return b.String()
}

func pkgVarRanges() [][2]uintptr {
	var rs [][2]uintptr
	for _, v := range pongo2.VerifPkgVars() {
		rs = append(rs, [2]uintptr{uintptr(v.Addr), uintptr(v.Addr) + v.Size})
	}
	return rs
}

// keptBytes holds results of ExecuteBytes without copying them; String() is called when the execution is judged
type keptBytes struct {
	b1, b2 []byte
	e1, e2 bool
}

func (k keptBytes) String() string {
	return fmt.Sprintf("%q %v | %q %v", string(k.b1), k.e1, string(k.b2), k.e2)
}

type world struct {
	set    *pongo2.TemplateSet
	loader *px.MemLoader
	tpl    *pongo2.Template
	names  []string // the block names every ExecuteBlocks operation of this world passes (one slice, shared by the threads)
	shared pongo2.Context // ONE context map handed to the executions of several threads (they only read it)
}

func (c *Case) newWorld() (*world, string) {
	files := map[string]string{}
	for k, v := range c.Files {
		files[k] = v
	}
	files["/other"] = "other {{ n }}"
	files["/third"] = "third"
	// two loaders, as in C04: files whose name ends in "2" live behind the second one only, which also holds a shadow
	// of every other file (never served while the first loader is asked first)
	first, second := map[string]string{}, map[string]string{}
	for k, v := range files {
		if strings.HasSuffix(k, "2") {
			second[k] = v
		} else {
			first[k] = v
			second[k] = "SHADOW-OF-" + k
		}
	}
	l, l2 := px.NewMemLoader(first), px.NewMemLoader(second)
	set := pongo2.NewSet("verif", l, l2)
	c04.SetGlobals(set)
	set.Options.TrimBlocks, set.Options.LStripBlocks = c.Trim, c.Trim
	l.OnGet = func(p string) { vsched.PointHere("loader.Get " + p) }
	l2.OnGet = func(p string) { vsched.PointHere("loader2.Get " + p) }
	tpl, out := px.CompileFile(set, "/main")
	if tpl == nil {
		return nil, out.String()
	}
	return &world{set: set, loader: l, tpl: tpl, names: c04.BlockNames(), shared: c04.MkCtx(0)}, ""
}

// op returns the body of one thread
func (w *world) op(name string) func() any {
	switch {
	case strings.HasPrefix(name, "exec:"):
		i := int(name[5] - '0')
		return func() any { return px.Exec(w.tpl, c04.MkCtx(i)).String() }
	case name == "execshared":
		return func() any { return px.Exec(w.tpl, w.shared).String() }
	case strings.HasPrefix(name, "execwriter:"):
		i := int(name[11] - '0')
		return func() any {
			var b bytes.Buffer
			err := w.tpl.ExecuteWriter(c04.MkCtx(i), &b)
			return fmt.Sprintf("%q %v", b.String(), err)
		}
	case strings.HasPrefix(name, "unbuffered:"):
		i := int(name[11] - '0')
		return func() any {
			var b bytes.Buffer
			err := w.tpl.ExecuteWriterUnbuffered(c04.MkCtx(i), &b)
			return fmt.Sprintf("%q %v", b.String(), err != nil)
		}
	case strings.HasPrefix(name, "execbytes:"):
		i := int(name[10] - '0')
		return func() any {
			// the slice is kept (not copied): it is looked at only after every thread has finished
			b1, err1 := w.tpl.ExecuteBytes(c04.MkCtx(i))
			b2, err2 := w.tpl.ExecuteBytes(c04.MkCtx(i))
			return keptBytes{b1, b2, err1 != nil, err2 != nil}
		}
	case strings.HasPrefix(name, "blocks:"):
		i := int(name[7] - '0')
		return func() any {
			res, err := w.tpl.ExecuteBlocks(c04.MkCtx(i), w.names)
			var ks []string
			for k, v := range res {
				ks = append(ks, fmt.Sprintf("%s=%q", k, v))
			}
			sort.Strings(ks)
			return fmt.Sprintf("%v %v asked=%v", ks, err != nil, w.names)
		}
	case name == "compile-string":
		return func() any {
			t, err := w.set.FromString("compiled {{ n }}{% include \"other\" %}")
			if err != nil {
				return "ERR " + err.Error()
			}
			return px.Exec(t, c04.MkCtx(0)).String()
		}
	case name == "compile-opts":
		// another template of the same set is compiled and gets its own options (documented use of Template.Options)
		return func() any {
			t, err := w.set.FromString("o\n{% if 1 %}\n y{% endif %}")
			if err != nil {
				return "ERR " + err.Error()
			}
			t.Options.TrimBlocks, t.Options.LStripBlocks = true, true
			return px.Exec(t, c04.MkCtx(0)).String()
		}
	case name == "compile-file":
		return func() any {
			t, err := w.set.FromFile("/other")
			if err != nil {
				return "ERR " + err.Error()
			}
			return px.Exec(t, c04.MkCtx(1)).String()
		}
	case strings.HasPrefix(name, "fromcache:"):
		f := name[10:]
		return func() any {
			t, err := w.set.FromCache(f)
			if err != nil {
				return "ERR " + err.Error()
			}
			return px.Exec(t, c04.MkCtx(0)).String()
		}
	case name == "cleancache":
		return func() any { w.set.CleanCache(); return "cleaned" }
	case name == "cleancache:/other":
		return func() any { w.set.CleanCache("/other"); return "cleaned" }
	}
	panic("unknown op " + name)
}

// racePass: the bodies of the scenario on real goroutines, free-running, in a binary built with the Go race
// detector and WITHOUT the controlled scheduler (whose hand-offs would order everything): a report of the detector
// ends the process (GORACE halt_on_error), which the engine records as the death of this case.
func (c *Case) racePass(t *eng.T) {
	if c.FirstUse {
		t.Skip()
		return
	}
	if w, _ := c.newWorld(); w == nil {
		t.Skip()
		return
	}
	t.Nontrivial()
	solo := make([]string, len(c.Ops))
	for i, o := range c.Ops {
		w, _ := c.newWorld()
		solo[i] = fmt.Sprint(w.op(o)())
	}
	reps := 150
	for rep := 0; rep < reps; rep++ {
		w, _ := c.newWorld()
		res := make([]string, len(c.Ops))
		var wg sync.WaitGroup
		start := make(chan struct{})
		for i, o := range c.Ops {
			body := w.op(o)
			wg.Add(1)
			go func(i int) {
				defer wg.Done()
				<-start
				res[i] = fmt.Sprint(body())
			}(i)
		}
		close(start)
		wg.Wait()
		t.AddStates(1)
		if rep%32 == 0 {
			t.Heartbeat()
		}
		for i := range res {
			cacheOp := strings.HasPrefix(c.Ops[i], "cleancache") || strings.HasPrefix(c.Ops[i], "fromcache") || strings.HasPrefix(c.Ops[i], "compile")
			if res[i] != solo[i] && !cacheOp {
				t.Fail("racepass-diverges:"+c.Label, "free-running repetition %d: thread %d (%s) returned %s; alone it returns %s [%s]", rep, i, c.Ops[i], res[i], solo[i], c.ID())
				return
			}
		}
	}
	t.Outcome("race-pass")
}

func (c *Case) Exec(t *eng.T) {
	if os.Getenv("VERIF_RACEPASS") != "" {
		c.racePass(t)
		return
	}
	w0, why := c.newWorld()
	if w0 == nil {
		t.Skip()
		_ = why
		return
	}
	t.Nontrivial()
	pkgRanges := pkgVarRanges()
	var curRoots map[string]any // roots of the execution that is running (for the re-scan of the shared set)
	rescan := func() [][2]uintptr { return append(deep.Ranges(curRoots), pkgRanges...) }
	var curWorld *world
	mk := func(judge func([]any) string) func() ([]func() any, [][2]uintptr, func([]any) string) {
		return func() ([]func() any, [][2]uintptr, func([]any) string) {
			w, _ := c.newWorld()
			curWorld = w
			var bodies []func() any
			for _, o := range c.Ops {
				bodies = append(bodies, w.op(o))
			}
			roots := map[string]any{"tpl": w.tpl, "set": w.set, "names": &w.names, "shared": w.shared}
			for _, v := range pongo2.VerifPkgVars() {
				roots["pkg."+v.Name] = v.Ptr // everything reachable from package-level variables is shared, too
			}
			curRoots = roots
			shared := deep.Ranges(roots)
			shared = append(shared, pkgRanges...)
			return bodies, shared, judge
		}
	}
	report := func(st *xplore.Stats) {
		t.AddStates(int64(st.Schedules))
		t.AddTransitions(int64(st.Points))
		t.AddExtra("distinct_interleavings_executed", int64(len(st.DistinctTraces)))
		t.AddExtra("max_points_in_one_schedule", int64(st.MaxPoints))
		t.AddExtra("shared_set_rescans", int64(st.Rescans))
		if !st.Complete {
			t.AddExtra("scenarios_capped", 1)
		}
		for _, f := range st.Findings {
			if f.Kind == "nondeterministic" {
				// a replay that diverges is a fault of the harness' control over nondeterminism (e.g. Go map order
				// deciding the order of events), not a statement about the property: counted, never an alarm
				t.AddExtra("scenarios_with_nondeterministic_replay", 1)
				continue
			}
			t.Fail(f.Key, "%s [%s] schedule=%v", f.Desc, c.ID(), f.Schedule)
		}
	}
	if c.FirstUse {
		// nothing of this program has been executed in this process yet: the first schedules see the first use
		st := xplore.Explore(xplore.Scenario{Name: c.Label, Make: mk(func([]any) string { return "" }), Rescan: rescan}, c.Bound, c.MaxSched, t.Heartbeat)
		report(st)
		t.AddExtra("first_use_scenarios", 1)
	}
	// solo results: every operation alone on its own fresh world
	solo := make([]string, len(c.Ops))
	for i, o := range c.Ops {
		w, _ := c.newWorld()
		solo[i] = fmt.Sprint(w.op(o)())
	}
	judge := func(res []any) string {
		for i, r := range res {
			if fmt.Sprint(r) != solo[i] {
				return fmt.Sprintf("thread %d (%s) returned %v; running alone it returns %s", i, c.Ops[i], r, solo[i])
			}
		}
		// what the concurrent executions left behind: the same operations once more, one after the other, on the
		// template and set the threads have just used (the scheduler is not active here)
		for i, o := range c.Ops {
			if strings.HasPrefix(o, "cleancache") || strings.HasPrefix(o, "fromcache") || strings.HasPrefix(o, "compile") {
				continue // their result legitimately depends on what the other thread did to the cache
			}
			if got := fmt.Sprint(curWorld.op(o)()); got != solo[i] {
				return fmt.Sprintf("after the concurrent executions, %s executed alone on the same template returns %v; on a fresh template it returns %s", o, got, solo[i])
			}
		}
		return ""
	}
	st := xplore.Explore(xplore.Scenario{Name: c.Label, Make: mk(judge), Rescan: rescan}, c.Bound, c.MaxSched, t.Heartbeat)
	report(st)
	t.Outcome(fmt.Sprint(len(st.DistinctOut), st.Schedules > 2))
}

func run(r *eng.Runner) {
	names, files := c04.ProgramList()
	bound, maxS := 1, 3000
	if !r.Quick() {
		bound, maxS = 3, 200000
	}
	r.Group("exec-exec", "c05.case", fmt.Sprintf("two threads executing ONE compiled template (every C04 program, options off and TrimBlocks+LStripBlocks) with different contexts (also the failing one; for programs with blocks also ExecuteBlocks with one list of names shared by the threads; two executions that are handed the SAME Context map), every schedule up to %d preemption(s); stores into memory reachable from the template/set/package variables are scheduling points, loader I/O too", bound))
	for i, n := range names {
		for _, trim := range []bool{false, true} {
			for oi, ops := range [][]string{{"exec:0", "exec:1"}, {"exec:0", "exec:2"}, {"execwriter:1", "unbuffered:0"}, {"execbytes:0", "execbytes:1"}} {
				if strings.HasSuffix(n, "-deep") && (oi > 0 || trim) {
					continue // 600 nested calls per execution: one pairing is enough (every scheduling point inside the recursion multiplies the schedules)
				}
				r.Do(&Case{Files: files[i], Trim: trim, Ops: ops, Bound: bound, MaxSched: maxS, Label: "exec-exec:" + n})
			}
			if !trim && !strings.HasSuffix(n, "-deep") {
				// one request context shared by the goroutines that render it
				r.Do(&Case{Files: files[i], Trim: trim, Ops: []string{"execshared", "execshared"}, Bound: bound, MaxSched: maxS, Label: "exec-shared-context:" + n})
			}
			if strings.Contains(files[i]["/main"], "{% block") {
				for _, ops := range [][]string{{"blocks:0", "blocks:1"}, {"blocks:0", "exec:1"}} {
					r.Do(&Case{Files: files[i], Trim: trim, Ops: ops, Bound: bound, MaxSched: maxS, Label: "blocks:" + n})
				}
			}
		}
	}
	if !r.Quick() {
		r.Group("exec-exec-exec", "c05.case", "three threads executing one compiled template, preemption bound 2; four threads, preemption bound 1")
		for i, n := range names {
			if strings.HasSuffix(n, "-deep") {
				continue
			}
			r.Do(&Case{Files: files[i], Trim: true, Ops: []string{"exec:0", "exec:1", "exec:2"}, Bound: 2, MaxSched: maxS, Label: "exec3:" + n})
			r.Do(&Case{Files: files[i], Ops: []string{"exec:0", "exec:1", "exec:0", "execbytes:1"}, Bound: 1, MaxSched: maxS, Label: "exec4:" + n})
		}
	}
	r.Group("first-use", "c05.case", "the same two-thread scenarios in a FRESH process each, explored before anything of the program was executed sequentially (lazily initialised or process-wide state is first touched under the scheduler); programs whose execution fails inside a filter, a tag or a call, and the deep macro recursions")
	for i, n := range names {
		if !strings.HasPrefix(n, "filter-error") && !strings.HasSuffix(n, "-deep") && n != "calls" && n != "now" && n != "lorem" && n != "filters" && n != "include-lazy" {
			continue
		}
		for _, ops := range [][]string{{"exec:0", "exec:1"}, {"exec:1", "exec:2"}} {
			r.DoIsolated(&Case{Files: files[i], Ops: ops, Bound: bound, MaxSched: 400, Label: "first-use:" + n, FirstUse: true}, 120*time.Second)
		}
	}
	r.Group("exec-compile", "c05.case", "one thread executes a compiled template while another compiles (FromString / FromFile) or fetches (FromCache) in the same set; cache operations against each other")
	for i, n := range names {
		if n != "text" && n != "include-lazy" && n != "include" && n != "cycle" && n != "extends" && n != "macro" && n != "whitespace" && r.Quick() {
			continue
		}
		for _, ops := range [][]string{{"exec:0", "compile-string"}, {"exec:1", "compile-file"}, {"exec:0", "fromcache:/other"}, {"exec:0", "compile-opts"}} {
			r.Do(&Case{Files: files[i], Ops: ops, Bound: bound, MaxSched: maxS, Label: "exec-compile:" + n})
		}
	}
	base := map[string]string{"/main": "m{{ n }}"}
	for _, ops := range [][]string{
		{"fromcache:/other", "fromcache:/other"}, {"fromcache:/other", "fromcache:/third"}, {"fromcache:/other", "cleancache"}, {"fromcache:/other", "cleancache:/other"},
		{"compile-string", "compile-string"}, {"compile-file", "compile-string"}, {"cleancache", "cleancache:/other"}, {"fromcache:/nofile", "fromcache:/other"},
	} {
		r.Do(&Case{Files: base, Ops: ops, Bound: bound + 1, MaxSched: maxS, Label: "set-ops:" + strings.Join(ops, "+")})
	}
	if !r.Quick() {
		for _, ops := range [][]string{{"fromcache:/other", "fromcache:/other", "cleancache"}, {"fromcache:/other", "fromcache:/third", "compile-string"}, {"fromcache:/other", "fromcache:/other", "fromcache:/other"}} {
			r.Do(&Case{Files: base, Ops: ops, Bound: 2, MaxSched: maxS, Label: "set-ops3:" + strings.Join(ops, "+")})
		}
	}
}

func init() {
	eng.RegisterCase("c05.case", func() eng.Case { return &Case{} })
	eng.Register(&eng.Check{
		ID:    "C05",
		Title: "One compiled template can be executed from many goroutines at once",
		Rule:  "stateless model checking of the real code under a controlled scheduler: for every scenario (k threads, one operation each, on one freshly built shared template/set per schedule) ALL schedules up to the preemption bound are executed (iterative context bounding, depth-first over recorded choice points; scheduling points = mutex operations, loader I/O, and every instrumented store into memory reachable from the shared template, set or package variables). Per schedule: each thread's result must equal its solo result, a FastTrack-style vector-clock detector over all instrumented loads/stores must find no happens-before-unordered conflicting pair, and there must be no deadlock. states = schedules executed, transitions = scheduling decisions. The first schedule of every scenario is executed twice and the event traces compared (determinism of replay).",
		Assumptions: []string{
			"pongo2 is compiled through the source instrumenter (/verif/instr): loads/stores inside the standard library are not seen by the vector-clock detector",
			"sequential consistency: weak-memory effects below Go's happens-before model are outside this check; the quantifier's static clause is another family and not covered",
			"sync.RWMutex is modelled as an exclusive lock",
		},
		Run: run,
	})
}
