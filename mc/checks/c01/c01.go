// Package c01: totality - compiling and executing never panics, crashes or hangs.
package c01

import (
	"fmt"
	"sort"
	"strings"
	"sync"
	"time"

	"github.com/flosch/pongo2/v6"

	"verifmc/internal/eng"
	"verifmc/internal/enum"
	"verifmc/internal/px"
)

type Case struct {
	Src   eng.Q             `json:"src"`
	Files map[string]string `json:"files,omitempty"`
	Layer string            `json:"layer"`
	// Apply: instead of compiling a template, call ApplyFilter(Filter, In, Param) directly
	Filter string `json:"filter,omitempty"`
	In     string `json:"in,omitempty"`
	Param  string `json:"param,omitempty"`
	// Opts: bit 0 TrimBlocks, bit 1 LStripBlocks (on the set)
	Opts int `json:"opts,omitempty"`
}

func (c *Case) ID() string {
	if c.Filter != "" {
		return fmt.Sprintf("ApplyFilter(%s, %s, %s)", c.Filter, c.In, c.Param)
	}
	s := fmt.Sprintf("%q", string(c.Src))
	if c.Opts != 0 {
		s += fmt.Sprintf(" opts=%d", c.Opts)
	}
	if len(c.Files) > 0 {
		var ks []string
		for k := range c.Files {
			ks = append(ks, k)
		}
		sort.Strings(ks)
		for _, k := range ks {
			s += fmt.Sprintf(" %s=%q", k, c.Files[k])
		}
	}
	return s
}

var (
	uOnce sync.Once
	uCtx  pongo2.Context
	uMap  map[string]any
)

func uni() pongo2.Context {
	uOnce.Do(func() {
		uCtx = universeCtx()
		uMap = map[string]any{}
		for _, nv := range universe() {
			uMap[nv.Name] = nv.V
		}
	})
	return uCtx
}

func (c *Case) Exec(t *eng.T) {
	ctx := uni()
	if c.Filter != "" {
		t.Nontrivial()
		var p *pongo2.Value
		if c.Param != "-" {
			p = pongo2.AsValue(uMap[c.Param])
		}
		site, msg, pan := eng.Protect(func() {
			v, err := pongo2.ApplyFilter(c.Filter, pongo2.AsValue(uMap[c.In]), p)
			if err == nil && v != nil {
				_ = v.String()
				_ = v.IsTrue()
				_ = v.Len()
			}
		})
		t.Outcome(fmt.Sprint(pan))
		if pan {
			t.Fail("panic:"+site+":"+msg, "%s panics: %s (at %s)", c.ID(), msg, site)
		}
		return
	}
	files := c.Files
	set, _ := px.NewSet(files)
	set.Options.TrimBlocks = c.Opts&1 != 0
	set.Options.LStripBlocks = c.Opts&2 != 0
	var tpl *pongo2.Template
	var out px.Out
	if len(files) > 0 && string(c.Src) == "" {
		tpl, out = px.CompileFile(set, "/main")
	} else {
		tpl, out = px.Compile(set, string(c.Src))
	}
	if out.Panic != "" {
		t.Outcome("panic")
		t.Fail("panic:"+out.Panic, "compiling %s panics: %s", c.ID(), out.PanicMsg)
		return
	}
	if tpl == nil && out.Err == "" {
		t.Fail("contract:neither-template-nor-error", "compiling %s returned neither a template nor an error", c.ID())
		return
	}
	if tpl == nil {
		// the set's rendering shortcuts return (string, error): the same failure comes back as their error
		var rerr error
		site, msg, pan := eng.Protect(func() {
			if len(files) > 0 && string(c.Src) == "" {
				_, rerr = set.RenderTemplateFile("/main", ctx)
			} else {
				_, rerr = set.RenderTemplateString(string(c.Src), ctx)
				if rerr != nil {
					_, rerr = set.RenderTemplateBytes([]byte(string(c.Src)), ctx)
				}
			}
		})
		if pan {
			t.Fail("panic:render-shortcut:"+site, "%s does not compile (%s) and the set's RenderTemplate* shortcut panics instead of returning the error: %s", c.ID(), out.Err, msg)
		} else if rerr == nil {
			t.Fail("contract:render-shortcut-no-error", "%s does not compile (%s) but the set's RenderTemplate* shortcut returns no error", c.ID(), out.Err)
		}
		t.Outcome("compile-error")
		return
	}
	t.Nontrivial()
	o := px.Exec(tpl, ctx)
	t.Outcome(o.Kind())
	if o.Panic != "" {
		t.Fail("panic:"+o.Panic, "executing %s panics: %s", c.ID(), o.PanicMsg)
		return
	}
	// a second entry point must not panic either
	site, msg, pan := eng.Protect(func() { tpl.ExecuteWriterUnbuffered(ctx, discard{}) })
	if pan {
		t.Fail("panic:"+site+":"+msg, "executing %s (unbuffered) panics: %s", c.ID(), msg)
	}
}

type discard struct{}

func (discard) Write(p []byte) (int, error) { return len(p), nil }

// ---- generators ----

var stepForms = []string{".Name", ".name", ".secret", ".0", ".7", ".Upper", ".PtrMethod", ".In", ".P", ".NilP", ".Any", ".L", ".M", ".F", ".E", ".X", ".T", ".k", ".a", ".nil",
	"()", "(1)", `("s")`, "(1, 2)", "(nil)", "(sAbc, i1)", `["a"]`, "[0]", "[iNeg]", "[sAbc]", "[nil]", "[fNaN]", "[slI]", "[mS]", "[iMax]", "[stUncmp]", "[ifUncmp]", "[slUncmp.0]", "[arr]", "[st]", "[tm]"}

func tagSchemas() []string {
	// argument schemas for the built-in tags: {E} = expression slot, filled from the universe and literals
	return []string{
		"{% if {E} %}a{% elif {E} %}b{% else %}c{% endif %}", "{% if {E} == {E} %}a{% endif %}", "{% if {E} in {E} %}a{% endif %}", "{% if not {E} and {E} or {E} %}a{% endif %}", "{% if {E} < {E} %}a{% endif %}", "{% if {E} >= {E} %}a{% endif %}",
		"{% for x in {E} %}{{ x }}{{ forloop.Counter }}{% empty %}e{% endfor %}", "{% for k, v in {E} reversed sorted %}{{ k }}{{ v }}{% endfor %}", "{% for x in {E} sorted %}{{ x }}{% endfor %}", "{% for x in {E} reversed %}{{ x }}{% endfor %}",
		"{% ifequal {E} {E} %}a{% else %}b{% endifequal %}", "{% ifnotequal {E} {E} %}a{% endifnotequal %}",
		"{% firstof {E} {E} {E} %}", "{% firstof %}", "{% cycle {E} {E} %}", "{% cycle %}", "{% cycle {E} as c silent %}{{ c }}{% cycle c %}", "{% cycle as c %}", "{% for i in slI %}{% cycle {E} {E} as c %}{% cycle c %}{% endfor %}", "{% for i in sAbc|add:sNum %}{% cycle {E} {E} as c %}{% cycle c {E} {E} %}{% cycle c %}{% endfor %}", "{% for i in sAbc|add:sNum %}{% cycle {E} as c silent %}{% cycle {E} c {E} c %}{% endfor %}",
		"{% ifchanged {E} {E} %}a{% else %}b{% endifchanged %}",
		// several watched values of which different ones change from round to round
		"{% for c in \"abbbc\" %}{% ifchanged c forloop.Last {E} %}x{% else %}y{% endifchanged %}{% ifchanged {E} c forloop.First %}x{% endifchanged %}{% ifchanged forloop.Last forloop.First c {E} %}z{% endifchanged %}{% endfor %}", "{% for i in slI %}{% ifchanged {E} %}a{% endifchanged %}{% ifchanged %}{{ {E} }}{% endifchanged %}{% endfor %}",
		"{% with a={E} b={E} %}{{ a }}{{ b }}{% endwith %}", "{% with {E} as a %}{{ a }}{% endwith %}", "{% set a = {E} %}{{ a }}",
		"{% widthratio {E} {E} {E} %}", "{% widthratio {E} {E} {E} as w %}{{ w }}",
		"{% include {E} %}", "{% include {E} if_exists %}", "{% include \"inc\" with a={E} only %}", "{% include {E} with a={E} %}",
		"{% macro m(a={E}, b) %}{{ a }}{{ b }}{% endmacro %}{{ m() }}{{ m({E}) }}{{ m({E}, {E}) }}{{ m(1, 2, 3) }}",
		"{% filter add:{E} %}x{% endfilter %}", "{% filter slice:{E}|join:{E} %}abc{% endfilter %}",
		"{% now {E} %}", "{% lorem {E} %}", "{% templatetag {E} %}", "{% autoescape {E} %}a{% endautoescape %}", "{% ssi {E} %}", "{% extends {E} %}", "{% import {E} m %}", "{% block {E} %}{% endblock %}", "{% spaceless %}{{ {E} }}{% endspaceless %}",
		"{{ {E} + {E} }}", "{{ {E} - {E} }}", "{{ {E} * {E} }}", "{{ {E} / {E} }}", "{{ {E} % {E} }}", "{{ {E} ^ {E} }}", "{{ -{E} }}", "{{ !{E} }}", "{{ {E} in {E} }}", "{{ {E} == {E} }}", "{{ {E} != {E} }}", "{{ {E} <= {E} }}", "{{ {E} > {E} }}", "{{ {E} and {E} }}", "{{ {E} or {E} }}",
		// names the engine itself binds, rebound by the template
		"{% set forloop = {E} %}{% for x in sAbc %}{{ forloop.Counter }}{{ forloop.Parentloop }}{% endfor %}", "{% with forloop={E} %}{% for x in slI %}{{ forloop.Last }}{% for y in slI %}{{ forloop.Parentloop.Counter }}{% endfor %}{% endfor %}{% endwith %}",
		"{% for forloop in {E} %}{% for x in slI %}{{ forloop }}{% endfor %}{% endfor %}", "{% set block = {E} %}{% block bq %}{{ block.Super }}{{ block }}{% endblock %}", "{% with pongo2={E} %}{{ pongo2.version }}{% endwith %}",
		"{% macro forloop() %}m{% endmacro %}{% for x in slI %}{{ forloop }}{% endfor %}{{ forloop() }}", "{% set c = {E} %}{% cycle c %}{% cycle {E} as c %}{% cycle c %}", "{% for x in slI %}{% set forloop = {E} %}{{ forloop.Counter }}{% endfor %}",
		"{{ [{E}, {E}] }}", "{{ [{E}]|first }}", "{{ [{E}, {E}]|join:{E} }}", "{% for x in [{E}, {E}] sorted %}{{ x }}{% endfor %}", "{{ {E}|default:{E}|length }}",
	}
}

// fill replaces the {E} slots by every combination of the given atoms (bounded: first slot all, others a rotation)
func fillAll(schema string, atoms []string, full bool, f func(string)) {
	n := strings.Count(schema, "{E}")
	if n == 0 {
		f(schema)
		return
	}
	if n == 1 || (full && n == 2) {
		enum.Tuples(len(atoms), n, func(idx []int) bool {
			s := schema
			for _, i := range idx {
				s = strings.Replace(s, "{E}", atoms[i], 1)
			}
			f(s)
			return true
		})
		return
	}
	// many slots: every atom in every slot, the other slots rotating through the atoms
	for slot := 0; slot < n; slot++ {
		for i := range atoms {
			s := schema
			for k := 0; k < n; k++ {
				a := atoms[(i+(k-slot)*7+len(atoms)*8)%len(atoms)]
				if k == slot {
					a = atoms[i]
				}
				s = strings.Replace(s, "{E}", a, 1)
			}
			f(s)
		}
	}
}

func run(r *eng.Runner) {
	q := r.Quick()
	un := universe()
	var names []string
	for _, nv := range un {
		names = append(names, nv.Name)
	}
	tags := pongo2.VerifRegisteredTags()
	filters := pongo2.VerifRegisteredFilters()
	do := func(layer, src string) { r.Do(&Case{Src: eng.Q(src), Layer: layer}) }

	// ---- layer 1: raw strings ----
	alpha := []string{"{", "}", "%", "#", "-", "\"", "'", "\\", "|", ":", ".", ",", "(", ")", "[", "]", "=", " ", "\n", "a", "1", "\x01", "\x80", "!"}
	L := 4
	if !q {
		L = 5
	}
	r.Group("raw-strings", "c01.case", fmt.Sprintf("every string of <=%d symbols over %d lexer-significant symbols (plus the same wrapped in {{ }} and {%% %%} for <=%d), compiled and executed against the value universe", L, len(alpha), L-1))
	r.NoDedup()
	enum.Strings(alpha, L, func(s string, _ []int) bool {
		do("raw", s)
		return !r.Stopped()
	})
	enum.Strings(alpha, L-1, func(s string, _ []int) bool {
		do("raw", "{{"+s+"}}")
		do("raw", "{%"+s+"%}")
		do("raw", "{{ a"+s+" }}")
		do("raw", "{% if "+s+" %}x{% endif %}")
		return !r.Stopped()
	})

	// ---- layer 2: token sequences ----
	toks := []string{"a", "sAbc", "slI", "mS", "st", "fn1", "nil", "1", "0", "99999999999999999999", "1.5", `"s"`, `'q'`, `""`, "true", "false", "in", "and", "or", "not", "as", "export", "with", "only", "if_exists", "reversed", "sorted", "silent", "parsed",
		"(", ")", "[", "]", ",", ".", ":", "|", "=", "==", "!=", "<", ">=", "+", "-", "*", "/", "%", "^", "!", "&&", "||", "upper", "length", "safe"}
	n := 3
	nt := 2
	if !q {
		n, nt = 4, 3
	}
	r.Group("token-sequences", "c01.case", fmt.Sprintf("every sequence of <=%d tokens from a %d-token alphabet inside {{ }}; every sequence of <=%d tokens as the arguments of every registered tag (%d, registry hook), with and without its end tag", n, len(toks), nt, len(tags)))
	r.NoDedup()
	enum.Seqs(len(toks), n, func(idx []int) bool {
		var parts []string
		for _, i := range idx {
			parts = append(parts, toks[i])
		}
		do("tokens", "{{ "+strings.Join(parts, " ")+" }}")
		return !r.Stopped()
	})
	for _, tg := range tags {
		enum.Seqs(len(toks), nt, func(idx []int) bool {
			var parts []string
			for _, i := range idx {
				parts = append(parts, toks[i])
			}
			a := strings.Join(parts, " ")
			do("tokens", "{% "+tg+" "+a+" %}")
			do("tokens", "{% "+tg+" "+a+" %}x{% end"+tg+" %}")
			do("tokens", "{% "+tg+" "+a+" %}x{% else %}y{% end"+tg+" "+a+" %}")
			return !r.Stopped()
		})
	}

	// ---- layer 2b: truncations ----
	r.Group("truncations", "c01.case", fmt.Sprintf("complete uses of every registered tag (%d; 6 argument forms; plain, with else, nested in itself, after a comment/verbatim) cut off at EVERY byte position, also with one blank appended: the parser's skip-until/wrap-until loops at every possible end of input", len(tags)))
	argForms := []string{"", "a", "i in l", "x = 1", `"s"`, "a b as c"}
	for _, tg := range tags {
		for _, a := range argForms {
			op := "{% " + tg + " " + a + " %}"
			if a == "" {
				op = "{% " + tg + " %}"
			}
			en := "{% end" + tg + " %}"
			fulls := []string{
				"a" + op + "b" + en + "c",
				op + "b{% else %}c" + en,
				op + op + "x" + en + en,
				"{% comment %}" + op + "{% endcomment %}" + op + en,
				op + "{{ a }}{% if a %}y{% endif %}" + en + "{# c #}",
			}
			for _, f := range fulls {
				for cut := 1; cut < len(f); cut++ {
					do("truncated", f[:cut])
					if f[cut-1] != ' ' {
						do("truncated", f[:cut]+" ")
					}
				}
			}
		}
	}

	// ---- layer 2c: whitespace options ----
	r.Group("options", "c01.case", "documents W U W U W of two units from {set, if, for, variable, comment, comment tag, set with dashes} whose bodies and surroundings are whitespace-only or empty pieces, under all four TrimBlocks x LStripBlocks settings (text pieces that the options reduce to nothing)")
	{
		outer := []string{"", " ", "\n", "\t \n", "\n  "}
		inner := []string{"", " ", "\n", " \n\t"}
		type unit struct {
			open, close string // close == "": no body
		}
		units := []unit{{"{% set x = 1 %}", ""}, {"{% if 1 %}", "{% endif %}"}, {"{% for i in slI %}", "{% endfor %}"}, {"{{ 1 }}", ""}, {"{# c #}", ""}, {"{% comment %}", "{% endcomment %}"}, {"{%- set y = 2 -%}", ""}, {"{% if 0 %}", "{% else %}{% endif %}"}}
		render := func(u unit, body string) string {
			if u.close == "" {
				return u.open
			}
			return u.open + body + u.close
		}
		for _, u1 := range units {
			for _, u2 := range units {
				b1s, b2s := []string{""}, []string{""}
				if u1.close != "" {
					b1s = inner
				}
				if u2.close != "" {
					b2s = inner
				}
				for _, b1 := range b1s {
					for _, b2 := range b2s {
						enum.Tuples(len(outer), 3, func(wi []int) bool {
							src := outer[wi[0]] + render(u1, b1) + outer[wi[1]] + render(u2, b2) + outer[wi[2]]
							for opts := 0; opts < 4; opts++ {
								r.Do(&Case{Src: eng.Q(src), Layer: "options", Opts: opts})
							}
							return !r.Stopped()
						})
					}
				}
			}
		}
	}

	// ---- layer 3: resolver ----
	depth := 2
	if !q {
		depth = 3
	}
	r.Group("resolver", "c01.case", fmt.Sprintf("every universe value (%d: every kind the property names incl. extremes) x every access path of <=%d steps over %d step forms x 5 sinks", len(un), depth, len(stepForms)))
	r.NoDedup()
	sinks := []func(string) string{
		func(p string) string { return "{{ " + p + " }}" },
		func(p string) string { return "{% if " + p + " %}a{% endif %}" },
		func(p string) string { return "{% for x in " + p + " %}{{ x }}{% endfor %}" },
		func(p string) string { return "{{ " + p + "|length }}" },
		func(p string) string {
			return "{% for k, v in " + p + " sorted %}{{ k }}{{ v }}{% endfor %}{{ " + p + "|safe }}"
		},
	}
	for _, name := range names {
		enum.Seqs(len(stepForms), depth, func(idx []int) bool {
			p := name
			for _, i := range idx {
				p += stepForms[i]
			}
			for _, sk := range sinks {
				do("resolver", sk(p))
			}
			return !r.Stopped()
		})
	}

	// ---- layer 4: filters ----
	r.Group("filters", "c01.case", fmt.Sprintf("every registered filter (%d) x every universe value as input x every universe value (or none) as argument: through ApplyFilter, through {{ v|f:p }} and through the filter tag", len(filters)))
	r.NoDedup()
	for _, f := range filters {
		for _, in := range names {
			r.Do(&Case{Filter: f, In: in, Param: "-", Layer: "filters"})
			do("filters", "{{ "+in+"|"+f+" }}")
			for _, p := range names {
				r.Do(&Case{Filter: f, In: in, Param: p, Layer: "filters"})
			}
			if !q || strings.HasPrefix(in, "s") || strings.HasPrefix(in, "sl") || in == "nil" || in == "iMax" || in == "fNaN" || in == "mS" || in == "st" || in == "arr" {
				for _, p := range names {
					do("filters", "{{ "+in+"|"+f+":"+p+" }}")
				}
			}
		}
		for _, p := range names {
			do("filters", "{% filter "+f+":"+p+" %}ab cd{% endfilter %}")
		}
		// small integer arguments against every text of the universe (cut points inside multi-byte text, widths, indexes)
		for _, in := range names {
			if strings.HasPrefix(in, "s") && !strings.HasPrefix(in, "sl") && !strings.HasPrefix(in, "st") {
				for _, n := range smallInts {
					do("filters", fmt.Sprintf("{{ %s|%s:%d }}", in, f, n))
				}
			}
		}
		if r.Stopped() {
			return
		}
	}
	sub := []string{"nil", "sAbc", "sBadUtf8", "sColon", "iMin", "uMax", "fNaN", "fInf", "slA", "arr", "mArr", "st", "tm"}
	r.Group("filter-chains", "c01.case", fmt.Sprintf("every 2-chain of registered filters over a %d-value sub-universe, each with that value also as argument", len(sub)))
	r.NoDedup()
	for _, f1 := range filters {
		for _, f2 := range filters {
			for _, v := range sub {
				do("filter-chains", "{{ "+v+"|"+f1+"|"+f2+" }}")
				if !q {
					do("filter-chains", "{{ "+v+"|"+f1+":"+v+"|"+f2+":"+v+" }}")
				}
			}
		}
		if r.Stopped() {
			return
		}
	}

	// ---- layer 5/6: tags and operators ----
	atoms := append([]string{}, names...)
	atoms = append(atoms, "1", "0", `"lit"`, `""`, "true", "9999999999", "1.5", "0.5", "0.0", "missing", "st.In.Name", "slI.0", "fn1(1)", "st.F(2)", "(1)", "[1, 2]")
	r.Group("tags-operators", "c01.case", fmt.Sprintf("%d tag/operator schemas whose expression slots are filled from %d atoms (every universe value, literals, paths, calls): one- and two-slot schemas exhaustively, larger ones with every atom in every slot", len(tagSchemas()), len(atoms)))
	files := map[string]string{"/inc": "I{{ a }}", "/main": ""}
	_ = files
	for _, sc := range tagSchemas() {
		fillAll(sc, atoms, true, func(s string) {
			r.Do(&Case{Src: eng.Q(s), Files: map[string]string{"/inc": "I{{ a }}"}, Layer: "tags-operators"})
		})
		if r.Stopped() {
			return
		}
	}

	// ---- layer 6b: pongo2's own loaders ----
	runLoaders(r)
	if r.Stopped() {
		return
	}

	// ---- layer 7: recursion and depth ----
	r.Group("recursion", "c01.case", "every self- and 2-cycle of include (static, lazy), extends, import, ssi parsed through an in-memory loader, branching and mixed cycles; deep nesting of ( [ if for with filter chains (depth 10000 / 2000); each in a fresh sub-process with a 32 MB stack cap")
	cyc := map[string]map[string]string{
		"include-self":        {"/main": `{% include "main" %}`},
		"include-self-lazy":   {"/main": `x{% include mainname %}`},
		"include-2cycle":      {"/main": `{% include "b" %}`, "/b": `{% include "main" %}`},
		"include-2cycle-lazy": {"/main": `{% include bname %}`, "/b": `{% include mainname %}`},
		"include-mixed":       {"/main": `{% include "b" %}`, "/b": `{% include mainname %}`},
		"extends-self":        {"/main": `{% extends "main" %}`},
		"extends-2cycle":      {"/main": `{% extends "b" %}`, "/b": `{% extends "main" %}`},
		"import-self":         {"/main": `{% macro m() export %}{% endmacro %}{% import "main" m %}`},
		"import-2cycle":       {"/main": `{% import "b" m %}{% macro n() export %}{% endmacro %}`, "/b": `{% import "main" n %}{% macro m() export %}{% endmacro %}`},
		"ssi-self":            {"/main": `{% ssi "main" parsed %}`},
		"ssi-2cycle":          {"/main": `{% ssi "b" parsed %}`, "/b": `{% ssi "main" parsed %}`},
		"include-in-block":    {"/main": `{% extends "b" %}{% block c %}{% include "main" %}{% endblock %}`, "/b": `{% block c %}{% endblock %}`},
		"include-if-exists":   {"/main": `{% include "main" if_exists %}`},
		"macro-includes-self": {"/main": `{% macro m() %}{% include "main" %}{% endmacro %}{{ m() }}`},
		// branching recursion (the first branch must end the whole compilation / execution), longer cycles, mixed tags
		"include-self-twice":        {"/main": `{% include "main" %}{% include "main" %}`},
		"include-lazy-in-for":       {"/main": `x{% for i in "abc" %}{% include mainname if_exists %}{% endfor %}`},
		"include-3cycle":            {"/main": `{% include "b" %}`, "/b": `{% include "c" %}`, "/c": `{% include "main" %}`},
		"ssi-include-extends-cycle": {"/main": `{% ssi "b" parsed %}`, "/b": `{% extends "c" %}`, "/c": `{% block x %}{% include "main" %}{% endblock %}`},
		"import-in-included":        {"/main": `{% include "b" %}`, "/b": `{% import "main" m %}{% macro n() export %}{% endmacro %}`},
		"macro-lazy-include-self":   {"/main": `{% macro m(k) %}{% include mainname with d=k %}{% endmacro %}{{ m(1) }}`},
	}
	var cn []string
	for k := range cyc {
		cn = append(cn, k)
	}
	sort.Strings(cn)
	for _, k := range cn {
		r.Group("cycle:"+k, "c01.case", "the composition cycle "+k+" in a fresh sub-process")
		r.DoIsolated(&Case{Files: cyc[k], Layer: "recursion:" + k}, 60*time.Second)
	}
	r.Group("depth-and-caps", "c01.case", "deep nesting of ( [ not filters ^ + and < dots (10000) and of if/for/with/filter/spaceless blocks (2000; for: 12 = 3^12 iterations); resource caps (lorem, padding, floatformat, huge exponents, MinInt/-1); each in a fresh sub-process")
	deep := 10000
	for _, d := range []struct{ name, open, mid, close string }{
		{"parens", "(", "1", ")"}, {"brackets", "[", "1", "]"}, {"unary-not", "not ", "1", ""}, {"filters", "", "sAbc", "|upper"}, {"power", "2^", "2", ""}, {"plus", "1+", "1", ""}, {"and", "1 and ", "1", ""}, {"lt", "1<", "1", ""}, {"dots", "", "mS", ".a"},
	} {
		src := "{{ " + strings.Repeat(d.open, deep) + d.mid + strings.Repeat(d.close, deep) + " }}"
		r.DoIsolated(&Case{Src: eng.Q(src), Layer: "depth:" + d.name}, 120*time.Second)
	}
	for _, d := range []struct{ name, open, close string }{
		{"if", "{% if 1 %}", "{% endif %}"}, {"for", "{% for i in sAbc %}", "{% endfor %}"}, {"with", "{% with a=1 %}", "{% endwith %}"}, {"filter-tag", "{% filter upper %}", "{% endfilter %}"}, {"block", "", ""}, {"spaceless", "{% spaceless %}", "{% endspaceless %}"},
	} {
		if d.open == "" {
			continue
		}
		k := 2000
		src := strings.Repeat(d.open, k) + "x" + strings.Repeat(d.close, k)
		if d.name == "for" {
			k = 12 // 3^12 iterations
			src = strings.Repeat(d.open, k) + "x" + strings.Repeat(d.close, k)
		}
		r.DoIsolated(&Case{Src: eng.Q(src), Layer: "depth:" + d.name}, 120*time.Second)
	}
	// values that refer to themselves
	for _, s := range []string{`{% for i in "abc" %}{% cycle c as c %}{% endfor %}`, `{% cycle c as c %}{% cycle c %}{{ c }}`, `{% for i in "ab" %}{% cycle "a" c as c %}{{ c }}{% endfor %}`, `{% cycle c as c silent %}{{ c|upper }}{% if c %}x{% endif %}`,
		`{% set a = [a] %}{% set a = [a] %}{{ a }}{{ a|join:"," }}`, `{% with x=x %}{% with x=x %}{{ x }}{% endwith %}{% endwith %}`, `{% macro m(p=m) %}{{ p }}{% endmacro %}{{ m() }}`,
		`{% macro m(a=m()) %}x{% endmacro %}{{ m() }}`, `{% macro a(x=b()) %}x{% endmacro %}{% macro b(x=a()) %}y{% endmacro %}{{ a() }}`, `{% macro m(a=1) %}{{ m(m(a)) }}{% endmacro %}{{ m() }}`,
		// data that contains itself, where the engine (not fmt) walks it
		`{% filter default:slCyc %}{% endfilter %}`, `{% filter default:slCyc|length %}{% endfilter %}`, `{% for x in slCyc %}{% for y in x %}{{ y|length }}{% endfor %}{% endfor %}`, `{{ slCyc|length }}{{ slCyc.1.1.1.0 }}{{ mCyc.self.self.a }}`,
		`{% for k, v in mCyc sorted %}{{ k }}{% endfor %}{{ slCyc|first }}{{ slCyc|slice:"1:" |length }}{% if slCyc == slCyc %}e{% endif %}{% if mCyc %}t{% endif %}`, `{{ pCyc.Next.Next.Any.Name }}{{ pCyc.Next }}{% if pCyc == pCyc.Next %}same{% endif %}`, `{% macro m(a) %}{% with z=m(a) %}{{ z }}{% endwith %}{% endmacro %}{{ m(1) }}`} {
		r.DoIsolated(&Case{Src: eng.Q(s), Layer: "self-reference"}, 60*time.Second)
	}
	for _, lib := range []string{`{% macro m(a=m()) export %}x{% endmacro %}`, `{% macro m() export %}{{ m() }}{% endmacro %}`, `{% macro m(a=n()) export %}x{% endmacro %}{% macro n(a=m()) export %}y{% endmacro %}`} {
		r.DoIsolated(&Case{Files: map[string]string{"/main": `{% import "lib" m, m as n %}{{ m() }}`, "/lib": lib}, Layer: "self-reference"}, 60*time.Second)
	}
	// resource caps
	for _, s := range []string{"{% lorem 100000000 w %}", "{% lorem 99999999999999999999 p %}", `{{ "x"|center:99999999999 }}`, `{{ "x"|ljust:99999999999 }}`, `{{ "x"|rjust:99999999999 }}`, `{{ 1.5|floatformat:99999999999 }}`, `{{ "x"|rjust:iMin }}`, `{{ 1.5|floatformat:iNegHuge }}`, `{{ f15|floatformat:sNegHuge }}`, `{{ 1.5|floatformat:iMin }}`, `{{ "x"|center:iNegHuge }}`, `{{ sLong|truncatechars:iNegHuge }}`, `{{ "x"|ljust:iMax }}`, `{{ "x"|center:iMin }}`,
		`{{ sLong|wordwrap:iMax }}`, `{{ sLong|truncatechars:iMin }}`, `{{ slI|slice:"-99999999999999999999:99999999999999999999" }}`, `{{ 1|get_digit:iMax }}`, `{% widthratio iMax 1 iMax %}`, `{{ 10 ^ 10 ^ 10 }}`, `{{ iMin / iNeg }}`, `{{ iMin % iNeg }}`, `{{ "x"|stringformat:"%9999999d" }}`} {
		r.DoIsolated(&Case{Src: eng.Q(s), Layer: "resource-caps"}, 60*time.Second)
	}
}

// smallInts: -2..24 and a few larger widths (beyond the character count but below the byte count of the multi-byte texts)
var smallInts = func() []int {
	var l []int
	for n := -2; n <= 24; n++ {
		l = append(l, n)
	}
	return append(l, 40, 60, 64, 100, 130)
}()

func init() {
	eng.RegisterCase("c01.case", func() eng.Case { return &Case{} })
	eng.Register(&eng.Check{
		ID:    "C01",
		Title: "Totality: compiling and executing never panics, crashes or hangs",
		Rule:  "bounded-exhaustive in seven layers, every case compiled and (if it compiles) executed against one context holding the whole value universe, in isolated worker processes (a death or hang of a worker is attributed to the case it had announced): raw strings over the lexer alphabet; token sequences inside {{ }} and as arguments of every registered tag; every universe value x access paths; every registered filter x input x argument through three routes; filter 2-chains; tag/operator schemas with slots filled from the universe; include/extends/import/ssi cycles, deep nesting and resource caps in fresh sub-processes. Oracle: FromString returns exactly one of template/error, Execute returns, no recovered panic, the process survives, the watchdog stays silent. Non-trivial: the case compiles (its execution reaches the evaluator). Cases are distinct by construction.",
		Assumptions: []string{
			"context functions are total; a panic inside caller-supplied code is not the engine's",
			"hang detection: no progress of a worker for 45 s (cases take microseconds); isolated cases have 60-120 s",
		},
		Run: run,
	})
}
