package c01

import (
	"errors"
	"fmt"
	"math"
	"strings"
	"time"

	"github.com/flosch/pongo2/v6"
)

type inner struct {
	Name   string
	N      int
	secret string
	Tags   []string
}

func (i inner) Upper() string        { return "U" + i.Name }
func (i *inner) PtrMethod() string   { return "p" }
func (i inner) Add(a, b int) int     { return a + b }
func (i inner) Var(xs ...string) int { return len(xs) }

type embedded struct {
	*inner // nil embedded pointer
	X      int
	hidden map[string]int
}

type outer struct {
	In   inner
	P    *inner
	NilP *inner
	Any  any
	L    []inner
	M    map[string]inner
	F    func(int) int
	E    embedded
	T    time.Time
	priv int
}

type str struct{ s string }

func (s str) String() string { return s.s }

type pstr struct{ s string }

func (s *pstr) String() string {
	if s == nil {
		return "<nil pstr>"
	}
	return s.s
}

type namedVal struct {
	Name string
	V    any
}

// universe: every kind the property names, incl. extremes
func universe() []namedVal {
	in := &inner{Name: "n", N: 1, secret: "s", Tags: []string{"t"}}
	arr := [3]int{1, 2, 3}
	s := "ptr-to-string"
	var nilPstr *pstr
	var nilTime *time.Time
	tm := time.Date(2020, 2, 29, 13, 4, 5, 0, time.UTC)
	return []namedVal{
		{"nil", nil}, {"mainname", "main"}, {"bname", "b"},
		{"sEmpty", ""}, {"sAbc", "abc"}, {"sBadUtf8", "\xff\xfea\xc3"}, {"sMulti", "é€𝄞"}, {"sUrlMb", "www.é€" + strings.Repeat("𝄞", 30) + " x@y.de€𝄞 http://" + strings.Repeat("𝄞€", 20) + " a.de𝄞𝄞𝄞"}, {"sNum", "12"}, {"sFloat", "1.5"}, {"sCsv", "a,b"}, {"sColon", "1:2"}, {"sHtml", "<b>&</b>"}, {"sPct", "%d%s%!"}, {"sLt", "1<2"}, {"sLtEnd", "one two <"}, {"sLtOpen", "a <b"}, {"sAmp", "a &amp b &"}, {"sTagOpen", "<a href=\"x"}, {"sClose", "</"}, {"sCmt", "<!-- x"}, {"sGt", "a > b >"}, {"sNL", "l1\nl2\r\n\nl4"}, {"sLong", string(make([]byte, 300))},
		{"i0", 0}, {"i1", 1}, {"iNeg", -1}, {"iBig", 99999}, {"iMax", int64(math.MaxInt64)}, {"iMin", int64(math.MinInt64)}, {"iNegHuge", int64(-(1 << 62))}, {"sNegHuge", "-4611686018427387904"}, {"i8", int8(-128)}, {"u8", uint8(255)}, {"uMax", uint64(math.MaxUint64)}, {"u0", uint(0)}, {"i32", int32(7)},
		{"f0", 0.0}, {"f15", 1.5}, {"fHalf", 0.25}, {"fNegHalf", -0.5}, {"f32Half", float32(0.5)}, {"sFrac", "0.9"}, {"sNegFrac", "-0.4"}, {"fNeg0", math.Copysign(0, -1)}, {"fNaN", math.NaN()}, {"fInf", math.Inf(1)}, {"fNInf", math.Inf(-1)}, {"fMax", math.MaxFloat64}, {"f32", float32(1.5)}, {"fHuge", 1e300},
		{"bT", true}, {"bF", false},
		{"slE", []int{}}, {"slI", []int{1, 2, 3}}, {"slS", []string{"a", "b"}}, {"slA", []any{nil, 1, "x", []int{1}}}, {"slN", []int(nil)}, {"sl2", [][]int{{1}, {}}}, {"slB", []byte("bytes")},
		{"arr", arr}, {"parr", &arr}, {"arr0", [0]int{}}, {"arrS", [2]string{"x", "y"}},
		{"mE", map[string]int{}}, {"mS", map[string]any{"a": 1, "b": "x", "nil": nil}}, {"mI", map[int]string{1: "one"}}, {"mF", map[float64]int{1.5: 1}}, {"mArr", map[[2]int]string{{1, 2}: "k"}}, {"mAny", map[any]int{"a": 1, 2: 2}}, {"mN", map[string]int(nil)}, {"mB", map[bool]int{true: 1}},
		{"st", outer{In: *in, P: in, Any: *in, L: []inner{*in}, M: map[string]inner{"k": *in}, F: func(i int) int { return i }, T: tm}},
		{"pst", &outer{In: *in, P: in, Any: in, L: []inner{*in}, F: func(i int) int { return i }}},
		{"nilSt", (*outer)(nil)}, {"ppSt", &in}, {"in", *in}, {"pin", in}, {"emb", embedded{X: 1}}, {"pemb", &embedded{X: 1}},
		{"ps", &s}, {"nilPs", (*string)(nil)}, {"pi", new(int)},
		{"sg", str{"stringer"}}, {"psg", &pstr{"pstringer"}}, {"nilPsg", nilPstr}, {"sgHtml", str{"<i>"}},
		{"tm", tm}, {"tm0", time.Time{}}, {"ptm", &tm}, {"nilTm", nilTime}, {"dur", time.Duration(1500)},
		{"valS", pongo2.AsValue("v")}, {"valSafe", pongo2.AsSafeValue("<v>")}, {"valNil", pongo2.AsValue(nil)}, {"valL", pongo2.AsValue([]int{1})}, {"nilVal", (*pongo2.Value)(nil)},
		{"fn0", func() string { return "r" }}, {"fn1", func(i int) int { return i }}, {"fnVar", func(xs ...int) int { return len(xs) }}, {"fnErr", func(s string) (string, error) { return "", errors.New("e") }},
		{"fnVal", func(v *pongo2.Value) *pongo2.Value { return v }}, {"fnCtx", func(c *pongo2.ExecutionContext) string { return "c" }}, {"fnAny", func(a any) string { return fmt.Sprint(a) }},
		{"fnStr", func(s fmt.Stringer) string { return s.String() }}, {"fnNone", func() {}}, {"fn3", func() (int, int, int) { return 1, 2, 3 }}, {"fn2ne", func() (int, string) { return 1, "x" }},
		{"fnNil", (func() string)(nil)}, {"fnMap", func() map[string][]int { return map[string][]int{"k": {1}} }}, {"fnPtr", func() *inner { return nil }}, {"fnIface", func() any { return nil }},
		// callables that panic (string, error value, custom value) and one whose typed pointer parameter may get nil
		{"fnPanicS", func() string { panic("panic with a plain string") }}, {"fnPanicE", func() string { panic(errors.New("panic with an error value")) }},
		{"fnPanicC", func(i int) string { panic(struct{ Code int }{i}) }}, {"fnTakesPtr", func(p *inner) string { return fmt.Sprint(p == nil) }},
		// structs whose type is comparable but whose interface-typed field holds something that is not
		{"stUncmp", uncmp{X: []int{1}}}, {"stUncmp2", uncmp{X: []int{1}}}, {"slUncmp", []uncmp{{X: map[string]int{"a": 1}}, {X: 1}}}, {"ifUncmp", any(uncmp{X: []string{"a"}})},
		{"fnNilValue", func() *pongo2.Value { return nil }}, {"fnNilValueErr", func() (*pongo2.Value, error) { return nil, nil }},
		// values that contain themselves
		{"pCyc", pCyc},
		// Stringers whose String method is promoted through something that is nil
		{"embNilStringer", struct{ fmt.Stringer }{}}, {"embNilPtrStr", nilEmbStr{}}, {"pEmbNilPtrStr", &nilEmbStr{}},
		{"fnVarS", func(p string, xs ...string) string { return p }}, {"fnVarV", func(xs ...*pongo2.Value) int { return len(xs) }}, {"fnVarA", func(xs ...any) int { return len(xs) }},
	}
}

func universeCtx() pongo2.Context {
	c := pongo2.Context{}
	for _, nv := range universe() {
		c[nv.Name] = nv.V
	}
	// a slice and a map that contain themselves: not part of the enumerated universe (Go's own fmt does not survive
	// them), used by a few dedicated cases
	c["slCyc"], c["mCyc"] = slCyc, mCyc
	return c
}

type uncmp struct{ X any }

// nilEmbStr gets String() from an embedded pointer that is nil
type nilEmbStr struct{ *str }

type cycNode struct {
	Name string
	Next *cycNode
	Any  any
}

var (
	slCyc = func() []any { l := []any{1, nil}; l[1] = l; return l }()
	mCyc  = func() map[string]any { m := map[string]any{"a": 1}; m["self"] = m; return m }()
	pCyc  = func() *cycNode { n := &cycNode{Name: "n"}; n.Next = n; n.Any = n; return n }()
)
