package c01

import (
	"fmt"
	"net/http"
	"os"
	"path/filepath"
	"strings"
	"testing/fstest"

	"github.com/flosch/pongo2/v6"

	"verifmc/internal/eng"
	"verifmc/internal/px"
)

// LoaderCase: totality with pongo2's OWN template loaders behind the set (the other layers use the harness'
// in-memory loader): names that exist, that do not, that the loader cannot express, through every way a name reaches
// a loader.
type LoaderCase struct {
	Loader string `json:"loader"` // fs | http | http-base | local | local-base | sandboxed | fs+local (two loaders)
	Via    string `json:"via"`    // fromfile | fromcache | include | include-lazy | include-if-exists | extends | import | ssi | ssi-parsed | render-file
	Name   eng.Q  `json:"name"`
}

func (c *LoaderCase) ID() string {
	return fmt.Sprintf("loader=%s via=%s name=%q", c.Loader, c.Via, string(c.Name))
}

func loaderNames() []string {
	return []string{"t.tpl", "missing.tpl", "d/t.tpl", "d/missing.tpl", "../t.tpl", "../../../../etc/passwd", "", ".", "..", "/", "/t.tpl", "d", "d/", "./t.tpl", "t.tpl/", "a\x00b", "\xff\xfe", "t.tpl\n",
		strings.Repeat("x/", 300) + "t.tpl", strings.Repeat("n", 5000), "con:", "C:\\t.tpl", "d//t.tpl", "~/t.tpl", "%2e%2e/t.tpl", "t.tpl?x=1", "*", "[", "d/../t.tpl", "d/../../t.tpl"}
}

func (c *LoaderCase) Exec(t *eng.T) {
	t.Nontrivial()
	files := map[string]string{"t.tpl": "T{{ 1 }}{% include \"leaf.tpl\" if_exists %}", "leaf.tpl": "L", "d/t.tpl": "DT{% macro m() export %}M{% endmacro %}", "d/leaf.tpl": "DL", "main.tpl": "x"}
	mfs := fstest.MapFS{}
	for k, v := range files {
		mfs[k] = &fstest.MapFile{Data: []byte(v)}
	}
	var loaders []pongo2.TemplateLoader
	var dir string
	needDir := strings.Contains(c.Loader, "local") || c.Loader == "sandboxed"
	if needDir {
		d, err := os.MkdirTemp("", "verif-c01-")
		if err != nil {
			t.Skip()
			return
		}
		dir = d
		defer os.RemoveAll(dir)
		os.MkdirAll(filepath.Join(dir, "d"), 0o755)
		for k, v := range files {
			os.WriteFile(filepath.Join(dir, k), []byte(v), 0o644)
		}
	}
	var lerr error
	add := func(l pongo2.TemplateLoader, err error) {
		if err != nil {
			lerr = err
			return
		}
		loaders = append(loaders, l)
	}
	for _, kind := range strings.Split(c.Loader, "+") {
		switch kind {
		case "fs":
			add(pongo2.NewFSLoader(mfs), nil)
		case "http":
			l, err := pongo2.NewHttpFileSystemLoader(http.FS(mfs), "")
			add(l, err)
		case "http-base":
			l, err := pongo2.NewHttpFileSystemLoader(http.FS(mfs), "d")
			add(l, err)
		case "local":
			l, err := pongo2.NewLocalFileSystemLoader("")
			add(l, err)
		case "local-base":
			l, err := pongo2.NewLocalFileSystemLoader(dir)
			add(l, err)
		case "sandboxed":
			l, err := pongo2.NewSandboxedFilesystemLoader(dir)
			add(l, err)
		}
	}
	if lerr != nil || len(loaders) == 0 {
		t.Skip()
		return
	}
	name := string(c.Name)
	if c.Loader == "local" && name != "" && !filepath.IsAbs(name) {
		name = filepath.Join(dir, name) // the loader without a base directory works on paths of the process
	}
	set := pongo2.NewSet("c01-loaders", loaders...)
	q := strings.NewReplacer("\\", "\\\\", "\"", "\\\"").Replace(name)
	ctx := pongo2.Context{"n": name}
	var out px.Out
	site, msg, pan := eng.Protect(func() {
		switch c.Via {
		case "fromfile":
			tpl, o := px.CompileFile(set, name)
			out = o
			if tpl != nil {
				out = px.Exec(tpl, ctx)
			}
		case "fromcache":
			for i := 0; i < 2; i++ {
				tpl, err := set.FromCache(name)
				if err == nil && tpl != nil {
					out = px.Exec(tpl, ctx)
				}
			}
			set.CleanCache(name)
		case "render-file":
			s, err := set.RenderTemplateFile(name, ctx)
			out = px.Out{S: s}
			if err != nil {
				out.Err = err.Error()
			}
		default:
			src := map[string]string{
				"include": `{% include "` + q + `" %}`, "include-lazy": `{% include n %}`, "include-if-exists": `{% include "` + q + `" if_exists %}{% include n if_exists %}`,
				"extends": `{% extends "` + q + `" %}{% block a %}{% endblock %}`, "import": `{% import "` + q + `" m %}{{ m() }}`, "ssi": `{% ssi "` + q + `" %}`, "ssi-parsed": `{% ssi "` + q + `" parsed %}`,
			}[c.Via]
			out = px.RenderIn(set, src, ctx)
		}
	})
	t.Outcome(out.Kind())
	if pan {
		t.Fail("panic:loader:"+site, "%s panics: %s (at %s)", c.ID(), msg, site)
		return
	}
	if out.Panic != "" {
		t.Fail("panic:loader:"+out.Panic, "%s panics: %s", c.ID(), out.PanicMsg)
	}
}

func runLoaders(r *eng.Runner) {
	kinds := []string{"fs", "http", "http-base", "local", "local-base", "sandboxed", "fs+local-base", "http+fs"}
	vias := []string{"fromfile", "fromcache", "render-file", "include", "include-lazy", "include-if-exists", "extends", "import", "ssi", "ssi-parsed"}
	r.Group("own-loaders", "c01.loader", fmt.Sprintf("pongo2's own loaders (%d configurations: FSLoader, HttpFilesystemLoader with/without base directory, LocalFilesystemLoader with/without base directory, SandboxedFilesystemLoader, two mixed pairs) x %d ways a name reaches them x %d names (existing, missing, directories, empty, traversal, NUL and invalid UTF-8, 5000 characters, 300 path elements)", len(kinds), len(vias), len(loaderNames())))
	for _, k := range kinds {
		for _, v := range vias {
			for _, n := range loaderNames() {
				r.Do(&LoaderCase{Loader: k, Via: v, Name: eng.Q(n)})
			}
		}
	}
}

func init() {
	eng.RegisterCase("c01.loader", func() eng.Case { return &LoaderCase{} })
}
