package eng

import (
	"bytes"
	"context"
	"encoding/json"
	"fmt"
	"io"
	"os"
	"os/exec"
	"strings"
	"sync/atomic"
	"time"
)

// Heartbeat tells the parent that a long-running case is still making progress.
func (r *Runner) Heartbeat() {
	if r.hb != nil {
		atomic.AddUint64(r.hb, 1)
	}
}

func (r *Runner) SetHeartbeat(p *uint64) { r.hb = p }

// isoCase wraps a case so that Exec happens in a fresh sub-process; process
// death or a hang of that sub-process becomes a failure of the case.
type isoCase struct {
	inner Case
	typ   string
	exe   string
	limit time.Duration
	group string
}

func (c *isoCase) ID() string { return c.inner.ID() }
func (c *isoCase) MarshalJSON() ([]byte, error) {
	return json.Marshal(c.inner)
}

type isoReply struct {
	Failures    []Failure        `json:"failures"`
	Nontrivial  bool             `json:"nontrivial"`
	Skipped     bool             `json:"skipped"`
	Outcome     string           `json:"outcome"`
	HasOutcome  bool             `json:"has_outcome"`
	States      int64            `json:"states"`
	Transitions int64            `json:"transitions"`
	Extra       map[string]int64 `json:"extra"`
}

func (c *isoCase) Exec(t *T) {
	data, _ := json.Marshal(c.inner)
	req, _ := json.Marshal(map[string]any{"type": c.typ, "data": json.RawMessage(data)})
	ctx, cancel := context.WithTimeout(context.Background(), c.limit)
	defer cancel()
	cmd := exec.CommandContext(ctx, c.exe, "isolated")
	cmd.Stdin = bytes.NewReader(req)
	var out, errb bytes.Buffer
	cmd.Stdout = &out
	cmd.Stderr = &errb
	cmd.Env = append(os.Environ(), "GOMAXPROCS=2")
	err := cmd.Run()
	if ctx.Err() == context.DeadlineExceeded {
		t.Fail("fatal:"+c.group+":hang", "isolated execution did not finish within %v", c.limit)
		return
	}
	var rep isoReply
	got := false
	for _, line := range strings.Split(out.String(), "\n") {
		if strings.HasPrefix(line, "ISO-RESULT ") {
			if json.Unmarshal([]byte(strings.TrimPrefix(line, "ISO-RESULT ")), &rep) == nil {
				got = true
			}
		}
	}
	if err != nil || !got {
		t.Fail("fatal:"+c.group+":"+fatalClass(errb.String()), "isolated sub-process died: %v; stderr head: %s", err, head(errb.String(), 200))
		return
	}
	for _, f := range rep.Failures {
		t.failures = append(t.failures, Failure{Key: f.Key, Desc: f.Desc})
	}
	t.nontrivial = rep.Nontrivial
	t.skipped = rep.Skipped
	t.outcome, t.hasOutcome = rep.Outcome, rep.HasOutcome
	t.r.AddStates(rep.States)
	t.r.AddTransitions(rep.Transitions)
	for k, v := range rep.Extra {
		t.r.AddExtra(k, v)
	}
}

func head(s string, n int) string {
	if len(s) > n {
		return s[:n]
	}
	return s
}

// DoIsolated executes the case in a fresh sub-process (for cases that may kill
// or hang the process: unbounded recursion, resource caps).
func (r *Runner) DoIsolated(c Case, limit time.Duration) {
	r.Do(&isoCase{inner: c, typ: r.typ, exe: r.Exe, limit: limit, group: r.group})
}

// RunIsolated is the body of `mc isolated`: read a case from stdin, execute, print the reply.
func RunIsolated() int {
	exitWhenOrphaned()
	b, _ := io.ReadAll(os.Stdin)
	var req struct {
		Type string          `json:"type"`
		Data json.RawMessage `json:"data"`
	}
	if err := json.Unmarshal(b, &req); err != nil {
		fmt.Fprintln(os.Stderr, "bad request:", err)
		return 3
	}
	c, err := DecodeCase(req.Type, req.Data)
	if err != nil {
		fmt.Fprintln(os.Stderr, err)
		return 3
	}
	r := NewRunner("quick", 0, 0, 1)
	r.Group("isolated", req.Type, "")
	t := &T{r: r, typ: req.Type, c: c}
	r.exec(c, t)
	rep := isoReply{Failures: t.failures, Nontrivial: t.nontrivial, Skipped: t.skipped, Outcome: t.outcome, HasOutcome: t.hasOutcome, States: r.res.States, Transitions: r.res.Transitions, Extra: r.res.Extra}
	out, _ := json.Marshal(rep)
	fmt.Printf("ISO-RESULT %s\n", out)
	return 0
}

// exitWhenOrphaned ends a worker (or isolated case) process whose parent has gone away - e.g. because the run was
// interrupted from outside while this process was stuck in a case that never returns: nobody is left to stop it.
func exitWhenOrphaned() {
	parent := os.Getppid()
	go func() {
		for {
			time.Sleep(2 * time.Second)
			if os.Getppid() != parent {
				os.Exit(3)
			}
		}
	}()
}

// RunWorker is the body of `mc worker`.
func RunWorker(chk *Check, r *Runner, statusPath string) int {
	exitWhenOrphaned()
	if statusPath != "" {
		st, err := OpenStatus(statusPath, false)
		if err == nil {
			r.SetStatus(st.Word(0))
			r.SetHeartbeat(st.Word(1))
		}
	}
	chk.Run(r)
	res := r.Finish()
	b, _ := json.Marshal(res)
	fmt.Printf("RESULT %s\n", b)
	return 0
}

// RunReplayCmd is the body of `mc replay <file>`.
func RunReplayCmd(path string) int {
	b, err := os.ReadFile(path)
	if err != nil {
		fmt.Fprintln(os.Stderr, err)
		return 2
	}
	var rf ReplayFile
	if err := json.Unmarshal(b, &rf); err != nil {
		fmt.Fprintln(os.Stderr, err)
		return 2
	}
	fmt.Printf("replaying property=%s group=%s case=%s\n", rf.Property, rf.Group, head(rf.CaseID, 400))
	fails, err := RunReplay(&rf)
	if err != nil {
		fmt.Fprintln(os.Stderr, err)
		return 2
	}
	var keys []string
	for _, f := range fails {
		keys = append(keys, f.Key)
		fmt.Printf("  failure key=%s :: %s\n", f.Key, f.Desc)
	}
	fmt.Printf("REPLAY-RESULT %s\n", strings.Join(keys, " "))
	if len(fails) > 0 {
		return 1
	}
	return 0
}
