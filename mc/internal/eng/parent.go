package eng

import (
	"bufio"
	"bytes"
	"context"
	"crypto/sha1"
	"encoding/hex"
	"encoding/json"
	"fmt"
	"os"
	"os/exec"
	"path/filepath"
	"runtime"
	"sort"
	"strconv"
	"strings"
	"sync"
	"sync/atomic"
	"syscall"
	"time"
	"unsafe"
)

// Root of the verification tree (where evidence/, replays/, KNOWN_FINDINGS.txt live).
func VerifRoot() string {
	if v := os.Getenv("VERIF_ROOT"); v != "" {
		return v
	}
	return "/verif"
}

// ---------- status file (shared progress words) ----------

type Status struct {
	f    *os.File
	mem  []byte
	Path string
}

func OpenStatus(path string, create bool) (*Status, error) {
	flags := os.O_RDWR
	if create {
		flags |= os.O_CREATE | os.O_TRUNC
	}
	f, err := os.OpenFile(path, flags, 0o644)
	if err != nil {
		return nil, err
	}
	if create {
		if err := f.Truncate(64); err != nil {
			return nil, err
		}
	}
	mem, err := syscall.Mmap(int(f.Fd()), 0, 64, syscall.PROT_READ|syscall.PROT_WRITE, syscall.MAP_SHARED)
	if err != nil {
		return nil, err
	}
	return &Status{f: f, mem: mem, Path: path}, nil
}

func (s *Status) Word(i int) *uint64 { return (*uint64)(unsafe.Pointer(&s.mem[i*8])) }
func (s *Status) Close() {
	syscall.Munmap(s.mem)
	s.f.Close()
}

// ---------- known findings ----------

type Known struct {
	Property string
	Key      string
	Text     string
}

func LoadKnown() []Known {
	var out []Known
	b, err := os.ReadFile(filepath.Join(VerifRoot(), "KNOWN_FINDINGS.txt"))
	if err != nil {
		return nil
	}
	for _, line := range strings.Split(string(b), "\n") {
		line = strings.TrimSpace(line)
		if !strings.HasPrefix(line, "known:") {
			continue
		}
		rest := strings.TrimSpace(strings.TrimPrefix(line, "known:"))
		text := ""
		if i := strings.Index(rest, " :: "); i >= 0 {
			text = rest[i+4:]
			rest = rest[:i]
		}
		k := Known{Text: text}
		for _, f := range strings.Fields(rest) {
			if strings.HasPrefix(f, "property=") {
				k.Property = strings.TrimPrefix(f, "property=")
			}
			if strings.HasPrefix(f, "key=") {
				k.Key = strings.TrimPrefix(f, "key=")
			}
		}
		if k.Property != "" && k.Key != "" {
			out = append(out, k)
		}
	}
	return out
}

// ---------- parent ----------

type shardState struct {
	idx      int
	cmd      *exec.Cmd
	outPath  string
	status   *Status
	lastC    uint64
	lastH    uint64
	lastMove time.Time
	skip     []uint64
	restarts int
	done     bool
	busy     atomic.Bool
	res      *Result
	exited   chan error
}

type ParentOpts struct {
	CheckID string
	Tier    string
	Seed    int64
	Workers int
	Exe     string
}

func tierDeadline(tier string) time.Duration {
	if v := os.Getenv("VERIF_DEADLINE_S"); v != "" {
		if n, err := strconv.Atoi(v); err == nil {
			return time.Duration(n) * time.Second
		}
	}
	if tier == "thorough" {
		return 60 * time.Minute
	}
	return 150 * time.Second
}

func hangLimit() time.Duration {
	if v := os.Getenv("VERIF_HANG_S"); v != "" {
		if n, err := strconv.Atoi(v); err == nil {
			return time.Duration(n) * time.Second
		}
	}
	return 30 * time.Second
}

// RunParent runs a whole check and returns the process exit code.
func RunParent(o ParentOpts) int {
	start := time.Now()
	chk := Lookup(o.CheckID)
	if chk == nil {
		fmt.Fprintf(os.Stderr, "unknown check %s\n", o.CheckID)
		return 2
	}
	if o.Workers <= 0 {
		o.Workers = runtime.NumCPU()
		if o.Workers > 16 {
			o.Workers = 16
		}
	}
	root := VerifRoot()
	buildDir := filepath.Join(root, ".build")
	statusDir := filepath.Join(buildDir, "status")
	os.MkdirAll(statusDir, 0o755)
	os.MkdirAll(filepath.Join(root, "evidence"), 0o755)
	repDir := filepath.Join(root, "replays", o.CheckID)
	os.RemoveAll(repDir)
	os.MkdirAll(repDir, 0o755)

	deadline := start.Add(tierDeadline(o.Tier))
	var extraFailures []Failure
	var notes []string
	deaths := 0

	shards := make([]*shardState, o.Workers)
	launch := func(s *shardState) error {
		if s.status != nil {
			s.status.Close()
		}
		st, err := OpenStatus(filepath.Join(statusDir, fmt.Sprintf("%s.%d", o.CheckID, s.idx)), true)
		if err != nil {
			return err
		}
		s.status = st
		s.outPath = filepath.Join(statusDir, fmt.Sprintf("%s.%d.out", o.CheckID, s.idx))
		out, err := os.Create(s.outPath)
		if err != nil {
			return err
		}
		args := []string{"worker", o.CheckID, "--tier", o.Tier, "--seed", strconv.FormatInt(o.Seed, 10),
			"--shard", strconv.Itoa(s.idx), "--of", strconv.Itoa(o.Workers), "--status", st.Path,
			"--deadline", strconv.FormatInt(deadline.Unix(), 10)}
		if len(s.skip) > 0 {
			var ss []string
			for _, c := range s.skip {
				ss = append(ss, strconv.FormatUint(c, 10))
			}
			args = append(args, "--skip", strings.Join(ss, ","))
		}
		cmd := exec.Command(o.Exe, args...)
		cmd.Stdout = out
		cmd.Stderr = &prefixWriter{prefix: fmt.Sprintf("[w%d] ", s.idx), limit: 200}
		cmd.Env = append(os.Environ(), "GOMAXPROCS=2", "GOGC=200")
		if err := cmd.Start(); err != nil {
			return err
		}
		out.Close()
		s.cmd = cmd
		s.lastMove = time.Now()
		s.lastC, s.lastH = 0, 0
		s.exited = make(chan error, 1)
		go func(c *exec.Cmd, ch chan error) { ch <- c.Wait() }(cmd, s.exited)
		return nil
	}
	for i := range shards {
		shards[i] = &shardState{idx: i}
		if err := launch(shards[i]); err != nil {
			fmt.Fprintf(os.Stderr, "cannot start worker: %v\n", err)
			return 2
		}
	}

	var mu sync.Mutex
	confirmedDeaths := 0
	confirmSlots := make(chan struct{}, 2)
	handleDeath := func(s *shardState, why string) {
		s.busy.Store(true)
		go func() {
			defer s.busy.Store(false)
			c := *s.status.Word(0)
			// at most two confirmations in flight: the others wait and are abandoned once two are confirmed
			confirmSlots <- struct{}{}
			defer func() { <-confirmSlots }()
			mu.Lock()
			already := confirmedDeaths
			mu.Unlock()
			if already >= 2 {
				// two deaths are already confirmed as violations: do not spend more time, give this shard up
				mu.Lock()
				defer mu.Unlock()
				deaths++
				notes = append(notes, fmt.Sprintf("shard %d %s at case #%d; not examined further because two process deaths/hangs were already confirmed in this run (shard abandoned)", s.idx, why, c))
				s.res = &Result{Shard: s.idx, Groups: map[string]*GroupStat{}, Deadline: true}
				s.done = true
				return
			}
			f, confirmed, reason := confirmDeath(o, c, why == "hung")
			mu.Lock()
			defer mu.Unlock()
			deaths++
			if confirmed {
				confirmedDeaths++
			}
			if confirmed {
				f.Key = "fatal:" + f.Group + ":" + reason
				f.Desc = fmt.Sprintf("worker process %s while executing this case (%s); reproduced 3/3 in isolation", why, reason)
				extraFailures = append(extraFailures, f)
			} else {
				notes = append(notes, fmt.Sprintf("shard %d %s at case #%d but the case did not reproduce the death in isolation (%s); treated as a harness fault, not a violation", s.idx, why, c, reason))
			}
			s.skip = append(s.skip, c)
			s.restarts++
			abandon := func(msg string) {
				notes = append(notes, msg)
				s.res = &Result{Shard: s.idx, Groups: map[string]*GroupStat{}, Deadline: true}
				s.done = true
			}
			if s.restarts > 2 {
				abandon(fmt.Sprintf("shard %d abandoned after %d deaths (its remaining cases were not explored)", s.idx, s.restarts))
				return
			}
			if err := launch(s); err != nil {
				abandon("relaunch failed: " + err.Error())
			}
		}()
	}

	for {
		alldone := true
		for _, s := range shards {
			if s.busy.Load() {
				alldone = false
				continue
			}
			mu.Lock()
			done := s.done
			mu.Unlock()
			if done {
				continue
			}
			alldone = false
			select {
			case err := <-s.exited:
				res := readResult(s.outPath)
				if err == nil && res != nil && res.Done {
					s.res = res
					s.done = true
				} else {
					handleDeath(s, "died")
				}
			default:
				c, h := *s.status.Word(0), *s.status.Word(1)
				if c != s.lastC || h != s.lastH {
					s.lastC, s.lastH = c, h
					s.lastMove = time.Now()
				} else if time.Since(s.lastMove) > hangLimit() {
					s.cmd.Process.Kill()
					<-s.exited
					handleDeath(s, "hung")
				}
			}
		}
		if alldone {
			break
		}
		time.Sleep(50 * time.Millisecond)
	}
	for _, s := range shards {
		if s.status != nil {
			s.status.Close()
		}
	}

	// ---- merge ----
	merged := &Result{Groups: map[string]*GroupStat{}, FailCount: map[string]int64{}, Extra: map[string]int64{}}
	outcomes := map[uint64]struct{}{}
	exhaustive := true
	for _, s := range shards {
		r := s.res
		if r.Deadline {
			exhaustive = false
		}
		for _, g := range r.GroupOrder {
			gs := r.Groups[g]
			m := merged.Groups[g]
			if m == nil {
				m = &GroupStat{Bound: gs.Bound, Complete: true}
				merged.Groups[g] = m
				merged.GroupOrder = append(merged.GroupOrder, g)
			}
			m.Evaluations += gs.Evaluations
			m.Nontrivial += gs.Nontrivial
			m.Skipped += gs.Skipped
			m.Duplicates += gs.Duplicates
			if !gs.Complete {
				m.Complete = false
			}
			if len(m.Samples) < 4 {
				for _, sm := range gs.Samples {
					if len(m.Samples) < 4 {
						m.Samples = append(m.Samples, sm)
					}
				}
			}
		}
		merged.Failures = append(merged.Failures, r.Failures...)
		for k, v := range r.FailCount {
			merged.FailCount[k] += v
		}
		for k, v := range r.Extra {
			merged.Extra[k] += v
		}
		for _, h := range r.Outcomes {
			outcomes[h] = struct{}{}
		}
		merged.States += r.States
		merged.Transitions += r.Transitions
		merged.Notes = append(merged.Notes, r.Notes...)
	}
	for _, f := range extraFailures {
		merged.Failures = append(merged.Failures, f)
		merged.FailCount[f.Key]++
	}
	for _, g := range merged.GroupOrder {
		if !merged.Groups[g].Complete {
			exhaustive = false
		}
	}

	// ---- confirm, classify, report ----
	known := LoadKnown()
	byKey := map[string]Failure{}
	// further cases that failed with the same key: tried when the first one does not reproduce on its own (a failure
	// may depend on what earlier cases of the same worker process left behind; a longer case carries its own history)
	others := map[string][]Failure{}
	var keys []string
	for _, f := range merged.Failures {
		if _, ok := byKey[f.Key]; !ok {
			byKey[f.Key] = f
			keys = append(keys, f.Key)
		} else if f.CaseID != byKey[f.Key].CaseID {
			others[f.Key] = append(others[f.Key], f)
		}
	}
	for k := range others {
		o := others[k]
		sort.SliceStable(o, func(i, j int) bool { return len(o[i].CaseID) > len(o[j].CaseID) })
		if len(o) > 4 {
			others[k] = o[:4]
		}
	}
	sort.Strings(keys)
	var byKeyMu sync.Mutex
	type verdict struct {
		key        string
		path       string
		reproduced bool
		known      *Known
	}
	verdicts := make([]verdict, len(keys))
	var wg sync.WaitGroup
	sem := make(chan struct{}, 3)
	for i, k := range keys {
		f := byKey[k]
		rf := ReplayFile{Property: o.CheckID, Key: f.Key, Desc: f.Desc, Group: f.Group, CaseID: f.CaseID, Type: f.Type, Data: f.Data}
		b, _ := json.MarshalIndent(rf, "", " ")
		sum := sha1.Sum([]byte(f.Key + "\x00" + f.CaseID))
		path := filepath.Join(repDir, hex.EncodeToString(sum[:6])+".json")
		os.WriteFile(path, b, 0o644)
		verdicts[i] = verdict{key: k, path: path}
		for j := range known {
			if known[j].Property == o.CheckID && known[j].Key == k {
				verdicts[i].known = &known[j]
			}
		}
		if verdicts[i].known != nil {
			// a listed finding never changes the exit code: no confirmation runs needed
			verdicts[i].reproduced = true
			continue
		}
		if i >= 30 {
			// beyond 30 distinct keys: keep the replay file, skip the confirmation runs
			verdicts[i].reproduced = true
			continue
		}
		wg.Add(1)
		go func(i int, f Failure, path string) {
			defer wg.Done()
			sem <- struct{}{}
			defer func() { <-sem }()
			if strings.HasPrefix(f.Key, "norepro:") {
				verdicts[i].reproduced = true
				return
			}
			// five replays in fresh processes, side by side
			var ok atomic.Bool
			ok.Store(true)
			var rw sync.WaitGroup
			for n := 0; n < 5; n++ {
				rw.Add(1)
				go func() {
					defer rw.Done()
					if !replayReproduces(o.Exe, path, f.Key) {
						ok.Store(false)
					}
				}()
			}
			rw.Wait()
			verdicts[i].reproduced = ok.Load()
			if !verdicts[i].reproduced {
				for _, alt := range others[f.Key] {
					rf := ReplayFile{Property: o.CheckID, Key: alt.Key, Desc: alt.Desc, Group: alt.Group, CaseID: alt.CaseID, Type: alt.Type, Data: alt.Data}
					b, _ := json.MarshalIndent(rf, "", " ")
					sum := sha1.Sum([]byte(alt.Key + "\x00" + alt.CaseID))
					apath := filepath.Join(repDir, hex.EncodeToString(sum[:6])+".json")
					os.WriteFile(apath, b, 0o644)
					all := true
					for n := 0; n < 5 && all; n++ {
						all = replayReproduces(o.Exe, apath, alt.Key)
					}
					if all {
						byKeyMu.Lock()
						byKey[f.Key] = alt
						byKeyMu.Unlock()
						verdicts[i].path = apath
						verdicts[i].reproduced = true
						break
					}
				}
			}
		}(i, f, path)
	}
	wg.Wait()

	violations := 0
	knownHits := 0
	var unrepro []string
	var knownLines, violLines []string
	for _, v := range verdicts {
		f := byKey[v.key]
		if !v.reproduced {
			unrepro = append(unrepro, v.key)
			fmt.Fprintf(os.Stderr, "UNREPRODUCED (harness fault, not reported): property=%s key=%s replay=%s\n", o.CheckID, v.key, v.path)
			continue
		}
		if v.known != nil {
			knownHits++
			knownLines = append(knownLines, fmt.Sprintf("KNOWN-FINDING: property=%s %s [key=%s cases=%d]", o.CheckID, v.known.Text, v.key, merged.FailCount[v.key]))
			continue
		}
		violations++
		violLines = append(violLines, fmt.Sprintf("VIOLATION property=%s replay=%s key=%s cases=%d :: %s", o.CheckID, v.path, v.key, merged.FailCount[v.key], oneLine(f.Desc)))
	}
	for _, l := range knownLines {
		fmt.Println(l)
	}
	for i, l := range violLines {
		if i == 20 {
			fmt.Printf("(%d more distinct violation keys not printed; replay files are in %s)\n", len(violLines)-20, repDir)
			break
		}
		fmt.Println(l)
	}

	// ---- evidence ----
	var evals, nontriv, skipped int64
	samples := []any{}
	groups := map[string]any{}
	for _, g := range merged.GroupOrder {
		gs := merged.Groups[g]
		evals += gs.Evaluations
		nontriv += gs.Nontrivial
		skipped += gs.Skipped
		groups[g] = map[string]any{"evaluations": gs.Evaluations, "distinct_nontrivial": gs.Nontrivial,
			"skipped_outside_fragment": gs.Skipped, "duplicates_dropped": gs.Duplicates, "complete": gs.Complete, "bound": gs.Bound}
		for i, s := range gs.Samples {
			if i < 2 {
				samples = append(samples, map[string]string{"group": g, "case": s})
			}
		}
	}
	if len(samples) > 40 {
		samples = samples[:40]
	}
	level := chk.Level
	if level == "" {
		level = "model_checking"
	}
	cov := map[string]any{
		"evaluations":                   evals,
		"distinct_nontrivial":           nontriv,
		"rule":                          chk.Rule,
		"samples":                       samples,
		"exhaustive":                    exhaustive,
		"traces_validated_against_impl": evals,
		"distinct_outcomes_observed":    len(outcomes),
		"skipped_outside_fragment":      skipped,
		"groups":                        groups,
		"workers":                       o.Workers,
		"worker_deaths":                 deaths,
		"explanation":                   "every enumerated case is executed on the real pongo2 code built from /repo's working tree (no separate model trace to validate: traces_validated_against_impl = executions)",
	}
	if merged.States > 0 {
		cov["states"] = merged.States
		cov["transitions"] = merged.Transitions
	}
	for k, v := range merged.Extra {
		cov[k] = v
	}
	if len(notes)+len(merged.Notes) > 0 {
		cov["notes"] = append(notes, merged.Notes...)
	}
	if len(unrepro) > 0 {
		cov["unreproduced"] = unrepro
	}
	if !exhaustive {
		cov["cap_hit"] = "internal deadline or abandoned shard: groups with complete=false were not finished"
	}
	ev := map[string]any{
		"property_id":    o.CheckID,
		"tier":           o.Tier,
		"seed":           o.Seed,
		"level":          level,
		"coverage":       cov,
		"assumptions":    chk.Assumptions,
		"wall_s":         time.Since(start).Seconds(),
		"violations":     violations,
		"known_findings": knownHits,
	}
	b, _ := json.MarshalIndent(ev, "", " ")
	evName := o.CheckID
	if sfx := os.Getenv("VERIF_EVIDENCE_SUFFIX"); sfx != "" {
		// a supplementary pass keeps its own report (merged into the check's evidence by run.sh)
		os.WriteFile(filepath.Join(root, ".build", evName+sfx+".json"), append(b, '\n'), 0o644)
	} else {
		os.WriteFile(filepath.Join(root, "evidence", evName+".json"), append(b, '\n'), 0o644)
	}

	fmt.Printf("SUMMARY property=%s tier=%s evaluations=%d nontrivial=%d skipped=%d outcomes=%d states=%d transitions=%d exhaustive=%v violations=%d known=%d unreproduced=%d wall=%.1fs\n",
		o.CheckID, o.Tier, evals, nontriv, skipped, len(outcomes), merged.States, merged.Transitions, exhaustive, violations, knownHits, len(unrepro), time.Since(start).Seconds())
	if violations > 0 {
		return 1
	}
	return 0
}

func oneLine(s string) string {
	s = strings.ReplaceAll(s, "\n", "\\n")
	if len(s) > 300 {
		s = s[:300] + "..."
	}
	return s
}

func readResult(path string) *Result {
	f, err := os.Open(path)
	if err != nil {
		return nil
	}
	defer f.Close()
	sc := bufio.NewScanner(f)
	sc.Buffer(make([]byte, 1<<20), 1<<30)
	for sc.Scan() {
		line := sc.Bytes()
		if bytes.HasPrefix(line, []byte("RESULT ")) {
			var r Result
			if json.Unmarshal(line[7:], &r) == nil {
				return &r
			}
		}
	}
	return nil
}

// confirmDeath re-runs exactly one case (by enumeration counter) in isolation, three times.
func confirmDeath(o ParentOpts, counter uint64, hung bool) (Failure, bool, string) {
	var f Failure
	reason := ""
	limit := confirmLimit()
	if hung && limit > 2*hangLimit() {
		// the case made no progress for hangLimit in the worker: twice that is enough to see it again
		limit = 2 * hangLimit()
	}
	for n := 0; n < 3; n++ {
		ctx, cancel := context.WithTimeout(context.Background(), limit)
		cmd := exec.CommandContext(ctx, o.Exe, "worker", o.CheckID, "--tier", o.Tier, "--seed", strconv.FormatInt(o.Seed, 10),
			"--shard", "0", "--of", "1", "--only", strconv.FormatUint(counter, 10))
		var out, errb bytes.Buffer
		cmd.Stdout = &out
		cmd.Stderr = &errb
		err := cmd.Run()
		timedOut := ctx.Err() == context.DeadlineExceeded
		cancel()
		for _, line := range strings.Split(out.String(), "\n") {
			if strings.HasPrefix(line, "ONLY-CASE ") {
				json.Unmarshal([]byte(strings.TrimPrefix(line, "ONLY-CASE ")), &f)
			}
		}
		if err == nil && !timedOut {
			return f, false, "exit 0 in isolation"
		}
		if timedOut {
			reason = "hang"
		} else {
			reason = fatalClass(errb.String())
		}
	}
	return f, true, reason
}

func confirmLimit() time.Duration {
	if v := os.Getenv("VERIF_CONFIRM_S"); v != "" {
		if n, err := strconv.Atoi(v); err == nil {
			return time.Duration(n) * time.Second
		}
	}
	return 120 * time.Second
}

func fatalClass(stderr string) string {
	for _, line := range strings.Split(stderr, "\n") {
		if strings.HasPrefix(line, "fatal error: ") {
			return MsgClass(strings.TrimPrefix(line, "fatal error: "))
		}
		if strings.HasPrefix(line, "WARNING: DATA RACE") {
			return "data_race_reported_by_the_go_race_detector"
		}
		if strings.Contains(line, "goroutine stack exceeds") {
			return "stack_overflow"
		}
	}
	return "abnormal_exit"
}

// replayReproduces runs `exe replay path` in a fresh process.
func replayReproduces(exe, path, key string) bool {
	ctx, cancel := context.WithTimeout(context.Background(), 120*time.Second)
	defer cancel()
	cmd := exec.CommandContext(ctx, exe, "replay", path)
	var out bytes.Buffer
	cmd.Stdout = &out
	cmd.Stderr = nil
	err := cmd.Run()
	if strings.HasPrefix(key, "fatal:") {
		// reproduced iff the process died or hung
		if err == nil {
			return false
		}
		if ee, ok := err.(*exec.ExitError); ok && ee.ExitCode() == 1 && strings.Contains(out.String(), "REPLAY-RESULT") {
			return false
		}
		return true
	}
	for _, line := range strings.Split(out.String(), "\n") {
		if strings.HasPrefix(line, "REPLAY-RESULT") {
			for _, k := range strings.Fields(line)[1:] {
				if k == key {
					return true
				}
			}
		}
	}
	return false
}

type prefixWriter struct {
	prefix string
	limit  int
	n      int
	mu     sync.Mutex
}

func (w *prefixWriter) Write(p []byte) (int, error) {
	w.mu.Lock()
	defer w.mu.Unlock()
	for _, line := range strings.Split(strings.TrimRight(string(p), "\n"), "\n") {
		if w.n < w.limit {
			fmt.Fprintf(os.Stderr, "%s%s\n", w.prefix, line)
		}
		w.n++
	}
	return len(p), nil
}
