// Package eng is the exploration engine shared by all checks: deterministic
// bounded-exhaustive enumeration, sharding over worker processes, crash and
// hang attribution, replay files, known-findings matching and evidence.
package eng

import (
	"encoding/json"
	"fmt"
	"hash/fnv"
	"os"
	"runtime"
	"runtime/debug"
	"sort"
	"strconv"
	"strings"
	"sync/atomic"
	"time"
)

// Case is one explored behaviour: a self-contained, JSON-serialisable
// description that can be executed against the real code.
type Case interface {
	// ID is a canonical string; two cases with the same ID are the same case.
	ID() string
	// Exec runs the case on the implementation and reports through t.
	Exec(t *T)
}

// Check is one property's checker.
type Check struct {
	ID    string
	Title string
	// Rule describes how cases are enumerated and what makes one non-trivial.
	Rule string
	// Assumptions listed in the evidence.
	Assumptions []string
	// Run enumerates all cases of the tier and hands them to r.Do.
	Run func(r *Runner)
	// Level for the evidence file (model_checking unless overridden).
	Level string
}

var (
	checks    = map[string]*Check{}
	caseTypes = map[string]func() Case{}
)

func Register(c *Check) { checks[c.ID] = c }

// RegisterCase registers a case type under a name for replay decoding.
func RegisterCase(name string, mk func() Case) { caseTypes[name] = mk }

func Lookup(id string) *Check { return checks[id] }

func CheckIDs() []string {
	ids := make([]string, 0, len(checks))
	for id := range checks {
		ids = append(ids, id)
	}
	sort.Strings(ids)
	return ids
}

// Q is a byte string that survives JSON (Go-quoted form).
type Q string

func (q Q) MarshalJSON() ([]byte, error) {
	return json.Marshal(strconv.QuoteToASCII(string(q)))
}

func (q *Q) UnmarshalJSON(b []byte) error {
	var s string
	if err := json.Unmarshal(b, &s); err != nil {
		return err
	}
	u, err := strconv.Unquote(s)
	if err != nil {
		return err
	}
	*q = Q(u)
	return nil
}

// Failure is one violation found by a case.
type Failure struct {
	Key    string          `json:"key"`
	Desc   string          `json:"desc"`
	CaseID string          `json:"case_id"`
	Type   string          `json:"type"`
	Data   json.RawMessage `json:"data"`
	Group  string          `json:"group"`
}

// T is handed to Case.Exec.
type T struct {
	r          *Runner
	failures   []Failure
	nontrivial bool
	skipped    bool
	outcome    string
	hasOutcome bool
	typ        string
	c          Case
}

func (t *T) Fail(key, format string, args ...any) {
	// keys are single tokens (known-findings file, replay protocol)
	key = strings.Join(strings.Fields(key), "_")
	desc := fmt.Sprintf(format, args...)
	if len(desc) > 600 {
		desc = desc[:600] + "..."
	}
	t.failures = append(t.failures, Failure{Key: key, Desc: desc})
}

// Nontrivial marks the case as exercising the property by the check's rule.
func (t *T) Nontrivial() { t.nontrivial = true }

// Skip marks the case as outside the judged fragment.
func (t *T) Skip() { t.skipped = true }

// Outcome records an observed outcome (for the distinct-outcome count).
func (t *T) Outcome(s string) { t.outcome = s; t.hasOutcome = true }

func (t *T) Tier() string { return t.r.Tier }

// AddTransitions / AddStates let a case report state-space numbers (only executed cases count).
func (t *T) AddTransitions(n int64) { t.r.res.Transitions += n }
func (t *T) AddStates(n int64)      { t.r.res.States += n }

// Heartbeat tells the parent's watchdog that a long-running case is alive.
func (t *T) Heartbeat()                 { t.r.Heartbeat() }
func (t *T) AddExtra(k string, n int64) { t.r.res.Extra[k] += n }

// GroupStat is the per-group coverage.
type GroupStat struct {
	Evaluations int64    `json:"evaluations"`
	Nontrivial  int64    `json:"nontrivial"`
	Skipped     int64    `json:"skipped"`
	Duplicates  int64    `json:"duplicates"`
	Complete    bool     `json:"complete"`
	Bound       string   `json:"bound,omitempty"`
	Samples     []string `json:"samples,omitempty"`
}

// Result is what a worker reports.
type Result struct {
	Shard       int                   `json:"shard"`
	Groups      map[string]*GroupStat `json:"groups"`
	GroupOrder  []string              `json:"group_order"`
	Failures    []Failure             `json:"failures"`
	FailCount   map[string]int64      `json:"fail_count"`
	Outcomes    []uint64              `json:"outcomes"`
	States      int64                 `json:"states"`
	Transitions int64                 `json:"transitions"`
	Extra       map[string]int64      `json:"extra,omitempty"`
	Notes       []string              `json:"notes,omitempty"`
	Deadline    bool                  `json:"deadline"`
	LastCounter uint64                `json:"last_counter"`
	Done        bool                  `json:"done"`
}

// Runner drives the enumeration inside one worker.
type Runner struct {
	Tier  string
	Seed  int64
	Shard int
	Of    int

	From uint64 // skip cases with counter < From
	Only uint64 // if OnlySet, run exactly this counter
	// OnlySet: run just the case with counter Only, print it first.
	OnlySet bool
	// SkipSet: counters known to kill the process (set by the parent on restart).
	SkipSet map[uint64]bool
	// Exe is the path of this binary (for isolated sub-processes).
	Exe string

	counter  uint64
	status   *uint64 // mmapped progress word (may be nil)
	hb       *uint64
	seen     map[uint64]struct{}
	dedup    bool
	group    string
	gs       *GroupStat
	res      *Result
	outcomes map[uint64]struct{}
	deadline time.Time
	stopped  bool
	typ      string
	maxFail  int
}

const maxOutcomes = 200000

func NewRunner(tier string, seed int64, shard, of int) *Runner {
	return &Runner{
		Tier: tier, Seed: seed, Shard: shard, Of: of,
		seen:     map[uint64]struct{}{},
		dedup:    true,
		outcomes: map[uint64]struct{}{},
		res: &Result{Shard: shard, Groups: map[string]*GroupStat{}, FailCount: map[string]int64{},
			Extra: map[string]int64{}},
		maxFail: 40,
	}
}

func (r *Runner) SetDeadline(d time.Time) { r.deadline = d }
func (r *Runner) SetStatus(p *uint64)     { r.status = p }
func (r *Runner) Result() *Result         { return r.res }
func (r *Runner) Quick() bool             { return r.Tier != "thorough" }

// Group starts a named group of cases. typ is the registered case type of the
// cases that follow. bound is a human-readable statement of the bound.
func (r *Runner) Group(name, typ, bound string) {
	r.finishGroup()
	r.group = name
	r.typ = typ
	gs := r.res.Groups[name]
	if gs == nil {
		gs = &GroupStat{Bound: bound}
		r.res.Groups[name] = gs
		r.res.GroupOrder = append(r.res.GroupOrder, name)
	}
	r.gs = gs
	r.dedup = true
}

// NoDedup declares that the cases of the current group are distinct by
// construction (saves the per-case set for very large groups).
func (r *Runner) NoDedup() { r.dedup = false }

func (r *Runner) finishGroup() {
	if r.gs != nil && !r.stopped {
		r.gs.Complete = true
	}
}

// Stopped reports whether the deadline was hit; enumerators should return.
func (r *Runner) Stopped() bool { return r.stopped }

func (r *Runner) AddStates(n int64)      { r.res.States += n }
func (r *Runner) AddTransitions(n int64) { r.res.Transitions += n }
func (r *Runner) AddExtra(k string, n int64) {
	r.res.Extra[k] += n
}
func (r *Runner) Note(s string) { r.res.Notes = append(r.res.Notes, s) }

func hash64(s string) uint64 {
	h := fnv.New64a()
	h.Write([]byte(s))
	return h.Sum64()
}

// Mine reports whether a unit of work identified by id belongs to this shard
// (for checks that shard coarser than by case).
func (r *Runner) Mine(id string) bool {
	if r.Of <= 1 {
		return true
	}
	return int(hash64(id)%uint64(r.Of)) == r.Shard
}

// Do executes one case if it belongs to this shard.
func (r *Runner) Do(c Case) {
	r.counter++
	n := r.counter
	if r.stopped {
		return
	}
	if r.OnlySet {
		if n != r.Only {
			return
		}
	} else {
		if n < r.From {
			return
		}
	}
	if r.SkipSet[n] {
		return
	}
	id := c.ID()
	h := hash64(r.group + "\x00" + id)
	if !r.OnlySet && r.Of > 1 && int(h%uint64(r.Of)) != r.Shard {
		return
	}
	if n&0x3ff == 0 && !r.deadline.IsZero() && time.Now().After(r.deadline) {
		r.stopped = true
		r.res.Deadline = true
		return
	}
	if r.dedup && !r.OnlySet {
		if _, dup := r.seen[h]; dup {
			r.gs.Duplicates++
			return
		}
		r.seen[h] = struct{}{}
	}
	if r.status != nil {
		atomic.StoreUint64(r.status, n)
	}
	r.res.LastCounter = n
	if r.OnlySet {
		// announce before running: the parent needs this if we die
		data, _ := json.Marshal(c)
		f := Failure{CaseID: id, Type: r.typ, Data: data, Group: r.group}
		b, _ := json.Marshal(f)
		fmt.Fprintf(os.Stdout, "ONLY-CASE %s\n", b)
		os.Stdout.Sync()
	}
	t := &T{r: r, typ: r.typ, c: c}
	r.exec(c, t)
	r.gs.Evaluations++
	if t.skipped {
		r.gs.Skipped++
	} else if t.nontrivial {
		r.gs.Nontrivial++
	}
	if t.hasOutcome && len(r.outcomes) < maxOutcomes {
		r.outcomes[hash64(t.outcome)] = struct{}{}
	}
	if len(r.gs.Samples) < 3 || (int64(h>>8)+r.Seed)%200003 == 0 && len(r.gs.Samples) < 6 {
		s := id
		if len(s) > 300 {
			s = s[:300] + "..."
		}
		r.gs.Samples = append(r.gs.Samples, s)
	}
	for _, f := range t.failures {
		r.res.FailCount[f.Key]++
		if r.res.FailCount[f.Key] <= 2 && len(r.res.Failures) < r.maxFail {
			data, _ := json.Marshal(c)
			f.CaseID = id
			f.Type = r.typ
			f.Data = data
			f.Group = r.group
			r.res.Failures = append(r.res.Failures, f)
		}
	}
}

func (r *Runner) exec(c Case, t *T) {
	defer func() {
		if p := recover(); p != nil {
			site, msg := PanicSite(p, debug.Stack())
			t.Fail("panic:"+site+":"+msg, "panic: %v (at %s)", p, site)
		}
	}()
	c.Exec(t)
}

func (r *Runner) Finish() *Result {
	r.finishGroup()
	for h := range r.outcomes {
		r.res.Outcomes = append(r.res.Outcomes, h)
	}
	r.res.Done = true
	return r.res
}

// PanicSite extracts the innermost pongo2 function on the stack and a message class.
func PanicSite(p any, stack []byte) (site, msg string) {
	site = "?"
	lines := strings.Split(string(stack), "\n")
	for _, l := range lines {
		if strings.HasPrefix(l, "github.com/flosch/pongo2/v6.") {
			s := strings.TrimPrefix(l, "github.com/flosch/pongo2/v6.")
			if i := strings.LastIndex(s, "("); i > 0 {
				s = s[:i]
			}
			site = s
			break
		}
	}
	msg = MsgClass(fmt.Sprint(p))
	return
}

// MsgClass normalises a panic/error message: digits and quoted parts dropped.
func MsgClass(m string) string {
	var b strings.Builder
	lastHash := false
	for _, c := range m {
		if c >= '0' && c <= '9' {
			if !lastHash {
				b.WriteByte('#')
				lastHash = true
			}
			continue
		}
		lastHash = false
		if c == ' ' {
			b.WriteByte('_')
			continue
		}
		if c == '\n' {
			break
		}
		b.WriteRune(c)
	}
	s := b.String()
	if len(s) > 70 {
		s = s[:70]
	}
	return s
}

// Protect runs f and converts a panic into (site,msg,true).
func Protect(f func()) (site, msg string, panicked bool) {
	defer func() {
		if p := recover(); p != nil {
			site, msg = PanicSite(p, debug.Stack())
			panicked = true
		}
	}()
	f()
	return
}

func init() {
	// A runaway recursion must die quickly and visibly instead of eating 1 GB.
	debug.SetMaxStack(32 << 20)
	_ = runtime.NumCPU
}

// DecodeCase rebuilds a case from replay data.
func DecodeCase(typ string, data json.RawMessage) (Case, error) {
	mk := caseTypes[typ]
	if mk == nil {
		return nil, fmt.Errorf("unknown case type %q", typ)
	}
	c := mk()
	if err := json.Unmarshal(data, c); err != nil {
		return nil, err
	}
	return c, nil
}

// ReplayFile is the on-disk replay format.
type ReplayFile struct {
	Property string          `json:"property"`
	Key      string          `json:"key"`
	Desc     string          `json:"desc"`
	Group    string          `json:"group"`
	CaseID   string          `json:"case_id"`
	Type     string          `json:"type"`
	Data     json.RawMessage `json:"data"`
	Note     string          `json:"note,omitempty"`
}

// RunReplay executes a replay file in this process; returns the failures.
func RunReplay(rf *ReplayFile) ([]Failure, error) {
	c, err := DecodeCase(rf.Type, rf.Data)
	if err != nil {
		return nil, err
	}
	r := NewRunner("quick", 0, 0, 1)
	r.Group(rf.Group, rf.Type, "")
	t := &T{r: r, typ: rf.Type, c: c}
	r.exec(c, t)
	return t.failures, nil
}
