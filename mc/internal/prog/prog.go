// Package prog is the shared "render a generated program and compare with the
// reference interpreter's expectation" case used by several properties.
package prog

import (
	"fmt"
	"reflect"
	"sort"
	"strings"

	"github.com/flosch/pongo2/v6"

	"verifmc/internal/eng"
	"verifmc/internal/px"
	"verifmc/internal/ref"
)

type Case struct {
	Files   map[string]string `json:"files"` // "/main" is the entry template
	Ctx     map[string]ref.V  `json:"ctx"`
	Globals map[string]ref.V  `json:"globals,omitempty"`
	Want    eng.Q             `json:"want"`
	WantErr bool              `json:"want_err"` // an execution error is expected instead of output
	Key     string            `json:"key"`      // violation key class
	Label   string            `json:"label"`    // what the generator built (for reports)
	// Ctx2 (optional): the same COMPILED template is executed a second time with this context and must render
	// Want2 / fail (what the first execution bound must not leak into the second), then once more with Ctx
	Ctx2     map[string]ref.V `json:"ctx2,omitempty"`
	Want2    eng.Q            `json:"want2,omitempty"`
	WantErr2 bool             `json:"want_err2,omitempty"`
	// CtxKeyError: the context contains a key the engine must reject (error expected, nothing else judged)
}

func (c *Case) ID() string {
	var names []string
	for k := range c.Files {
		names = append(names, k)
	}
	sort.Strings(names)
	var b strings.Builder
	for _, n := range names {
		fmt.Fprintf(&b, "%s=%q ", n, c.Files[n])
	}
	var ks []string
	for k := range c.Ctx {
		ks = append(ks, k)
	}
	sort.Strings(ks)
	b.WriteString("ctx{")
	for _, k := range ks {
		fmt.Fprintf(&b, "%s:%s ", k, c.Ctx[k])
	}
	b.WriteString("}")
	if len(c.Globals) > 0 {
		var gs []string
		for k := range c.Globals {
			gs = append(gs, k)
		}
		sort.Strings(gs)
		b.WriteString(" globals{")
		for _, k := range gs {
			fmt.Fprintf(&b, "%s:%s ", k, c.Globals[k])
		}
		b.WriteString("}")
	}
	return b.String()
}

func goCtx(m map[string]ref.V) pongo2.Context {
	out := pongo2.Context{}
	for k, v := range m {
		out[k] = v.Go()
	}
	return out
}

func (c *Case) Exec(t *eng.T) {
	t.Nontrivial()
	set, _ := px.NewSet(c.Files)
	for k, v := range c.Globals {
		set.Globals[k] = v.Go()
	}
	globalsBefore := goCtx(c.Globals)
	tpl, out := px.CompileFile(set, "/main")
	if tpl == nil {
		t.Outcome(out.String())
		t.Fail(c.Key+":compile", "%s [%s] does not compile: %s", c.Label, c.ID(), out)
		return
	}
	ctx := goCtx(c.Ctx)
	pristine := goCtx(c.Ctx)
	out = px.Exec(tpl, ctx)
	t.Outcome(out.String())
	// caller data must be untouched (C12), checked in every program of every property using this case
	if !reflect.DeepEqual(map[string]any(ctx), map[string]any(pristine)) {
		t.Fail("caller-context-modified", "%s [%s]: the Context map passed by the caller changed during execution: %v -> %v", c.Label, c.ID(), pristine, ctx)
	}
	if !reflect.DeepEqual(map[string]any(set.Globals), map[string]any(globalsBefore)) {
		t.Fail("globals-modified", "%s [%s]: the set's Globals changed during execution: %v -> %v", c.Label, c.ID(), globalsBefore, set.Globals)
	}
	if out.Panic != "" {
		t.Fail(c.Key+":panic:"+out.Panic, "%s [%s] panics: %s", c.Label, c.ID(), out.PanicMsg)
		return
	}
	if c.WantErr {
		if out.Err == "" {
			t.Fail(c.Key+":no-error", "%s [%s] renders %q, the reference expects an execution error", c.Label, c.ID(), out.S)
		}
		return
	}
	if out.Err != "" {
		t.Fail(c.Key+":error", "%s [%s] fails: %s; the reference renders %q", c.Label, c.ID(), out.Err, string(c.Want))
		return
	}
	if out.S != string(c.Want) {
		t.Fail(c.Key+":output", "%s [%s] renders %q; the reference interpreter renders %q", c.Label, c.ID(), out.S, string(c.Want))
		return
	}
	if len(c.Globals) > 0 {
		// the set's globals are visible whichever way the set is asked to render the program
		src := c.Files["/main"]
		routes := []struct {
			name string
			f    func() (string, error)
		}{
			{"RenderTemplateString", func() (string, error) { return set.RenderTemplateString(src, goCtx(c.Ctx)) }},
			{"RenderTemplateBytes", func() (string, error) { return set.RenderTemplateBytes([]byte(src), goCtx(c.Ctx)) }},
			{"RenderTemplateFile", func() (string, error) { return set.RenderTemplateFile("/main", goCtx(c.Ctx)) }},
			{"FromBytes", func() (string, error) {
				t2, err := set.FromBytes([]byte(src))
				if err != nil {
					return "", err
				}
				return t2.Execute(goCtx(c.Ctx))
			}},
			{"FromCache", func() (string, error) {
				t2, err := set.FromCache("/main")
				if err != nil {
					return "", err
				}
				return t2.Execute(goCtx(c.Ctx))
			}},
		}
		for _, rt := range routes {
			var got string
			var err error
			site, msg, pan := eng.Protect(func() { got, err = rt.f() })
			if pan || err != nil || got != out.S {
				t.Fail(c.Key+":route:"+rt.name, "%s [%s]: %s gives %q (error %v, panic %s %s); compiling with FromFile and executing gives %q", c.Label, c.ID(), rt.name, got, err, site, msg, out.S)
				return
			}
		}
	}
	if c.Ctx2 != nil {
		o2 := px.Exec(tpl, goCtx(c.Ctx2))
		switch {
		case o2.Panic != "":
			t.Fail(c.Key+":panic:"+o2.Panic, "%s [%s] panics in a second execution with another context: %s", c.Label, c.ID(), o2.PanicMsg)
		case c.WantErr2 && o2.Err == "":
			t.Fail(c.Key+":second-execution:no-error", "%s [%s]: second execution (context %v) renders %q, the reference expects an execution error", c.Label, c.ID(), c.Ctx2, o2.S)
		case !c.WantErr2 && (o2.Err != "" || o2.S != string(c.Want2)):
			t.Fail(c.Key+":second-execution", "%s [%s]: the second execution of the compiled template, with the context %v, gives %s; the reference interpreter renders %q", c.Label, c.ID(), c.Ctx2, o2, string(c.Want2))
		}
		if o3 := px.Exec(tpl, goCtx(c.Ctx)); o3.String() != out.String() {
			t.Fail(c.Key+":third-execution", "%s [%s]: executing again with the first context gives %s, the first execution gave %s", c.Label, c.ID(), o3, out)
		}
	}
}

// Vary returns a context with the same keys and kinds but different values (strings get a suffix, numbers move,
// lists are rotated by one).
func Vary(ctx map[string]ref.V) map[string]ref.V {
	out := map[string]ref.V{}
	for k, v := range ctx {
		out[k] = vary(v)
	}
	return out
}

func vary(v ref.V) ref.V {
	switch v.K {
	case ref.KStr:
		return ref.StrVia(v.S+"'2", v.Carrier)
	case ref.KInt:
		return ref.IntV(v.I + 3)
	case ref.KFloat:
		return ref.FloatV(v.F + 1.5)
	case ref.KList:
		// same element kinds (an order on mixed kinds is not specified): rotate by one and vary every element
		var l []ref.V
		for i := range v.L {
			l = append(l, vary(v.L[(i+1)%len(v.L)]))
		}
		return ref.ListV(l...)
	}
	return v
}

// BuildTwice is Build plus the expectation for a second execution with another context.
func BuildTwice(files map[string][]ref.Node, ctx, ctx2, globals map[string]ref.V, key, label string, alt bool) (*Case, bool) {
	c, ok := Build(files, ctx, globals, key, label, alt)
	if !ok {
		return nil, false
	}
	c2, ok2 := Build(files, ctx2, globals, key, label, alt)
	if !ok2 {
		return c, true // the second context leads outside the fragment: single execution only
	}
	c.Ctx2, c.Want2, c.WantErr2 = ctx2, c2.Want, c2.WantErr
	return c, true
}

// Build runs the reference interpreter and returns the case, or ok=false when
// the program lies outside the judged fragment.
func Build(files map[string][]ref.Node, ctx, globals map[string]ref.V, key, label string, alt bool) (*Case, bool) {
	merged := map[string]ref.V{}
	for k, v := range globals {
		merged[k] = v
	}
	for k, v := range ctx {
		merged[k] = v
	}
	run := func(perLoop bool) (string, error) {
		it := ref.NewInterp(merged, files)
		it.Globals = globals
		it.IfChangedPerLoop = perLoop
		return it.Render(files["/main"])
	}
	want, err := run(false)
	c := &Case{Files: map[string]string{}, Ctx: ctx, Globals: globals, Key: key, Label: label}
	for n, ns := range files {
		c.Files[n] = ref.Source(ns)
	}
	if err != nil {
		if _, ok := err.(*ref.ErrExec); ok {
			c.WantErr = true
			return c, true
		}
		return nil, false
	}
	if alt {
		// where the two readings of ifchanged's memory differ the case is outside the fragment
		w2, err2 := run(true)
		if err2 != nil || w2 != want {
			return nil, false
		}
	}
	c.Want = eng.Q(want)
	return c, true
}

func init() {
	eng.RegisterCase("prog.case", func() eng.Case { return &Case{} })
}
