// Package ref holds a small template AST with a source printer and a direct,
// boring reference interpreter over model values. It is written from the
// property texts (DESIGN.md Appendix A), not from the implementation.
package ref

import (
	"fmt"
	"strconv"
	"strings"
)

// ---------- expressions ----------

type Expr interface{ src() string }

type Lit struct{ V V }

// Var is a name with dotted steps: a.b.0
type Var struct {
	Name  string
	Steps []string
}

// Call calls a name (macro) with arguments.
type Call struct {
	Name string
	Args []Expr
}

type Bin struct {
	Op   string
	L, R Expr
}

type Not struct{ E Expr }

type FilterCall struct {
	Name string
	Arg  Expr // nil = none
}

type Filtered struct {
	E       Expr
	Filters []FilterCall
}

// List is an array literal [a, b].
type List struct{ Items []Expr }

func (e Lit) src() string {
	switch e.V.K {
	case KInt:
		return strconv.Itoa(e.V.I)
	case KStr:
		return `"` + strings.ReplaceAll(strings.ReplaceAll(e.V.S, `\`, `\\`), `"`, `\"`) + `"`
	case KBool:
		if e.V.B {
			return "true"
		}
		return "false"
	case KFloat:
		s := strconv.FormatFloat(e.V.F, 'f', -1, 64)
		if !strings.Contains(s, ".") {
			s += ".0"
		}
		return s
	}
	panic("ref: literal of unsupported kind")
}

func (e Var) src() string {
	if len(e.Steps) == 0 {
		return e.Name
	}
	return e.Name + "." + strings.Join(e.Steps, ".")
}

func (e Call) src() string {
	var a []string
	for _, x := range e.Args {
		a = append(a, x.src())
	}
	return e.Name + "(" + strings.Join(a, ", ") + ")"
}

func (e Bin) src() string { return "(" + e.L.src() + " " + e.Op + " " + e.R.src() + ")" }
func (e Not) src() string { return "not (" + e.E.src() + ")" }

func (e Filtered) src() string {
	s := e.E.src()
	if _, ok := e.E.(Bin); ok {
		// already parenthesised
	}
	for _, f := range e.Filters {
		s += "|" + f.Name
		if f.Arg != nil {
			s += ":" + f.Arg.src()
		}
	}
	return s
}

func (e List) src() string {
	var a []string
	for _, x := range e.Items {
		a = append(a, x.src())
	}
	return "[" + strings.Join(a, ", ") + "]"
}

// ---------- nodes ----------

type Node interface{ src(b *strings.Builder) }

type Text struct{ S string }
type Out struct{ E Expr }

type If struct {
	Conds   []Expr   // if, elif...
	Bodies  [][]Node // one per condition
	Else    []Node
	HasElse bool
}

type IfEq struct {
	Neg     bool
	A, B    Expr
	Then    []Node
	Else    []Node
	HasElse bool
}

type FirstOf struct{ Args []Expr }

type For struct {
	Key, Val string
	Over     Expr
	Reversed bool
	Sorted   bool
	Body     []Node
	Empty    []Node
	HasEmpty bool
}

type Cycle struct {
	Args   []Expr
	As     string
	Silent bool
	id     int
}

// CycleRef is {% cycle name %} advancing a cycle named by `as`.
type CycleRef struct{ Name string }

type IfChanged struct {
	Watch   []Expr
	Then    []Node
	Else    []Node
	HasElse bool
	id      int
}

type Pair struct {
	Name string
	E    Expr
}

type With struct {
	Pairs    []Pair
	Body     []Node
	OldStyle bool
}

type Set struct {
	Name string
	E    Expr
}

type Param struct {
	Name    string
	Default Expr // nil = none
}

type Macro struct {
	Name   string
	Params []Param
	Body   []Node
	Export bool
}

type Include struct {
	File     string // static name ("" = lazy)
	Lazy     Expr
	Pairs    []Pair
	Only     bool
	IfExists bool
	SSI      bool // written as {% ssi "file" parsed %}: rendered like an include without pairs
}

type ImportName struct{ Name, Alias string }

type Import struct {
	File  string
	Names []ImportName
}

type FilterTag struct {
	Chain []FilterCall
	Body  []Node
}

type Autoescape struct {
	On   bool
	Body []Node
}

func srcAll(ns []Node, b *strings.Builder) {
	for _, n := range ns {
		n.src(b)
	}
}

// Source prints a node list as template source.
func Source(ns []Node) string {
	var b strings.Builder
	srcAll(ns, &b)
	return b.String()
}

func (n Text) src(b *strings.Builder) { b.WriteString(n.S) }
func (n Out) src(b *strings.Builder)  { b.WriteString("{{ " + n.E.src() + " }}") }

func (n If) src(b *strings.Builder) {
	for i, c := range n.Conds {
		if i == 0 {
			b.WriteString("{% if " + c.src() + " %}")
		} else {
			b.WriteString("{% elif " + c.src() + " %}")
		}
		srcAll(n.Bodies[i], b)
	}
	if n.HasElse {
		b.WriteString("{% else %}")
		srcAll(n.Else, b)
	}
	b.WriteString("{% endif %}")
}

func (n IfEq) src(b *strings.Builder) {
	name := "ifequal"
	if n.Neg {
		name = "ifnotequal"
	}
	b.WriteString("{% " + name + " " + n.A.src() + " " + n.B.src() + " %}")
	srcAll(n.Then, b)
	if n.HasElse {
		b.WriteString("{% else %}")
		srcAll(n.Else, b)
	}
	b.WriteString("{% end" + name + " %}")
}

func (n FirstOf) src(b *strings.Builder) {
	b.WriteString("{% firstof")
	for _, a := range n.Args {
		b.WriteString(" " + a.src())
	}
	b.WriteString(" %}")
}

func (n For) src(b *strings.Builder) {
	b.WriteString("{% for " + n.Key)
	if n.Val != "" {
		b.WriteString(", " + n.Val)
	}
	b.WriteString(" in " + n.Over.src())
	if n.Reversed {
		b.WriteString(" reversed")
	}
	if n.Sorted {
		b.WriteString(" sorted")
	}
	b.WriteString(" %}")
	srcAll(n.Body, b)
	if n.HasEmpty {
		b.WriteString("{% empty %}")
		srcAll(n.Empty, b)
	}
	b.WriteString("{% endfor %}")
}

func (n *Cycle) src(b *strings.Builder) {
	b.WriteString("{% cycle")
	for _, a := range n.Args {
		b.WriteString(" " + a.src())
	}
	if n.As != "" {
		b.WriteString(" as " + n.As)
		if n.Silent {
			b.WriteString(" silent")
		}
	}
	b.WriteString(" %}")
}

func (n CycleRef) src(b *strings.Builder) { b.WriteString("{% cycle " + n.Name + " %}") }

func (n *IfChanged) src(b *strings.Builder) {
	b.WriteString("{% ifchanged")
	for _, a := range n.Watch {
		b.WriteString(" " + a.src())
	}
	b.WriteString(" %}")
	srcAll(n.Then, b)
	if n.HasElse {
		b.WriteString("{% else %}")
		srcAll(n.Else, b)
	}
	b.WriteString("{% endifchanged %}")
}

func (n With) src(b *strings.Builder) {
	b.WriteString("{% with")
	for _, p := range n.Pairs {
		if n.OldStyle {
			b.WriteString(" " + p.E.src() + " as " + p.Name)
		} else {
			b.WriteString(" " + p.Name + "=" + p.E.src())
		}
	}
	b.WriteString(" %}")
	srcAll(n.Body, b)
	b.WriteString("{% endwith %}")
}

func (n Set) src(b *strings.Builder) { b.WriteString("{% set " + n.Name + " = " + n.E.src() + " %}") }

func (n Macro) src(b *strings.Builder) {
	b.WriteString("{% macro " + n.Name + "(")
	for i, p := range n.Params {
		if i > 0 {
			b.WriteString(", ")
		}
		b.WriteString(p.Name)
		if p.Default != nil {
			b.WriteString("=" + p.Default.src())
		}
	}
	b.WriteString(")")
	if n.Export {
		b.WriteString(" export")
	}
	b.WriteString(" %}")
	srcAll(n.Body, b)
	b.WriteString("{% endmacro %}")
}

func (n Include) src(b *strings.Builder) {
	if n.SSI {
		b.WriteString(`{% ssi "` + n.File + `" parsed %}`)
		return
	}
	b.WriteString("{% include ")
	if n.Lazy != nil {
		b.WriteString(n.Lazy.src())
	} else {
		b.WriteString(`"` + n.File + `"`)
	}
	if n.IfExists {
		b.WriteString(" if_exists")
	}
	if len(n.Pairs) > 0 {
		b.WriteString(" with")
		for _, p := range n.Pairs {
			b.WriteString(" " + p.Name + "=" + p.E.src())
		}
		if n.Only {
			b.WriteString(" only")
		}
	}
	b.WriteString(" %}")
}

func (n Import) src(b *strings.Builder) {
	b.WriteString(`{% import "` + n.File + `"`)
	for i, nm := range n.Names {
		if i > 0 {
			b.WriteString(",")
		}
		b.WriteString(" " + nm.Name)
		if nm.Alias != "" {
			b.WriteString(" as " + nm.Alias)
		}
	}
	b.WriteString(" %}")
}

func (n FilterTag) src(b *strings.Builder) {
	b.WriteString("{% filter ")
	for i, f := range n.Chain {
		if i > 0 {
			b.WriteString("|")
		}
		b.WriteString(f.Name)
		if f.Arg != nil {
			b.WriteString(":" + f.Arg.src())
		}
	}
	b.WriteString(" %}")
	srcAll(n.Body, b)
	b.WriteString("{% endfilter %}")
}

func (n Autoescape) src(b *strings.Builder) {
	if n.On {
		b.WriteString("{% autoescape on %}")
	} else {
		b.WriteString("{% autoescape off %}")
	}
	srcAll(n.Body, b)
	b.WriteString("{% endautoescape %}")
}

var _ = fmt.Sprint
