package ref

import (
	"errors"
	"fmt"
	"sort"
	"strconv"
	"strings"
)

// ---------- model values ----------

type Kind int

const (
	KNil Kind = iota
	KInt
	KFloat
	KStr
	KBool
	KList
	KMap    // string-keyed, keys in MK (insertion order), values in L
	KLoop   // forloop record
	KMacro  // callable
	KCycle  // value bound by `cycle ... as`
	KOpaque // something the model does not look into (prints as nothing judged)
)

type V struct {
	K    Kind          `json:"k"`
	I    int           `json:"i,omitempty"`
	F    float64       `json:"f,omitempty"`
	S    string        `json:"s,omitempty"`
	B    bool          `json:"b,omitempty"`
	L    []V           `json:"l,omitempty"`
	MK   []string      `json:"mk,omitempty"`
	Any  bool          `json:"any,omitempty"` // a list handed to the engine as []any even when its elements have one kind
	// Carrier: how a text is handed to the engine: "" = string, "ptr" = *string, "named" = a named string type,
	// "ptrnamed" = pointer to one (the engine looks through all of them: same semantics as the plain string)
	Carrier string `json:"carrier,omitempty"`
	Safe bool          `json:"-"`
	Loop *Loop         `json:"-"`
	Mac  *macroClosure `json:"-"`
	Cyc  *cycleState   `json:"-"`
}

type Loop struct {
	Counter, Counter0, Revcounter, Revcounter0 int
	First, Last                                bool
	Parent                                     *Loop
	// EmptyRec: the record of a loop that had nothing to iterate (visible in its `empty` branch):
	// only its Parentloop link is specified.
	EmptyRec bool
}

func NilV() V            { return V{K: KNil} }
func IntV(i int) V       { return V{K: KInt, I: i} }
func StrV(s string) V    { return V{K: KStr, S: s} }
func BoolV(b bool) V     { return V{K: KBool, B: b} }

// NamedText is the named string type of the "named" carriers.
type NamedText string

// StrVia is a text handed over through the given carrier.
func StrVia(s, carrier string) V { return V{K: KStr, S: s, Carrier: carrier} }
func FloatV(f float64) V { return V{K: KFloat, F: f} }
func ListV(l ...V) V     { return V{K: KList, L: l} }
func ListAnyV(l ...V) V  { return V{K: KList, L: l, Any: true} }
func MapV(kv ...any) V {
	m := V{K: KMap}
	for i := 0; i+1 < len(kv); i += 2 {
		m.MK = append(m.MK, kv[i].(string))
		m.L = append(m.L, kv[i+1].(V))
	}
	return m
}

// Go converts a model value into the Go value handed to pongo2.
func (v V) Go() any {
	switch v.K {
	case KNil:
		return nil
	case KInt:
		return v.I
	case KFloat:
		return v.F
	case KStr:
		switch v.Carrier {
		case "ptr":
			s := v.S
			return &s
		case "named":
			return NamedText(v.S)
		case "ptrnamed":
			s := NamedText(v.S)
			return &s
		}
		return v.S
	case KBool:
		return v.B
	case KList:
		allInt, allStr := true, true
		for _, e := range v.L {
			if e.K != KInt {
				allInt = false
			}
			if e.K != KStr {
				allStr = false
			}
		}
		if v.Any {
			allInt, allStr = false, false
		}
		if allInt && len(v.L) > 0 {
			out := make([]int, len(v.L))
			for i, e := range v.L {
				out[i] = e.I
			}
			return out
		}
		if allStr && len(v.L) > 0 {
			out := make([]string, len(v.L))
			for i, e := range v.L {
				out[i] = e.S
			}
			return out
		}
		out := make([]any, len(v.L))
		for i, e := range v.L {
			out[i] = e.Go()
		}
		return out
	case KMap:
		out := map[string]any{}
		for i, k := range v.MK {
			out[k] = v.L[i].Go()
		}
		return out
	}
	panic("ref: value cannot be handed to the implementation")
}

func (v V) String() string {
	switch v.K {
	case KNil:
		return "nil"
	case KInt:
		return strconv.Itoa(v.I)
	case KFloat:
		return fmt.Sprintf("%g", v.F)
	case KStr:
		return strconv.Quote(v.S)
	case KBool:
		return strconv.FormatBool(v.B)
	case KList:
		var p []string
		for _, e := range v.L {
			p = append(p, e.String())
		}
		return "[" + strings.Join(p, ",") + "]"
	case KMap:
		var p []string
		for i, k := range v.MK {
			p = append(p, k+":"+v.L[i].String())
		}
		return "{" + strings.Join(p, ",") + "}"
	}
	return "?"
}

// Printed is the canonical printed form (before escaping).
func (v V) Printed() (string, bool) {
	switch v.K {
	case KNil:
		return "", true
	case KInt:
		return strconv.Itoa(v.I), true
	case KFloat:
		return fmt.Sprintf("%f", v.F), true
	case KStr:
		return v.S, true
	case KBool:
		if v.B {
			return "True", true
		}
		return "False", true
	case KCycle:
		return v.Cyc.current.Printed()
	}
	return "", false // lists, maps, loop records: printed form not specified
}

func (v V) Truthy() bool {
	switch v.K {
	case KInt:
		return v.I != 0
	case KFloat:
		return v.F != 0
	case KStr:
		return v.S != ""
	case KBool:
		return v.B
	case KList, KMap:
		return len(v.L) > 0
	case KLoop:
		return true
	}
	return false
}

func EscapeHTML(s string) string {
	r := strings.NewReplacer("&", "&amp;", "<", "&lt;", ">", "&gt;", `"`, "&quot;", "'", "&#39;")
	return r.Replace(s)
}

// ---------- interpreter ----------

// ErrSkip marks behaviour outside the judged fragment.
var ErrSkip = errors.New("outside the judged fragment")

// ErrExec is an execution error expected from the implementation.
type ErrExec struct{ Msg string }

func (e *ErrExec) Error() string { return "execution error: " + e.Msg }

type macroClosure struct {
	def *Macro
	env *env // definition-level environment
	it  *Interp
}

type cycleState struct {
	node    *Cycle
	current V
}

type env struct {
	vars   map[string]V
	parent *env // lookup chain only inside one template: child scopes COPY, so parent is nil there; kept for clarity
}

func (e *env) child() *env {
	c := &env{vars: map[string]V{}}
	for k, v := range e.vars {
		c.vars[k] = v
	}
	return c
}

type Interp struct {
	Files   map[string][]Node // templates by name (for include/import)
	Context map[string]V      // caller context merged over globals
	Globals map[string]V      // the set's globals (visible in every template of the set, also under `include ... only`)
	// IfChangedPerLoop selects the alternative reading: ifchanged state is reset whenever the enclosing loop starts again.
	IfChangedPerLoop bool
	MaxMacroDepth    int

	out        strings.Builder
	autoescape bool
	cyclePos   map[*Cycle]int
	ifchLast   map[*IfChanged][]V
	ifchBody   map[*IfChanged]*string
	ifchSeen   map[*IfChanged]bool
	depth      int
	loopGen    map[*IfChanged]int
}

func NewInterp(ctx map[string]V, files map[string][]Node) *Interp {
	return &Interp{Files: files, Context: ctx, autoescape: true, MaxMacroDepth: 1000,
		cyclePos: map[*Cycle]int{}, ifchLast: map[*IfChanged][]V{}, ifchBody: map[*IfChanged]*string{}, ifchSeen: map[*IfChanged]bool{}}
}

// Render interprets a node list with a fresh top-level scope.
func (it *Interp) Render(ns []Node) (string, error) {
	e := &env{vars: map[string]V{}}
	var b strings.Builder
	if err := it.exec(ns, e, &b); err != nil {
		return "", err
	}
	return b.String(), nil
}

func (it *Interp) lookup(e *env, name string) V {
	if v, ok := e.vars[name]; ok {
		return v
	}
	if v, ok := it.Context[name]; ok {
		return v
	}
	return NilV()
}

func (it *Interp) eval(x Expr, e *env) (V, error) {
	switch x := x.(type) {
	case Lit:
		return x.V, nil
	case Var:
		v := it.lookup(e, x.Name)
		for _, st := range x.Steps {
			switch v.K {
			case KLoop:
				l := v.Loop
				if l.EmptyRec && st != "Parentloop" {
					return NilV(), ErrSkip
				}
				switch st {
				case "Counter":
					v = IntV(l.Counter)
				case "Counter0":
					v = IntV(l.Counter0)
				case "Revcounter":
					v = IntV(l.Revcounter)
				case "Revcounter0":
					v = IntV(l.Revcounter0)
				case "First":
					v = BoolV(l.First)
				case "Last":
					v = BoolV(l.Last)
				case "Parentloop":
					if l.Parent == nil {
						v = NilV()
					} else {
						v = V{K: KLoop, Loop: l.Parent}
					}
				default:
					return NilV(), ErrSkip
				}
			case KMap:
				found := false
				for i, k := range v.MK {
					if k == st {
						v = v.L[i]
						found = true
						break
					}
				}
				if !found {
					if _, err := strconv.Atoi(st); err == nil {
						return NilV(), ErrSkip // integer step on a map: left open
					}
					v = NilV()
				}
			case KList:
				i, err := strconv.Atoi(st)
				if err != nil {
					return NilV(), &ErrExec{"field access on a sequence"}
				}
				if i >= 0 && i < len(v.L) {
					v = v.L[i]
				} else {
					v = NilV()
				}
			case KNil:
				return NilV(), nil
			default:
				return NilV(), ErrSkip
			}
		}
		return v, nil
	case Call:
		f := it.lookup(e, x.Name)
		if f.K != KMacro {
			return NilV(), ErrSkip
		}
		var args []V
		for _, a := range x.Args {
			v, err := it.eval(a, e)
			if err != nil {
				return NilV(), err
			}
			args = append(args, v)
		}
		return it.callMacro(f.Mac, args)
	case Not:
		v, err := it.eval(x.E, e)
		if err != nil {
			return NilV(), err
		}
		return BoolV(!v.Truthy()), nil
	case Bin:
		l, err := it.eval(x.L, e)
		if err != nil {
			return NilV(), err
		}
		if x.Op == "and" || x.Op == "or" {
			if x.Op == "and" && !l.Truthy() {
				return BoolV(false), nil
			}
			if x.Op == "or" && l.Truthy() {
				return BoolV(true), nil
			}
			r, err := it.eval(x.R, e)
			if err != nil {
				return NilV(), err
			}
			return BoolV(r.Truthy()), nil
		}
		r, err := it.eval(x.R, e)
		if err != nil {
			return NilV(), err
		}
		switch x.Op {
		case "==", "!=":
			if l.K != r.K || !(l.K == KInt || l.K == KStr || l.K == KBool) {
				return NilV(), ErrSkip
			}
			eq := l.I == r.I && l.S == r.S && l.B == r.B
			if x.Op == "!=" {
				eq = !eq
			}
			return BoolV(eq), nil
		case "<", ">", "<=", ">=":
			if l.K != KInt || r.K != KInt {
				return NilV(), ErrSkip
			}
			switch x.Op {
			case "<":
				return BoolV(l.I < r.I), nil
			case ">":
				return BoolV(l.I > r.I), nil
			case "<=":
				return BoolV(l.I <= r.I), nil
			}
			return BoolV(l.I >= r.I), nil
		case "+":
			if l.K == KInt && r.K == KInt {
				return IntV(l.I + r.I), nil
			}
			if (l.K == KStr || l.K == KInt) && (r.K == KStr || r.K == KInt) {
				ls, _ := l.Printed()
				rs, _ := r.Printed()
				return StrV(ls + rs), nil
			}
			return NilV(), ErrSkip
		case "-", "*":
			if l.K == KInt && r.K == KInt {
				if x.Op == "-" {
					return IntV(l.I - r.I), nil
				}
				return IntV(l.I * r.I), nil
			}
			return NilV(), ErrSkip
		}
		return NilV(), ErrSkip
	case Filtered:
		v, err := it.eval(x.E, e)
		if err != nil {
			return NilV(), err
		}
		for _, f := range x.Filters {
			var arg *V
			if f.Arg != nil {
				a, err := it.eval(f.Arg, e)
				if err != nil {
					return NilV(), err
				}
				arg = &a
			}
			v, err = applyFilter(f.Name, v, arg)
			if err != nil {
				return NilV(), err
			}
		}
		return v, nil
	case List:
		var l []V
		for _, i := range x.Items {
			v, err := it.eval(i, e)
			if err != nil {
				return NilV(), err
			}
			l = append(l, v)
		}
		return ListV(l...), nil
	}
	return NilV(), ErrSkip
}

// applyFilter models the handful of filters the generators use inside programs.
func applyFilter(name string, v V, arg *V) (V, error) {
	switch name {
	case "upper", "lower":
		s, ok := v.Printed()
		if !ok {
			return NilV(), ErrSkip
		}
		if name == "upper" {
			return StrV(strings.ToUpper(s)), nil
		}
		return StrV(strings.ToLower(s)), nil
	case "length":
		switch v.K {
		case KStr:
			return IntV(len([]rune(v.S))), nil
		case KList, KMap:
			return IntV(len(v.L)), nil
		case KNil:
			return IntV(0), nil
		}
		return NilV(), ErrSkip
	case "default":
		if arg == nil {
			return NilV(), ErrSkip
		}
		if !v.Truthy() {
			return *arg, nil
		}
		return v, nil
	case "add":
		if arg == nil {
			return NilV(), ErrSkip
		}
		if v.K == KInt && arg.K == KInt {
			return IntV(v.I + arg.I), nil
		}
		if v.K == KStr && arg.K == KStr {
			return StrV(v.S + arg.S), nil
		}
		return NilV(), ErrSkip
	case "safe":
		return v, nil // syntactic: handled at the output node
	case "escape":
		s, ok := v.Printed()
		if !ok {
			return NilV(), ErrSkip
		}
		return StrV(EscapeHTML(s)), nil
	case "first", "last":
		if v.K == KList {
			if len(v.L) == 0 {
				return StrV(""), nil
			}
			if name == "first" {
				return v.L[0], nil
			}
			return v.L[len(v.L)-1], nil
		}
		return NilV(), ErrSkip
	}
	return NilV(), ErrSkip
}

func hasSafe(x Expr) bool {
	if f, ok := x.(Filtered); ok {
		for _, c := range f.Filters {
			if c.Name == "safe" {
				return true
			}
		}
	}
	return false
}

func (it *Interp) printValue(x Expr, v V, b *strings.Builder) error {
	s, ok := v.Printed()
	if !ok {
		return ErrSkip
	}
	isString := v.K == KStr
	if isString && !v.Safe && it.autoescape && !hasSafe(x) {
		s = EscapeHTML(s)
	}
	b.WriteString(s)
	return nil
}

func (it *Interp) callMacro(m *macroClosure, args []V) (V, error) {
	it.depth++
	defer func() { it.depth-- }()
	if it.depth > it.MaxMacroDepth {
		return NilV(), &ErrExec{"maximum recursive macro call depth reached"}
	}
	if len(args) > len(m.def.Params) {
		return NilV(), &ErrExec{"macro called with too many arguments"}
	}
	// the body runs in a child of the definition-level scope
	sc := m.env.child()
	for i, p := range m.def.Params {
		switch {
		case i < len(args):
			sc.vars[p.Name] = args[i]
		case p.Default != nil:
			v, err := it.eval(p.Default, m.env)
			if err != nil {
				return NilV(), err
			}
			sc.vars[p.Name] = v
		default:
			sc.vars[p.Name] = NilV()
		}
	}
	var b strings.Builder
	if err := it.exec(m.def.Body, sc, &b); err != nil {
		return NilV(), err
	}
	return V{K: KStr, S: b.String(), Safe: true}, nil
}

func sortKey(v V) (int, string, bool) {
	if v.K == KInt {
		return v.I, "", true
	}
	s, _ := v.Printed()
	return 0, s, false
}

func sortVals(vs []V) {
	sort.SliceStable(vs, func(i, j int) bool {
		if vs[i].K == KFloat && vs[j].K == KFloat {
			return vs[i].F < vs[j].F // two floats are ordered numerically
		}
		ai, as, aint := sortKey(vs[i])
		bi, bs, bint := sortKey(vs[j])
		if aint && bint {
			return ai < bi
		}
		if aint != bint {
			as, _ = vs[i].Printed()
			bs, _ = vs[j].Printed()
		}
		return as < bs
	})
}

func (it *Interp) exec(ns []Node, e *env, b *strings.Builder) error {
	for _, n := range ns {
		if err := it.execNode(n, e, b); err != nil {
			return err
		}
	}
	return nil
}

func (it *Interp) execNode(n Node, e *env, b *strings.Builder) error {
	switch n := n.(type) {
	case Text:
		b.WriteString(n.S)
	case Out:
		v, err := it.eval(n.E, e)
		if err != nil {
			return err
		}
		return it.printValue(n.E, v, b)
	case If:
		for i, c := range n.Conds {
			v, err := it.eval(c, e)
			if err != nil {
				return err
			}
			if v.Truthy() {
				return it.exec(n.Bodies[i], e, b)
			}
		}
		if n.HasElse {
			return it.exec(n.Else, e, b)
		}
	case IfEq:
		a, err := it.eval(n.A, e)
		if err != nil {
			return err
		}
		c, err := it.eval(n.B, e)
		if err != nil {
			return err
		}
		if a.K != c.K || !(a.K == KInt || a.K == KStr || a.K == KBool) {
			return ErrSkip
		}
		eq := a.I == c.I && a.S == c.S && a.B == c.B
		if eq != n.Neg {
			return it.exec(n.Then, e, b)
		}
		if n.HasElse {
			return it.exec(n.Else, e, b)
		}
	case FirstOf:
		for _, a := range n.Args {
			v, err := it.eval(a, e)
			if err != nil {
				return err
			}
			if v.Truthy() {
				s, ok := v.Printed()
				if !ok {
					return ErrSkip
				}
				if it.autoescape && !hasSafe(a) && !v.Safe { // markup (a macro's result) is printed as it is
					s = EscapeHTML(s)
				}
				b.WriteString(s)
				return nil
			}
		}
	case For:
		return it.execFor(n, e, b)
	case *Cycle:
		pos := it.cyclePos[n]
		it.cyclePos[n] = pos + 1
		v, err := it.eval(n.Args[pos%len(n.Args)], e)
		if err != nil {
			return err
		}
		if n.As != "" {
			e.vars[n.As] = V{K: KCycle, Cyc: &cycleState{node: n, current: v}}
		}
		if !n.Silent {
			s, ok := v.Printed()
			if !ok {
				return ErrSkip
			}
			b.WriteString(s)
		}
	case CycleRef:
		cv := it.lookup(e, n.Name)
		if cv.K != KCycle {
			return ErrSkip
		}
		c := cv.Cyc.node
		pos := it.cyclePos[c]
		it.cyclePos[c] = pos + 1
		v, err := it.eval(c.Args[pos%len(c.Args)], e)
		if err != nil {
			return err
		}
		cv.Cyc.current = v
		if !c.Silent {
			s, ok := v.Printed()
			if !ok {
				return ErrSkip
			}
			b.WriteString(s)
		}
	case *IfChanged:
		if len(n.Watch) == 0 {
			var body strings.Builder
			if err := it.exec(n.Then, e, &body); err != nil {
				return err
			}
			s := body.String()
			if last := it.ifchBody[n]; last == nil || *last != s {
				// note: "never rendered before" and "rendered empty before" coincide for an empty first body
				if last == nil && s == "" {
					// first rendering is empty: nothing visible either way
				}
				b.WriteString(s)
				it.ifchBody[n] = &s
			} else if n.HasElse {
				// the content is what it was the last time: the else branch, as in the watched form
				return it.exec(n.Else, e, b)
			}
			return nil
		}
		var now []V
		for _, w := range n.Watch {
			v, err := it.eval(w, e)
			if err != nil {
				return err
			}
			if !(v.K == KInt || v.K == KStr || v.K == KBool || v.K == KNil) {
				return ErrSkip
			}
			now = append(now, v)
		}
		changed := !it.ifchSeen[n]
		if !changed {
			for i, o := range it.ifchLast[n] {
				if o.K != now[i].K || o.I != now[i].I || o.S != now[i].S || o.B != now[i].B {
					changed = true
				}
			}
		}
		it.ifchSeen[n] = true
		it.ifchLast[n] = now
		if changed {
			return it.exec(n.Then, e, b)
		}
		if n.HasElse {
			return it.exec(n.Else, e, b)
		}
	case With:
		sc := e.child()
		for _, p := range n.Pairs {
			v, err := it.eval(p.E, e)
			if err != nil {
				return err
			}
			sc.vars[p.Name] = v
		}
		return it.exec(n.Body, sc, b)
	case Set:
		v, err := it.eval(n.E, e)
		if err != nil {
			return err
		}
		e.vars[n.Name] = v
	case Macro:
		def := n
		e.vars[n.Name] = V{K: KMacro, Mac: &macroClosure{def: &def, env: e, it: it}}
	case Include:
		name := n.File
		if n.Lazy != nil {
			v, err := it.eval(n.Lazy, e)
			if err != nil {
				return err
			}
			if v.K != KStr || v.S == "" {
				return ErrSkip
			}
			name = v.S
		}
		body, ok := it.Files[name]
		if !ok {
			body, ok = it.Files["/"+name]
		}
		if !ok {
			if n.IfExists {
				return nil
			}
			return &ErrExec{"include of a missing file"}
		}
		ctx := map[string]V{}
		for k, v := range it.Globals {
			ctx[k] = v
		}
		if !n.Only {
			for k, v := range it.Context {
				ctx[k] = v
			}
			for k, v := range e.vars {
				ctx[k] = v
			}
		}
		for _, p := range n.Pairs {
			v, err := it.eval(p.E, e)
			if err != nil {
				return err
			}
			ctx[p.Name] = v
		}
		// an included template is rendered on its own: cycle/ifchanged memory starts afresh
		sub := NewInterp(ctx, it.Files)
		sub.Globals, sub.MaxMacroDepth, sub.depth, sub.IfChangedPerLoop = it.Globals, it.MaxMacroDepth, it.depth, it.IfChangedPerLoop
		s, err := sub.Render(body)
		if err != nil {
			return err
		}
		b.WriteString(s)
	case Import:
		body, ok := it.Files[n.File]
		if !ok {
			body, ok = it.Files["/"+n.File]
		}
		if !ok {
			return &ErrExec{"import of a missing file"}
		}
		// exported macros of the imported file, bound at that file's top level
		top := &env{vars: map[string]V{}}
		for _, nm := range n.Names {
			var found *Macro
			for _, bn := range body {
				if m, ok := bn.(Macro); ok && m.Export && m.Name == nm.Name {
					mm := m
					found = &mm
				}
			}
			if found == nil {
				return &ErrExec{"imported macro not found"}
			}
			alias := nm.Alias
			if alias == "" {
				alias = nm.Name
			}
			_ = top
			// "behaves exactly like the same macro defined locally": bound as if defined at the import position
			e.vars[alias] = V{K: KMacro, Mac: &macroClosure{def: found, env: e, it: it}}
		}
	case FilterTag:
		var body strings.Builder
		if err := it.exec(n.Body, e, &body); err != nil {
			return err
		}
		v := StrV(body.String())
		for _, f := range n.Chain {
			var arg *V
			if f.Arg != nil {
				a, err := it.eval(f.Arg, e)
				if err != nil {
					return err
				}
				arg = &a
			}
			var err error
			v, err = applyFilter(f.Name, v, arg)
			if err != nil {
				return err
			}
		}
		s, ok := v.Printed()
		if !ok {
			return ErrSkip
		}
		b.WriteString(s)
	case Autoescape:
		old := it.autoescape
		it.autoescape = n.On
		err := it.exec(n.Body, e, b)
		it.autoescape = old
		return err
	default:
		return ErrSkip
	}
	return nil
}

func (it *Interp) execFor(n For, e *env, b *strings.Builder) error {
	sc := e.child() // one scope per execution of the loop, shared by its iterations
	var parent *Loop
	if pl, ok := sc.vars["forloop"]; ok && pl.K == KLoop {
		parent = pl.Loop
	}
	over, err := it.eval(n.Over, sc)
	if err != nil {
		return err
	}
	type kv struct{ k, v V }
	var items []kv
	hasVal := false
	switch over.K {
	case KList:
		vs := append([]V{}, over.L...)
		if n.Sorted {
			for _, x := range vs {
				if _, ok := x.Printed(); !ok {
					return ErrSkip
				}
			}
			sortVals(vs)
			if n.Reversed {
				for i, j := 0, len(vs)-1; i < j; i, j = i+1, j-1 {
					vs[i], vs[j] = vs[j], vs[i]
				}
			}
		} else if n.Reversed {
			for i, j := 0, len(vs)-1; i < j; i, j = i+1, j-1 {
				vs[i], vs[j] = vs[j], vs[i]
			}
		}
		for _, x := range vs {
			items = append(items, kv{k: x})
		}
	case KStr:
		rs := []rune(over.S)
		if n.Sorted {
			sort.SliceStable(rs, func(i, j int) bool { return rs[i] < rs[j] })
		}
		if n.Reversed {
			for i, j := 0, len(rs)-1; i < j; i, j = i+1, j-1 {
				rs[i], rs[j] = rs[j], rs[i]
			}
		}
		for _, r := range rs {
			items = append(items, kv{k: StrV(string(r))})
		}
	case KMap:
		hasVal = true
		if len(over.MK) > 1 && !n.Sorted {
			return ErrSkip // Go map order
		}
		idx := make([]int, len(over.MK))
		for i := range idx {
			idx[i] = i
		}
		sort.SliceStable(idx, func(a, c int) bool { return over.MK[idx[a]] < over.MK[idx[c]] })
		if n.Reversed && n.Sorted {
			for i, j := 0, len(idx)-1; i < j; i, j = i+1, j-1 {
				idx[i], idx[j] = idx[j], idx[i]
			}
		}
		for _, i := range idx {
			items = append(items, kv{k: StrV(over.MK[i]), v: over.L[i]})
		}
	default:
		// nil, numbers, bools...: nothing to iterate
	}
	if len(items) == 0 {
		if n.HasEmpty {
			// the loop's own record is visible in `empty`; only its Parentloop link is specified
			sc.vars["forloop"] = V{K: KLoop, Loop: &Loop{Parent: parent, EmptyRec: true}}
			return it.exec(n.Empty, sc, b)
		}
		return nil
	}
	if it.IfChangedPerLoop {
		// alternative reading (Django): an ifchanged inside a loop forgets its state when the loop starts again
		for _, ic := range collectIfChanged(n.Body) {
			delete(it.ifchSeen, ic)
			delete(it.ifchLast, ic)
			delete(it.ifchBody, ic)
		}
	}
	cnt := len(items)
	li := &Loop{Parent: parent}
	sc.vars["forloop"] = V{K: KLoop, Loop: li}
	for i, item := range items {
		sc.vars[n.Key] = item.k
		if n.Val != "" && hasVal {
			sc.vars[n.Val] = item.v
		}
		// a fresh record per iteration would be observably the same; keep one and update it
		*li = Loop{Counter: i + 1, Counter0: i, Revcounter: cnt - i, Revcounter0: cnt - i - 1, First: i == 0, Last: i == cnt-1, Parent: parent}
		if err := it.exec(n.Body, sc, b); err != nil {
			return err
		}
	}
	return nil
}

func collectIfChanged(ns []Node) []*IfChanged {
	var out []*IfChanged
	var walk func(ns []Node)
	walk = func(ns []Node) {
		for _, n := range ns {
			switch n := n.(type) {
			case *IfChanged:
				out = append(out, n)
				walk(n.Then)
				walk(n.Else)
			case If:
				for _, b := range n.Bodies {
					walk(b)
				}
				walk(n.Else)
			case IfEq:
				walk(n.Then)
				walk(n.Else)
			case For:
				walk(n.Body)
				walk(n.Empty)
			case With:
				walk(n.Body)
			case FilterTag:
				walk(n.Body)
			case Autoescape:
				walk(n.Body)
			}
		}
	}
	walk(ns)
	return out
}
