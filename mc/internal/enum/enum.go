// Package enum holds small deterministic bounded-exhaustive enumerators.
package enum

// Strings calls f with every string of length 0..maxLen over the symbols
// (symbols may be multi-byte), shortest first, in lexicographic symbol order.
// f returns false to stop.
func Strings(symbols []string, maxLen int, f func(s string, idx []int) bool) {
	idx := make([]int, 0, maxLen)
	buf := make([]byte, 0, 64)
	for n := 0; n <= maxLen; n++ {
		if !stringsN(symbols, n, idx, buf, f) {
			return
		}
	}
}

func stringsN(symbols []string, n int, idx []int, buf []byte, f func(string, []int) bool) bool {
	if n == 0 {
		return f(string(buf), idx)
	}
	for i, s := range symbols {
		if !stringsN(symbols, n-1, append(idx, i), append(buf, s...), f) {
			return false
		}
	}
	return true
}

// Tuples calls f with every index tuple of exactly n positions over k values.
func Tuples(k, n int, f func(idx []int) bool) {
	idx := make([]int, n)
	var rec func(p int) bool
	rec = func(p int) bool {
		if p == n {
			return f(idx)
		}
		for i := 0; i < k; i++ {
			idx[p] = i
			if !rec(p + 1) {
				return false
			}
		}
		return true
	}
	rec(0)
}

// Seqs calls f with every index sequence of length 0..maxLen over k values, shortest first.
func Seqs(k, maxLen int, f func(idx []int) bool) {
	for n := 0; n <= maxLen; n++ {
		stop := false
		Tuples(k, n, func(idx []int) bool {
			if !f(idx) {
				stop = true
				return false
			}
			return true
		})
		if stop {
			return
		}
	}
}

// Subsets calls f with every subset (as bitmask) of n elements.
func Subsets(n int, f func(mask int) bool) {
	for m := 0; m < 1<<n; m++ {
		if !f(m) {
			return
		}
	}
}

// Mixed calls f with every tuple where position i ranges over 0..dims[i]-1.
func Mixed(dims []int, f func(idx []int) bool) {
	idx := make([]int, len(dims))
	var rec func(p int) bool
	rec = func(p int) bool {
		if p == len(dims) {
			return f(idx)
		}
		for i := 0; i < dims[p]; i++ {
			idx[p] = i
			if !rec(p + 1) {
				return false
			}
		}
		return true
	}
	rec(0)
}
