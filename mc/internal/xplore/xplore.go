//go:build verifinst

// Package xplore is the preemption-bounded DFS over schedules of the controlled scheduler
// (vsched, injected into the pongo2 build by the overlay). Only built into mc-inst.
package xplore

import (
	"fmt"
	"runtime"
	"runtime/debug"
	"strings"

	"github.com/flosch/pongo2/v6/vsched"
)

// Scenario builds a FRESH shared state and returns the thread bodies operating on it.
type Scenario struct {
	Name string
	// Make returns the bodies, the address ranges of shared memory (stores into them are scheduling
	// points; nil = every instrumented store) and a judge for one execution.
	Make func() (bodies []func() any, shared [][2]uintptr, judge func(results []any) string)
	// Rescan (optional) is called with the index of the execution's Make call... no: it recomputes the shared ranges
	// of the CURRENT execution (the scenario keeps the roots of its latest Make); see vsched.Options.Rescan
	Rescan func() [][2]uintptr
}

type Finding struct {
	Kind     string // race, diverges, deadlock, panic, nondeterministic
	Key      string
	Desc     string
	Schedule []int
}

type Stats struct {
	Schedules   int
	Points      int
	MaxPoints   int
	Rescans     int // re-computations of the shared address set after stores into shared memory
	Bound       int
	Complete    bool // the bound was explored completely (no cap hit)
	Findings    []Finding
	DistinctOut map[string]bool
	// DistinctTraces: different event orders actually executed (a guard against vacuous exploration)
	DistinctTraces map[uint64]bool // FNV-1a of the event order
}

// Explore runs all schedules of the scenario up to the preemption bound (iteratively 0..bound).
func Explore(sc Scenario, bound, maxSchedules int, heartbeat func()) *Stats {
	st := &Stats{Bound: bound, Complete: true, DistinctOut: map[string]bool{}, DistinctTraces: map[uint64]bool{}}
	seenKeys := map[string]bool{}
	stop := false // a decisive finding ends the exploration of this scenario (the remaining schedules cannot change the verdict)
	add := func(f Finding) {
		if f.Kind != "race" && f.Kind != "nondeterministic" {
			stop = true
		}
		if !seenKeys[f.Key] {
			seenKeys[f.Key] = true
			st.Findings = append(st.Findings, f)
		}
	}
	old := debug.SetGCPercent(-1)
	defer debug.SetGCPercent(old)
	runOne := func(prefix []int) *vsched.Exploration {
		bodies, shared, judge := sc.Make()
		x := vsched.Run(bodies, prefix, vsched.Options{Shared: shared, Rescan: sc.Rescan})
		st.Rescans += x.Rescans
		st.Schedules++
		st.Points += len(x.Points)
		if len(x.Points) > st.MaxPoints {
			st.MaxPoints = len(x.Points)
		}
		if st.Schedules%64 == 0 {
			runtime.GC()
			if heartbeat != nil {
				heartbeat()
			}
		}
		st.DistinctTraces[traceHash(x.Trace)] = true
		choices := make([]int, len(x.Points))
		for i, p := range x.Points {
			choices[i] = p.Chosen
		}
		if x.Diverged != "" {
			add(Finding{Kind: "nondeterministic", Key: "harness:nondeterministic-replay", Desc: x.Diverged, Schedule: choices})
		}
		if x.Deadlock {
			add(Finding{Kind: "deadlock", Key: "deadlock:" + sc.Name, Desc: "no enabled thread: " + x.DeadlockInfo + " trace: " + tail(x.Trace), Schedule: choices})
			return x
		}
		if x.Aborted {
			add(Finding{Kind: "livelock", Key: "livelock:" + sc.Name, Desc: "step cap hit; trace tail: " + tail(x.Trace), Schedule: choices})
			return x
		}
		for _, r := range x.Races {
			k := r.Site1 + "|" + r.Site2
			if r.Site2 < r.Site1 {
				k = r.Site2 + "|" + r.Site1
			}
			add(Finding{Kind: "race", Key: "race:" + k, Desc: fmt.Sprintf("unsynchronised conflicting accesses: thread %d %s %s, thread %d %s %s (scenario %s)", r.T1, rw(r.Write1), r.Site1, r.T2, rw(r.Write2), r.Site2, sc.Name), Schedule: choices})
		}
		res := x.Results()
		st.DistinctOut[fmt.Sprint(res)] = true
		for _, rr := range res {
			if s, ok := rr.(string); ok && strings.HasPrefix(s, "PANIC:") {
				add(Finding{Kind: "panic", Key: "panic:" + sc.Name, Desc: s, Schedule: choices})
			}
		}
		if why := judge(res); why != "" {
			add(Finding{Kind: "diverges", Key: "diverges:" + sc.Name, Desc: why + " | trace: " + tail(x.Trace), Schedule: choices})
		}
		return x
	}
	// determinism: the default schedule twice
	a := runOne(nil)
	b := runOne(nil)
	if traceHash(a.Trace) != traceHash(b.Trace) {
		add(Finding{Kind: "nondeterministic", Key: "harness:nondeterministic:" + sc.Name, Desc: "the default schedule produced two different event traces: " + tail(a.Trace) + " VS " + tail(b.Trace)})
		st.Complete = false
		return st
	}
	var rec func(prefix []int, x *vsched.Exploration)
	rec = func(prefix []int, x *vsched.Exploration) {
		for i := len(prefix); i < len(x.Points); i++ {
			p := x.Points[i]
			if len(p.Enabled) < 2 {
				continue
			}
			cost := x.PreemptionsBefore(i)
			if p.RunningStillEnabled {
				cost++
			}
			if cost > bound {
				continue
			}
			for alt := 1; alt < len(p.Enabled); alt++ {
				if st.Schedules >= maxSchedules || stop {
					st.Complete = false
					return
				}
				np := make([]int, i+1)
				for k := 0; k < i; k++ {
					np[k] = x.Points[k].Chosen
				}
				np[i] = alt
				nx := runOne(np)
				rec(np, nx)
			}
		}
	}
	rec(nil, a)
	return st
}

func rw(w bool) string {
	if w {
		return "writes"
	}
	return "reads"
}

func tail(tr []string) string {
	if len(tr) > 14 {
		tr = tr[len(tr)-14:]
	}
	return strings.Join(tr, " ; ")
}

func traceHash(tr []string) uint64 {
	h := uint64(14695981039346656037)
	for _, e := range tr {
		for i := 0; i < len(e); i++ {
			h = (h ^ uint64(e[i])) * 1099511628211
		}
		h = (h ^ ';') * 1099511628211
	}
	return h
}
