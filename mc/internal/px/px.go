// Package px wraps the pongo2 API for the checks: in-memory loaders, rendering
// with panic capture, and small helpers shared by all properties.
package px

import (
	"errors"
	"fmt"
	"io"
	"path"
	"runtime/debug"
	"strings"
	"sync"

	"github.com/flosch/pongo2/v6"

	"verifmc/internal/eng"
)

// MemLoader is an in-memory TemplateLoader that records every call.
// Abs(base,name): name cleaned if rooted, else dir(base)/name cleaned ("" base = root).
type MemLoader struct {
	mu    sync.Mutex
	Files map[string]string
	Log   []string // "abs base name -> result", "get path ok|miss"
	Gets  map[string]int
	Tag   string
	// OnGet, if set, is called at the start of every Get (I/O seam).
	OnGet func(path string)
	// Fail makes Get of that path return an error even if the file exists.
	Fail map[string]bool
}

func NewMemLoader(files map[string]string) *MemLoader {
	return &MemLoader{Files: files, Gets: map[string]int{}}
}

func AbsRule(base, name string) string {
	if strings.HasPrefix(name, "/") {
		return path.Clean(name)
	}
	if base == "" {
		return path.Clean("/" + name)
	}
	return path.Clean(path.Join(path.Dir(base), name))
}

func (l *MemLoader) Abs(base, name string) string {
	r := AbsRule(base, name)
	l.mu.Lock()
	l.Log = append(l.Log, fmt.Sprintf("%sabs %q %q", l.Tag, base, name))
	l.mu.Unlock()
	return r
}

func (l *MemLoader) Get(p string) (io.Reader, error) {
	if l.OnGet != nil {
		l.OnGet(p)
	}
	l.mu.Lock()
	defer l.mu.Unlock()
	l.Gets[p]++
	s, ok := l.Files[p]
	if !ok || l.Fail[p] {
		l.Log = append(l.Log, fmt.Sprintf("%sget %q miss", l.Tag, p))
		return nil, errors.New("memloader: no such template: " + p)
	}
	l.Log = append(l.Log, fmt.Sprintf("%sget %q ok", l.Tag, p))
	return strings.NewReader(s), nil
}

func (l *MemLoader) ResetLog() {
	l.mu.Lock()
	l.Log = nil
	l.Gets = map[string]int{}
	l.mu.Unlock()
}

// NewSet returns a fresh template set over one in-memory loader.
func NewSet(files map[string]string) (*pongo2.TemplateSet, *MemLoader) {
	if files == nil {
		files = map[string]string{}
	}
	l := NewMemLoader(files)
	return pongo2.NewSet("verif", l), l
}

// Out is the observable result of compile+execute.
type Out struct {
	S        string
	Err      string // error text ("" if none)
	Compile  bool   // the error happened at compile time
	Panic    string // "site:msgclass" if the engine panicked
	PanicMsg string
	PErr     *pongo2.Error
}

func (o Out) Failed() bool { return o.Err != "" || o.Panic != "" }

// Kind is a coarse outcome class: ok / compile-error / exec-error / panic.
func (o Out) Kind() string {
	switch {
	case o.Panic != "":
		return "panic"
	case o.Err != "" && o.Compile:
		return "compile-error"
	case o.Err != "":
		return "exec-error"
	}
	return "ok"
}

func (o Out) String() string {
	switch o.Kind() {
	case "ok":
		return fmt.Sprintf("ok %q", o.S)
	case "panic":
		return "panic " + o.Panic + " " + o.PanicMsg
	}
	return o.Kind() + " " + o.Err
}

// Compile compiles src in set, capturing panics.
func Compile(set *pongo2.TemplateSet, src string) (tpl *pongo2.Template, out Out) {
	defer func() {
		if p := recover(); p != nil {
			site, msg := eng.PanicSite(p, debug.Stack())
			out.Panic = site + ":" + msg
			out.PanicMsg = fmt.Sprint(p)
			out.Compile = true
			tpl = nil
		}
	}()
	t, err := set.FromString(src)
	if err != nil {
		out.Err = err.Error()
		out.Compile = true
		if pe, ok := err.(*pongo2.Error); ok {
			out.PErr = pe
		}
		return nil, out
	}
	if t == nil {
		out.Err = "nil template without error"
		out.Compile = true
	}
	return t, out
}

// CompileFile compiles a named file of the set.
func CompileFile(set *pongo2.TemplateSet, name string) (tpl *pongo2.Template, out Out) {
	defer func() {
		if p := recover(); p != nil {
			site, msg := eng.PanicSite(p, debug.Stack())
			out.Panic = site + ":" + msg
			out.PanicMsg = fmt.Sprint(p)
			out.Compile = true
			tpl = nil
		}
	}()
	t, err := set.FromFile(name)
	if err != nil {
		out.Err = err.Error()
		out.Compile = true
		if pe, ok := err.(*pongo2.Error); ok {
			out.PErr = pe
		}
		return nil, out
	}
	return t, out
}

// Exec executes a compiled template, capturing panics.
func Exec(tpl *pongo2.Template, ctx pongo2.Context) (out Out) {
	defer func() {
		if p := recover(); p != nil {
			site, msg := eng.PanicSite(p, debug.Stack())
			out.Panic = site + ":" + msg
			out.PanicMsg = fmt.Sprint(p)
		}
	}()
	s, err := tpl.Execute(ctx)
	if err != nil {
		out.Err = err.Error()
		if pe, ok := err.(*pongo2.Error); ok {
			out.PErr = pe
		}
		return out
	}
	out.S = s
	return out
}

// Render compiles src in a fresh set (with files) and executes it once.
func Render(files map[string]string, src string, ctx pongo2.Context) Out {
	set, _ := NewSet(files)
	return RenderIn(set, src, ctx)
}

// RenderBytesScribbled compiles src through FromBytes from a caller-owned buffer, overwrites the buffer after the
// compilation (the caller owns it and may reuse it) and executes the template afterwards.
func RenderBytesScribbled(set *pongo2.TemplateSet, src string, ctx pongo2.Context) (out Out) {
	buf := []byte(src)
	var tpl *pongo2.Template
	var err error
	func() {
		defer func() {
			if p := recover(); p != nil {
				out.Panic = fmt.Sprint(p)
				out.PanicMsg = fmt.Sprint(p)
			}
		}()
		tpl, err = set.FromBytes(buf)
	}()
	if out.Panic != "" {
		return out
	}
	if err != nil {
		out.Err = err.Error()
		out.Compile = true
		return out
	}
	for i := range buf {
		buf[i] = '#'
	}
	return Exec(tpl, ctx)
}

func RenderIn(set *pongo2.TemplateSet, src string, ctx pongo2.Context) Out {
	tpl, out := Compile(set, src)
	if tpl == nil {
		return out
	}
	return Exec(tpl, ctx)
}

// RenderFile compiles the named file in a fresh set and executes it.
func RenderFile(files map[string]string, name string, ctx pongo2.Context) Out {
	set, _ := NewSet(files)
	tpl, out := CompileFile(set, name)
	if tpl == nil {
		return out
	}
	return Exec(tpl, ctx)
}
