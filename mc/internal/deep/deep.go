// Package deep walks everything reachable from a Go value (including
// unexported fields, through unsafe) and produces a canonical snapshot:
// a map from access path to a rendered leaf value. Two snapshots of the same
// object graph taken at different times can be compared to find mutations;
// the snapshot's hash is a canonical state identity.
package deep

import (
	"fmt"
	"hash/fnv"
	"reflect"
	"sort"
	"strconv"
	"strings"
	"unsafe"
)

// opaque types are compared by identity only: their internals legitimately change
var opaquePkgs = []string{"px.MemLoader", "sync.", "regexp.", "log.", "os.", "io.", "time.Location", "reflect.rtype", "*reflect.rtype", "sync/atomic."}

func isOpaque(t reflect.Type) bool {
	s := t.String()
	for _, p := range opaquePkgs {
		if strings.HasPrefix(strings.TrimPrefix(s, "*"), p) {
			return true
		}
	}
	return false
}

type Snapshot struct {
	Leaves map[string]string
	order  []string
	ids    map[uintptr]int
}

type walker struct {
	s     *Snapshot
	seen  map[visit]int
	limit int
}

type visit struct {
	p uintptr
	t reflect.Type
}

// Take snapshots everything reachable from the given roots.
func Take(roots map[string]any) *Snapshot {
	s := &Snapshot{Leaves: map[string]string{}}
	w := &walker{s: s, seen: map[visit]int{}, limit: 2000000}
	var names []string
	for k := range roots {
		names = append(names, k)
	}
	sort.Strings(names)
	for _, n := range names {
		w.walk(n, reflect.ValueOf(roots[n]))
	}
	return s
}

func (w *walker) leaf(path, v string) {
	if len(w.s.Leaves) >= w.limit {
		return
	}
	if _, dup := w.s.Leaves[path]; !dup {
		w.s.order = append(w.s.order, path)
	}
	w.s.Leaves[path] = v
}

// access makes an unexported/unaddressable value readable
func access(v reflect.Value) reflect.Value {
	if !v.IsValid() {
		return v
	}
	if v.CanInterface() {
		return v
	}
	if v.CanAddr() {
		return reflect.NewAt(v.Type(), unsafe.Pointer(v.UnsafeAddr())).Elem()
	}
	// copy into addressable memory, then lift the read-only flag
	c := reflect.New(v.Type()).Elem()
	// c.Set(v) would panic for read-only v: copy bytes kind by kind through unsafe where possible
	switch v.Kind() {
	case reflect.Bool:
		c.SetBool(v.Bool())
	case reflect.Int, reflect.Int8, reflect.Int16, reflect.Int32, reflect.Int64:
		c.SetInt(v.Int())
	case reflect.Uint, reflect.Uint8, reflect.Uint16, reflect.Uint32, reflect.Uint64, reflect.Uintptr:
		c.SetUint(v.Uint())
	case reflect.Float32, reflect.Float64:
		c.SetFloat(v.Float())
	case reflect.String:
		c.SetString(v.String())
	default:
		return v
	}
	return c
}

func (w *walker) walk(path string, v reflect.Value) {
	if len(w.s.Leaves) >= w.limit {
		return
	}
	if !v.IsValid() {
		w.leaf(path, "<invalid>")
		return
	}
	t := v.Type()
	if t == reflect.TypeOf(reflect.Value{}) {
		// a reflect.Value stored in a struct: look at what it holds, by value for scalars, by identity otherwise
		av := access(v)
		if av.CanInterface() {
			rv := av.Interface().(reflect.Value)
			w.leaf(path, describeRV(rv))
		} else {
			w.leaf(path, "<reflect.Value>")
		}
		return
	}
	if isOpaque(t) {
		w.leaf(path, "<opaque "+t.String()+">")
		return
	}
	switch v.Kind() {
	case reflect.Bool:
		w.leaf(path, strconv.FormatBool(v.Bool()))
	case reflect.Int, reflect.Int8, reflect.Int16, reflect.Int32, reflect.Int64:
		w.leaf(path, strconv.FormatInt(v.Int(), 10))
	case reflect.Uint, reflect.Uint8, reflect.Uint16, reflect.Uint32, reflect.Uint64, reflect.Uintptr:
		w.leaf(path, strconv.FormatUint(v.Uint(), 10))
	case reflect.Float32, reflect.Float64:
		w.leaf(path, strconv.FormatFloat(v.Float(), 'g', -1, 64))
	case reflect.Complex64, reflect.Complex128:
		w.leaf(path, fmt.Sprint(v.Complex()))
	case reflect.String:
		w.leaf(path, strconv.Quote(v.String()))
	case reflect.Func:
		if v.IsNil() {
			w.leaf(path, "func(nil)")
		} else {
			w.leaf(path, fmt.Sprintf("func@%x", v.Pointer()))
		}
	case reflect.Chan, reflect.UnsafePointer:
		w.leaf(path, fmt.Sprintf("%s@%x", v.Kind(), v.Pointer()))
	case reflect.Ptr:
		if v.IsNil() {
			w.leaf(path, "nil")
			return
		}
		key := visit{v.Pointer(), t}
		if id, ok := w.seen[key]; ok {
			_ = id
			w.leaf(path, fmt.Sprintf("->@%x", v.Pointer()))
			return
		}
		id := len(w.seen) + 1
		w.seen[key] = id
		// identity by address: stable between two snapshots of the same object graph in one process
		w.leaf(path, fmt.Sprintf("&@%x", v.Pointer()))
		w.walk(path+"<"+t.String()+">", v.Elem())
	case reflect.Interface:
		if v.IsNil() {
			w.leaf(path, "nil-interface")
			return
		}
		w.walk(path, access(v).Elem())
	case reflect.Struct:
		for i := 0; i < v.NumField(); i++ {
			f := v.Field(i)
			w.walk(path+"."+t.Field(i).Name, accessField(v, i, f))
		}
	case reflect.Slice:
		if v.IsNil() {
			w.leaf(path, "nil-slice")
			return
		}
		w.leaf(path+".len", strconv.Itoa(v.Len()))
		for i := 0; i < v.Len(); i++ {
			w.walk(path+"["+strconv.Itoa(i)+"]", v.Index(i))
		}
	case reflect.Array:
		for i := 0; i < v.Len(); i++ {
			w.walk(path+"["+strconv.Itoa(i)+"]", v.Index(i))
		}
	case reflect.Map:
		if v.IsNil() {
			w.leaf(path, "nil-map")
			return
		}
		w.leaf(path+".len", strconv.Itoa(v.Len()))
		type kv struct {
			k string
			v reflect.Value
		}
		var items []kv
		iter := v.MapRange()
		for iter.Next() {
			items = append(items, kv{keyString(iter.Key()), iter.Value()})
		}
		sort.Slice(items, func(i, j int) bool { return items[i].k < items[j].k })
		for _, it := range items {
			w.walk(path+"{"+it.k+"}", it.v)
		}
	default:
		w.leaf(path, "<"+v.Kind().String()+">")
	}
}

func accessField(parent reflect.Value, i int, f reflect.Value) reflect.Value {
	if f.CanInterface() {
		return f
	}
	if f.CanAddr() {
		return reflect.NewAt(f.Type(), unsafe.Pointer(f.UnsafeAddr())).Elem()
	}
	// parent not addressable: copy the parent into addressable memory first
	if parent.CanInterface() || true {
		pc := reflect.New(parent.Type()).Elem()
		func() {
			defer func() { recover() }()
			pc.Set(parent)
		}()
		ff := pc.Field(i)
		return reflect.NewAt(ff.Type(), unsafe.Pointer(ff.UnsafeAddr())).Elem()
	}
	return f
}

func keyString(k reflect.Value) string {
	k = access(k)
	switch k.Kind() {
	case reflect.String:
		return strconv.Quote(k.String())
	case reflect.Int, reflect.Int8, reflect.Int16, reflect.Int32, reflect.Int64:
		return strconv.FormatInt(k.Int(), 10)
	case reflect.Ptr, reflect.Func, reflect.Chan:
		return fmt.Sprintf("%s@%x", k.Type(), k.Pointer())
	case reflect.Interface:
		if k.IsNil() {
			return "nil"
		}
		return keyString(k.Elem())
	}
	if k.CanInterface() {
		return fmt.Sprintf("%v", k.Interface())
	}
	return "<key>"
}

func describeRV(rv reflect.Value) string {
	if !rv.IsValid() {
		return "rv:invalid"
	}
	switch rv.Kind() {
	case reflect.Bool:
		return "rv:" + strconv.FormatBool(rv.Bool())
	case reflect.Int, reflect.Int8, reflect.Int16, reflect.Int32, reflect.Int64:
		return "rv:" + strconv.FormatInt(rv.Int(), 10)
	case reflect.Uint, reflect.Uint8, reflect.Uint16, reflect.Uint32, reflect.Uint64:
		return "rv:" + strconv.FormatUint(rv.Uint(), 10)
	case reflect.Float32, reflect.Float64:
		return "rv:" + strconv.FormatFloat(rv.Float(), 'g', -1, 64)
	case reflect.String:
		return "rv:" + strconv.Quote(rv.String())
	case reflect.Ptr, reflect.Map, reflect.Slice, reflect.Func, reflect.Chan:
		if rv.IsNil() {
			return "rv:nil " + rv.Type().String()
		}
		return fmt.Sprintf("rv:%s@%x", rv.Type(), rv.Pointer())
	}
	return "rv:<" + rv.Type().String() + ">"
}

// Hash is a canonical hash of the snapshot.
func (s *Snapshot) Hash() uint64 {
	keys := make([]string, 0, len(s.Leaves))
	for k := range s.Leaves {
		keys = append(keys, k)
	}
	sort.Strings(keys)
	h := fnv.New64a()
	for _, k := range keys {
		h.Write([]byte(k))
		h.Write([]byte{0})
		h.Write([]byte(s.Leaves[k]))
		h.Write([]byte{1})
	}
	return h.Sum64()
}

// Diff lists the paths whose leaf differs (or exists on one side only), up to max entries, in stable order.
func Diff(a, b *Snapshot, max int) []string {
	var out []string
	keys := map[string]bool{}
	for k := range a.Leaves {
		keys[k] = true
	}
	for k := range b.Leaves {
		keys[k] = true
	}
	var ks []string
	for k := range keys {
		ks = append(ks, k)
	}
	sort.Strings(ks)
	for _, k := range ks {
		av, aok := a.Leaves[k]
		bv, bok := b.Leaves[k]
		if aok && bok && av == bv {
			continue
		}
		if !aok {
			av = "<absent>"
		}
		if !bok {
			bv = "<absent>"
		}
		out = append(out, fmt.Sprintf("%s: %s -> %s", k, av, bv))
		if len(out) >= max {
			break
		}
	}
	return out
}

// FieldOf extracts "<type>.field" from a diff path for use as a violation key.
func FieldOf(diffLine string) string {
	p := diffLine
	if i := strings.Index(p, ": "); i >= 0 {
		p = p[:i]
	}
	// last "<...>" type marker and the field path after it
	ti := strings.LastIndex(p, "<")
	if ti < 0 {
		return p
	}
	te := strings.Index(p[ti:], ">")
	if te < 0 {
		return p
	}
	typ := strings.TrimPrefix(p[ti+1:ti+te], "*")
	if j := strings.LastIndex(typ, "."); j >= 0 {
		typ = typ[j+1:]
	}
	rest := p[ti+te+1:]
	// drop indices
	var b strings.Builder
	depth := 0
	for _, c := range rest {
		switch c {
		case '[', '{':
			depth++
		case ']', '}':
			depth--
		default:
			if depth == 0 {
				b.WriteRune(c)
			}
		}
	}
	return typ + b.String()
}

// Size is the number of leaves (for evidence).
func (s *Snapshot) Size() int { return len(s.Leaves) }

// Ranges returns the address ranges of every heap object reachable from the roots
// (pointer targets, slice backing arrays; a map counts as one address: its header pointer).
func Ranges(roots map[string]any) [][2]uintptr {
	var out [][2]uintptr
	seen := map[visit]bool{}
	var walk func(v reflect.Value, depth int)
	walk = func(v reflect.Value, depth int) {
		if !v.IsValid() || depth > 200 {
			return
		}
		t := v.Type()
		if t == reflect.TypeOf(reflect.Value{}) {
			return
		}
		switch v.Kind() {
		case reflect.Ptr:
			if v.IsNil() {
				return
			}
			key := visit{v.Pointer(), t}
			if seen[key] {
				return
			}
			seen[key] = true
			sz := t.Elem().Size()
			if sz == 0 {
				sz = 1
			}
			out = append(out, [2]uintptr{v.Pointer(), v.Pointer() + sz})
			if isOpaque(t) {
				return
			}
			walk(v.Elem(), depth+1)
		case reflect.Interface:
			if !v.IsNil() {
				walk(access(v).Elem(), depth+1)
			}
		case reflect.Struct:
			if isOpaque(t) {
				return
			}
			for i := 0; i < v.NumField(); i++ {
				walk(accessField(v, i, v.Field(i)), depth+1)
			}
		case reflect.Slice:
			if v.IsNil() || v.Len() == 0 {
				return
			}
			key := visit{v.Pointer(), t}
			if seen[key] {
				return
			}
			seen[key] = true
			out = append(out, [2]uintptr{v.Pointer(), v.Pointer() + uintptr(v.Cap())*t.Elem().Size() + 1})
			for i := 0; i < v.Len(); i++ {
				walk(v.Index(i), depth+1)
			}
		case reflect.Array:
			for i := 0; i < v.Len(); i++ {
				walk(v.Index(i), depth+1)
			}
		case reflect.Map:
			if v.IsNil() {
				return
			}
			key := visit{v.Pointer(), t}
			if seen[key] {
				return
			}
			seen[key] = true
			out = append(out, [2]uintptr{v.Pointer(), v.Pointer() + 1})
			iter := v.MapRange()
			for iter.Next() {
				walk(iter.Value(), depth+1)
			}
		}
	}
	for _, r := range roots {
		walk(reflect.ValueOf(r), 0)
	}
	return out
}
