// Package univ builds Go values for template contexts from a small
// JSON-serialisable model tree, so that reference models work on the model
// and the implementation on the Go value built from it.
package univ

import (
	"fmt"
	"reflect"
	"strconv"
	"strings"
	"time"
)

// M is a model value.
//
//	K: nil str int int8 int16 int32 int64 uint uint8 uint16 uint32 uint64 float float32 bool
//	   slice (of any) ints (typed []int) strs ([]string) array (typed [n]int, by value) parray (*[n]int)
//	   map (map[string]any) imap (map[int]any) time named
type M struct {
	K string  `json:"k"`
	S string  `json:"s,omitempty"`
	I int64   `json:"i,omitempty"`
	U uint64  `json:"u,omitempty"`
	F float64 `json:"f,omitempty"`
	B bool    `json:"b,omitempty"`
	L []M     `json:"l,omitempty"`
	// map keys (strings for map, decimal for imap), parallel to L
	Keys []string `json:"keys,omitempty"`
}

func Nil() M { return M{K: "nil"} }

// NilPtr is nothing, handed over as a nil pointer to the given type ("int", "str", "struct").
func NilPtr(typ string) M { return M{K: "nil", S: typ} }
func Str(s string) M      { return M{K: "str", S: s} }
func Int(i int) M         { return M{K: "int", I: int64(i)} }
func Float(f float64) M   { return M{K: "float", F: f} }
func Bool(b bool) M       { return M{K: "bool", B: b} }
func Ints(v ...int) M {
	m := M{K: "ints"}
	for _, i := range v {
		m.L = append(m.L, Int(i))
	}
	return m
}
func Strs(v ...string) M {
	m := M{K: "strs"}
	for _, s := range v {
		m.L = append(m.L, Str(s))
	}
	return m
}
func Array(v ...int) M  { m := Ints(v...); m.K = "array"; return m }
func PArray(v ...int) M { m := Ints(v...); m.K = "parray"; return m }
func Slice(v ...M) M    { return M{K: "slice", L: v} }
func Map(kv ...any) M {
	m := M{K: "map"}
	for i := 0; i+1 < len(kv); i += 2 {
		m.Keys = append(m.Keys, kv[i].(string))
		m.L = append(m.L, kv[i+1].(M))
	}
	return m
}
func Time(unix int64) M   { return M{K: "time", I: unix} }
func Named(name string) M { return M{K: "named", S: name} }

var named = map[string]func() any{}

// RegisterNamed registers a Go value recipe for K="named".
func RegisterNamed(name string, mk func() any) { named[name] = mk }

func NamedNames() []string {
	var n []string
	for k := range named {
		n = append(n, k)
	}
	return n
}

// Go builds the Go value.
func (m M) Go() any {
	switch m.K {
	case "nil", "":
		// nothing - handed over as an untyped nil or (S = "int" / "str" / "struct") as a nil pointer of that type
		switch m.S {
		case "int":
			return (*int)(nil)
		case "str":
			return (*string)(nil)
		case "struct":
			return (*struct{ X int })(nil)
		}
		return nil
	case "str":
		return m.S
	case "int":
		return int(m.I)
	case "int8":
		return int8(m.I)
	case "int16":
		return int16(m.I)
	case "int32":
		return int32(m.I)
	case "int64":
		return m.I
	case "uint":
		return uint(m.U)
	case "uint8":
		return uint8(m.U)
	case "uint16":
		return uint16(m.U)
	case "uint32":
		return uint32(m.U)
	case "uint64":
		return m.U
	case "float":
		return m.F
	case "float32":
		return float32(m.F)
	case "bool":
		return m.B
	case "slice":
		out := make([]any, len(m.L))
		for i, e := range m.L {
			out[i] = e.Go()
		}
		return out
	case "ints":
		out := make([]int, len(m.L))
		for i, e := range m.L {
			out[i] = int(e.I)
		}
		return out
	case "strs":
		out := make([]string, len(m.L))
		for i, e := range m.L {
			out[i] = e.S
		}
		return out
	case "array", "parray":
		at := reflect.ArrayOf(len(m.L), reflect.TypeOf(int(0)))
		p := reflect.New(at)
		for i, e := range m.L {
			p.Elem().Index(i).SetInt(e.I)
		}
		if m.K == "parray" {
			return p.Interface()
		}
		return p.Elem().Interface()
	case "map":
		out := map[string]any{}
		for i, k := range m.Keys {
			out[k] = m.L[i].Go()
		}
		return out
	case "imap":
		out := map[int]any{}
		for i, k := range m.Keys {
			n, _ := strconv.Atoi(k)
			out[n] = m.L[i].Go()
		}
		return out
	case "time":
		return time.Unix(m.I, 0).UTC()
	case "named":
		mk := named[m.S]
		if mk == nil {
			panic("univ: unknown named value " + m.S)
		}
		return mk()
	}
	panic("univ: unknown kind " + m.K)
}

// String is a compact notation used in case ids.
func (m M) String() string {
	switch m.K {
	case "nil", "":
		if m.S != "" {
			return "(*" + m.S + ")(nil)"
		}
		return "nil"
	case "str":
		return strconv.QuoteToASCII(m.S)
	case "int", "int8", "int16", "int32", "int64":
		if m.K == "int" {
			return strconv.FormatInt(m.I, 10)
		}
		return m.K + "(" + strconv.FormatInt(m.I, 10) + ")"
	case "uint", "uint8", "uint16", "uint32", "uint64":
		return m.K + "(" + strconv.FormatUint(m.U, 10) + ")"
	case "float", "float32":
		s := strconv.FormatFloat(m.F, 'g', -1, 64)
		if !strings.ContainsAny(s, ".eIN") {
			s += ".0"
		}
		if m.K == "float32" {
			return "f32(" + s + ")"
		}
		return s
	case "bool":
		return strconv.FormatBool(m.B)
	case "slice", "ints", "strs", "array", "parray":
		var parts []string
		for _, e := range m.L {
			parts = append(parts, e.String())
		}
		pre := map[string]string{"slice": "[]any", "ints": "[]int", "strs": "[]string", "array": "[n]int", "parray": "&[n]int"}[m.K]
		return pre + "{" + strings.Join(parts, ",") + "}"
	case "map", "imap":
		var parts []string
		for i, k := range m.Keys {
			parts = append(parts, k+":"+m.L[i].String())
		}
		return m.K + "{" + strings.Join(parts, ",") + "}"
	case "time":
		return fmt.Sprintf("time(%d)", m.I)
	case "named":
		return "@" + m.S
	}
	return "?" + m.K
}
