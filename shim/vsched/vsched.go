// Package vsched is injected into the pongo2 build by `go build -overlay` (it never exists in /repo).
// It provides (1) drop-in replacements for the sync primitives pongo2 uses, which announce every
// operation to a cooperative scheduler, (2) the access hooks the source instrumenter inserts
// (W = store, R/RM = load) and (3) the controlled scheduler with preemption-bounded DFS support
// and a vector-clock race detector. Outside an exploration everything degrades to the real thing.
package vsched

import (
	"fmt"
	"runtime"
	"sort"
	realsync "sync"
	"sync/atomic"
	"unsafe"
)

// ---------------- exploration state ----------------

type thread struct {
	id      int
	resume  chan struct{}
	done    bool
	blocked *Mutex // waiting for this mutex
	onceW   *Once  // waiting for this Once to complete
	vc      []int  // vector clock
	started bool
	result  any
	panicV  any
	pending string // description of the operation the thread is about to perform
}

// Point is one scheduling decision.
type Point struct {
	Enabled             []int  // thread ids in canonical order (running thread first if enabled, then ascending)
	Chosen              int    // index into Enabled
	RunningStillEnabled bool   // the previously running thread is Enabled[0]
	Op                  string // what the chosen thread was about to do
}

type Race struct {
	Site1, Site2 string
	Write1       bool
	Write2       bool
	T1, T2       int
}

type access struct {
	tid   int
	clock int
	site  string
}

type shadow struct {
	w     access
	hasW  bool
	reads map[int]access // per thread last read
}

type Exploration struct {
	threads []*thread
	cur     *thread
	yield   chan *thread // a thread tells the scheduler it reached a point (or finished)
	prefix  []int
	Points  []Point
	Trace   []string
	Races   map[string]Race
	Deadlock bool
	DeadlockInfo string
	Diverged string
	shadow  map[uintptr]*shadow
	shared  []addrRange
	allShared bool
	// rescan recomputes the shared address ranges (objects published into shared structures while the threads
	// run become shared, too); dirty: a store into shared memory happened since the last rescan
	rescan  func() [][2]uintptr
	dirty   bool
	Rescans int
	maxRescans int
	mutexVC map[*Mutex][]int
	mutexID map[*Mutex]int
	atomicVC map[uintptr][]int
	onceVC  map[*Once][]int
	steps   int
	MaxSteps int
	Aborted bool
}

type addrRange struct{ lo, hi uintptr }

var active atomic.Pointer[Exploration]
var curThread atomic.Pointer[thread] // the thread holding the baton (only one runs at a time)

// ---------------- sync replacements ----------------

type Mutex struct {
	real   realsync.Mutex
	holder int32 // thread id+1 during an exploration, 0 = free
}

func (m *Mutex) Lock() {
	e := active.Load()
	t := curThread.Load()
	if e == nil || t == nil {
		m.real.Lock()
		return
	}
	for {
		e.point(t, "lock", e.mname(m))
		if m.holder == 0 {
			m.holder = int32(t.id + 1)
			// acquire: join the clock released by the last unlock
			if vc, ok := e.mutexVC[m]; ok {
				joinVC(t.vc, vc)
			}
			return
		}
		// held by somebody else: block until it is released
		t.blocked = m
		e.point(t, "blocked-on-lock", e.mname(m))
	}
}

func (m *Mutex) Unlock() {
	e := active.Load()
	t := curThread.Load()
	if e == nil || t == nil {
		m.real.Unlock()
		return
	}
	e.point(t, "unlock", e.mname(m))
	if m.holder != int32(t.id+1) {
		panic("vsched: unlock of a mutex not held by this thread")
	}
	m.holder = 0
	t.vc[t.id]++
	e.mutexVC[m] = append([]int{}, t.vc...)
	for _, o := range e.threads {
		if o.blocked == m {
			o.blocked = nil
		}
	}
}

func (m *Mutex) TryLock() bool {
	e := active.Load()
	t := curThread.Load()
	if e == nil || t == nil {
		return m.real.TryLock()
	}
	e.point(t, "trylock", e.mname(m))
	if m.holder == 0 {
		m.holder = int32(t.id + 1)
		if vc, ok := e.mutexVC[m]; ok {
			joinVC(t.vc, vc)
		}
		return true
	}
	return false
}

// RWMutex is modelled as an exclusive lock (sound for race detection and deadlock, coarser for interleavings).
type RWMutex struct{ Mutex }

func (m *RWMutex) RLock()   { m.Lock() }
func (m *RWMutex) RUnlock() { m.Unlock() }

type Once struct {
	real realsync.Once
	done bool
	m    Mutex
}

func (o *Once) Do(f func()) {
	e := active.Load()
	t := curThread.Load()
	if e == nil || t == nil {
		o.real.Do(f)
		return
	}
	o.m.Lock()
	defer o.m.Unlock()
	if !o.done {
		f()
		o.done = true
	}
}

type (
	WaitGroup = realsync.WaitGroup
	Pool      = realsync.Pool
	Map       = realsync.Map
	Cond      = realsync.Cond
	Locker    = realsync.Locker
)

// mname gives a mutex a name that is stable across executions (order of first use)
func (e *Exploration) mname(m *Mutex) string {
	id, ok := e.mutexID[m]
	if !ok {
		id = len(e.mutexID) + 1
		e.mutexID[m] = id
	}
	return fmt.Sprintf("mutex#%d", id)
}

// ---------------- access hooks ----------------

// W is inserted before every store that is not provably to a local variable.
func W[T any](p *T, site string) {
	e := active.Load()
	if e == nil {
		return
	}
	t := curThread.Load()
	if t == nil {
		return
	}
	a := uintptr(unsafe.Pointer(p))
	if e.isShared(a) {
		e.point(t, "store", site)
		e.dirty = true
	}
	e.record(t, a, true, site)
}

// R is wrapped around loads of fields through pointers, slice elements and package-level variables.
func R[T any](p *T, site string) *T {
	if e := active.Load(); e != nil {
		if t := curThread.Load(); t != nil {
			e.record(t, uintptr(unsafe.Pointer(p)), false, site)
		}
	}
	return p
}

// RWP is wrapped around the receiver of a method call on an object of a foreign type (bytes.Buffer, ...):
// the call counts as a write to the object.
func RWP[T any](p *T, site string) *T {
	e := active.Load()
	if e == nil {
		return p
	}
	t := curThread.Load()
	if t == nil {
		return p
	}
	a := uintptr(unsafe.Pointer(p))
	if a != 0 && e.isShared(a) {
		e.point(t, "foreign-call", site)
	}
	e.record(t, a, true, site)
	return p
}

// AP is wrapped around the first operand of append: when the n appended elements fit into the capacity they are
// written into the existing backing array (a store the assignment hooks do not see).
func AP[S ~[]T, T any](s S, n int, site string) S {
	if active.Load() != nil && n > 0 && len(s)+n <= cap(s) {
		W(&s[:cap(s)][len(s)], site)
	}
	return s
}

// CPW is wrapped around the destination of copy.
func CPW[S ~[]T, T any](dst S, n int, site string) S {
	if active.Load() != nil && n > 0 && len(dst) > 0 {
		W(&dst[0], site)
	}
	return dst
}

// AtomicP is wrapped around the address operand of a sync/atomic call: a scheduling point (if the word is
// shared) and a release/acquire pair on that address (Go's atomics are sequentially consistent).
func AtomicP[T any](p *T, site string) *T {
	e := active.Load()
	if e == nil {
		return p
	}
	t := curThread.Load()
	if t == nil {
		return p
	}
	a := uintptr(unsafe.Pointer(p))
	if a != 0 && e.isShared(a) {
		e.point(t, "atomic", site)
		e.dirty = true
	}
	if vc, ok := e.atomicVC[a]; ok {
		joinVC(t.vc, vc)
	}
	t.vc[t.id]++
	e.atomicVC[a] = append([]int{}, t.vc...)
	return p
}

// RM is wrapped around a map that is read (index, range, len).
func RM[M any](m M, site string) M {
	if e := active.Load(); e != nil {
		if t := curThread.Load(); t != nil {
			e.record(t, mapID(unsafe.Pointer(&m)), false, site)
		}
	}
	return m
}

// WM is inserted before every insert into / delete from a map.
func WM[M any](m M, site string) {
	e := active.Load()
	if e == nil {
		return
	}
	t := curThread.Load()
	if t == nil {
		return
	}
	a := mapID(unsafe.Pointer(&m))
	if e.isShared(a) {
		e.point(t, "map-store", site)
		e.dirty = true
	}
	e.record(t, a, true, site)
}

// a map value is a pointer to its header: that pointer identifies the map
func mapID(pm unsafe.Pointer) uintptr { return *(*uintptr)(pm) }

// Point lets the harness announce an environment interaction (loader I/O) as a scheduling point.
func PointHere(op string) {
	e := active.Load()
	t := curThread.Load()
	if e == nil || t == nil {
		return
	}
	e.point(t, "io", op)
}

// ---------------- scheduler ----------------

func joinVC(dst, src []int) {
	for i := range src {
		if i < len(dst) && src[i] > dst[i] {
			dst[i] = src[i]
		}
	}
}

func (e *Exploration) setShared(rs [][2]uintptr) {
	e.shared = e.shared[:0]
	for _, r := range rs {
		e.shared = append(e.shared, addrRange{r[0], r[1]})
	}
	sort.Slice(e.shared, func(i, j int) bool { return e.shared[i].lo < e.shared[j].lo })
}

func (e *Exploration) isShared(a uintptr) bool {
	if e.allShared {
		return true
	}
	i := sort.Search(len(e.shared), func(i int) bool { return e.shared[i].hi > a })
	return i < len(e.shared) && e.shared[i].lo <= a
}

func (e *Exploration) record(t *thread, a uintptr, write bool, site string) {
	if a == 0 || !e.isShared(a) {
		// only memory that existed before the threads were started (reachable from the shared roots or a
		// package variable) is judged: goroutine stacks and fresh allocations are recycled between
		// goroutines, so equal addresses there do not mean the same object
		return
	}
	s := e.shadow[a]
	if s == nil {
		s = &shadow{reads: map[int]access{}}
		e.shadow[a] = s
	}
	clk := t.vc[t.id]
	// happens-before: the other access (tid o, clock c) is ordered before this one iff c <= t.vc[o]
	if s.hasW && s.w.tid != t.id && s.w.clock > t.vc[s.w.tid] {
		e.race(s.w, true, access{t.id, clk, site}, write)
	}
	if write {
		for o, r := range s.reads {
			if o != t.id && r.clock > t.vc[o] {
				e.race(r, false, access{t.id, clk, site}, true)
			}
		}
		s.w, s.hasW = access{t.id, clk, site}, true
		s.reads = map[int]access{}
	} else {
		s.reads[t.id] = access{t.id, clk, site}
	}
}

func (e *Exploration) race(a access, aw bool, b access, bw bool) {
	s1, s2 := a.site, b.site
	k := s1 + " / " + s2
	if s2 < s1 {
		k = s2 + " / " + s1
	}
	if _, ok := e.Races[k]; !ok {
		e.Races[k] = Race{Site1: a.site, Site2: b.site, Write1: aw, Write2: bw, T1: a.tid, T2: b.tid}
	}
}

// point: the running thread t reaches a scheduling point: hand the baton back to the scheduler and wait.
func (e *Exploration) point(t *thread, kind, what string) {
	t.pending = kind + " " + what
	// every synchronisation-relevant step advances the thread's clock
	t.vc[t.id]++
	e.yield <- t
	<-t.resume
}

// Explore-facing API -----------------------------------------------------

type Options struct {
	// Shared address ranges: stores into them are scheduling points. nil = every instrumented store is one.
	Shared   [][2]uintptr
	MaxSteps int
	// Rescan (optional) recomputes Shared while the threads are parked at a scheduling point; it is called after
	// stores into shared memory (at most MaxRescans times per execution, default 48)
	Rescan     func() [][2]uintptr
	MaxRescans int
}

// Run executes the thread bodies once under the schedule prefix (then default choices) and returns the execution.
func Run(bodies []func() any, prefix []int, opt Options) *Exploration {
	e := &Exploration{yield: make(chan *thread), prefix: prefix, Races: map[string]Race{}, shadow: map[uintptr]*shadow{},
		mutexVC: map[*Mutex][]int{}, mutexID: map[*Mutex]int{}, atomicVC: map[uintptr][]int{}, onceVC: map[*Once][]int{}, MaxSteps: opt.MaxSteps}
	if e.MaxSteps == 0 {
		e.MaxSteps = 200000
	}
	if opt.Shared == nil {
		e.allShared = true
	} else {
		e.setShared(opt.Shared)
	}
	e.rescan, e.maxRescans = opt.Rescan, opt.MaxRescans
	if e.maxRescans == 0 {
		e.maxRescans = 48
	}
	n := len(bodies)
	for i := 0; i < n; i++ {
		t := &thread{id: i, resume: make(chan struct{}), vc: make([]int, n)}
		t.vc[i] = 1
		e.threads = append(e.threads, t)
	}
	active.Store(e)
	for i, body := range bodies {
		t := e.threads[i]
		go func(t *thread, body func() any) {
			<-t.resume // wait for the first baton
			defer func() {
				if p := recover(); p != nil {
					t.panicV = p
				}
				t.done = true
				t.pending = "exit"
				e.yield <- t
			}()
			t.result = body()
		}(t, body)
	}
	var running *thread
	for {
		// every thread is parked at a hook: memory is quiescent, objects published since the last look become shared
		if e.rescan != nil && e.dirty && !e.allShared && e.Rescans < e.maxRescans {
			e.setShared(e.rescan())
			e.dirty = false
			e.Rescans++
		}
		// enabled threads in canonical order
		var en []*thread
		for _, t := range e.threads {
			if !t.done && t.blocked == nil {
				en = append(en, t)
			}
		}
		if len(en) == 0 {
			alldone := true
			for _, t := range e.threads {
				if !t.done {
					alldone = false
				}
			}
			if !alldone {
				e.Deadlock = true
				for _, t := range e.threads {
					if !t.done {
						e.DeadlockInfo += fmt.Sprintf("thread %d waits: %s; ", t.id, t.pending)
					}
				}
			}
			break
		}
		sort.Slice(en, func(i, j int) bool {
			if en[i] == running {
				return true
			}
			if en[j] == running {
				return false
			}
			return en[i].id < en[j].id
		})
		choice := 0
		if len(e.Points) < len(prefix) {
			choice = prefix[len(e.Points)]
			if choice >= len(en) {
				e.Diverged = fmt.Sprintf("prefix choice %d out of range at point %d (enabled %d)", choice, len(e.Points), len(en))
				choice = 0
			}
		}
		ids := make([]int, len(en))
		for i, t := range en {
			ids[i] = t.id
		}
		chosen := en[choice]
		e.Points = append(e.Points, Point{Enabled: ids, Chosen: choice, RunningStillEnabled: running != nil && len(en) > 0 && en[0] == running, Op: chosen.pending})
		e.Trace = append(e.Trace, fmt.Sprintf("t%d:%s", chosen.id, chosen.pending))
		e.steps++
		if e.steps > e.MaxSteps {
			e.Aborted = true
			break
		}
		running = chosen
		curThread.Store(chosen)
		chosen.resume <- struct{}{}
		<-e.yield // the chosen thread runs until its next point or its end
		curThread.Store(nil)
	}
	active.Store(nil)
	curThread.Store(nil)
	if e.Deadlock || e.Aborted {
		// leave blocked goroutines parked forever (they hold no real resources); make them collectable
		runtime.Gosched()
	}
	return e
}

func (e *Exploration) Results() []any {
	out := make([]any, len(e.threads))
	for i, t := range e.threads {
		out[i] = t.result
		if t.panicV != nil {
			out[i] = fmt.Sprintf("PANIC: %v", t.panicV)
		}
	}
	return out
}

// PreemptionsBefore counts the preemptions among the first i decisions.
func (e *Exploration) PreemptionsBefore(i int) int {
	n := 0
	for k := 0; k < i && k < len(e.Points); k++ {
		if e.Points[k].RunningStillEnabled && e.Points[k].Chosen != 0 {
			n++
		}
	}
	return n
}
